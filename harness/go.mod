module verif/harness

go 1.14

require github.com/Comcast/rulio v0.0.0

replace github.com/Comcast/rulio => /repo
