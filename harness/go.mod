module verif/harness

go 1.14

require (
	github.com/Comcast/rulio v0.0.0
	gopkg.in/yaml.v2 v2.3.0
)

replace github.com/Comcast/rulio => /repo
