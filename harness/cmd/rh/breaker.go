package main

import (
	"math/rand"
	"sort"
	"sync"
	"time"

	"github.com/Comcast/rulio/core"
)

// Domain "breaker": histories of Do/Status/Reset/Adjust on a real
// OutboundBreaker with recorded clock brackets and post-states.

func init() {
	register("breaker", &Domain{Gen: genBreaker, Exec: execBreaker})
}

func genBreaker(r *rand.Rand, n int, tier string) []Case {
	var cases []Case
	for i := 0; i < n; i++ {
		limit := int64(1 + r.Intn(4))
		ivals := []int64{20e6, 40e6, 60e6, 100e6, 200e6, 400e6, 33e6 + 7, 101e6 + 13}
		interval := ivals[r.Intn(len(ivals))]
		res := interval / 20
		c := Case{"limit": limit, "interval": interval}
		if i%29 == 7 {
			c["limit"] = int64(r.Intn(2)) - 1 // bad limit
			c["ops"] = []interface{}{}
			cases = append(cases, c)
			continue
		}
		if i%11 == 5 {
			// concurrent callers: only brackets and verdicts are recorded
			c["concurrent"] = true
			c["callers"] = 8
			c["calls"] = 20 + r.Intn(20)
			c["gap"] = res / int64(1+r.Intn(4))
			cases = append(cases, c)
			continue
		}
		if i%6 == 1 {
			// sustained polling faster than a tick, for longer than the
			// interval, after filling the breaker (liveness under polling)
			interval = []int64{20e6, 40e6, 60e6}[r.Intn(3)]
			res = interval / 20
			c["interval"] = interval
			var ops []interface{}
			for k := int64(0); k < limit+1; k++ {
				ops = append(ops, map[string]interface{}{"op": "do", "sleep": int64(0)})
			}
			gap := res / int64(2+r.Intn(4))
			for t := int64(0); t < interval*2; t += gap {
				ops = append(ops, map[string]interface{}{"op": "do", "sleep": gap})
			}
			c["ops"] = ops
			cases = append(cases, c)
			continue
		}
		var ops []interface{}
		budget := int64(1200e6)
		pure := r.Intn(5) != 0
		nops := 10 + r.Intn(50)
		style := r.Intn(4)
		for k := 0; k < nops && budget > 0; k++ {
			var sleep int64
			switch st := (style + k/15) % 4; st {
			case 0: // burst
				sleep = 0
			case 1: // polling faster than a tick
				sleep = res / int64(2+r.Intn(6))
			case 2: // slower than a tick
				sleep = res + r.Int63n(2*res)
			default: // mixed, with silences long enough to age out
				switch r.Intn(6) {
				case 0:
					sleep = interval + r.Int63n(res+1)
				case 1:
					sleep = interval - r.Int63n(res+1)
				case 2:
					sleep = 0
				default:
					sleep = r.Int63n(3 * res)
				}
			}
			budget -= sleep
			op := "do"
			if r.Intn(6) == 0 {
				op = "status"
			}
			o := map[string]interface{}{"op": op, "sleep": sleep}
			if !pure && r.Intn(12) == 0 {
				if r.Intn(2) == 0 {
					o = map[string]interface{}{"op": "reset", "sleep": sleep}
				} else {
					nl := int64(r.Intn(4))
					ni := ivals[r.Intn(len(ivals))]
					o = map[string]interface{}{"op": "adjust", "sleep": sleep, "limit": nl, "interval": ni}
				}
			}
			ops = append(ops, o)
		}
		c["ops"] = ops
		cases = append(cases, c)
	}
	return cases
}

func execBreaker(cases []Case) []Case {
	base := time.Now()
	since := func() int64 { return int64(time.Since(base)) + 1e9 }
	sem := make(chan bool, 48)
	var wg sync.WaitGroup
	for _, c := range cases {
		wg.Add(1)
		sem <- true
		go func(c Case) {
			defer func() { <-sem; wg.Done() }()
			b, err := core.NewOutboundBreaker(num(c["limit"]), time.Duration(num(c["interval"])))
			c["created"] = err == nil
			if err != nil {
				return
			}
			snap := func(o map[string]interface{}) {
				counts, upd := b.VerifState()
				cs := make([]interface{}, len(counts))
				for i, x := range counts {
					cs[i] = x
				}
				o["counts"] = cs
				if upd.IsZero() {
					o["updated"] = nil
				} else {
					o["updated"] = int64(upd.Sub(base)) + 1e9
				}
			}
			if boolean(c["concurrent"]) {
				callers, calls, gap := int(num(c["callers"])), int(num(c["calls"])), num(c["gap"])
				var mu sync.Mutex
				var ops []map[string]interface{}
				var wg2 sync.WaitGroup
				for g := 0; g < callers; g++ {
					wg2.Add(1)
					go func(g int) {
						defer wg2.Done()
						for k := 0; k < calls; k++ {
							tb := since()
							ok, _ := b.Do(nil)
							ta := since()
							mu.Lock()
							ops = append(ops, map[string]interface{}{"op": "do", "tb": tb, "ta": ta, "result": ok})
							mu.Unlock()
							time.Sleep(time.Duration(gap))
						}
					}(g)
				}
				wg2.Wait()
				sort.Slice(ops, func(i, j int) bool { return ops[i]["tb"].(int64) < ops[j]["tb"].(int64) })
				out := make([]interface{}, len(ops))
				for i := range ops {
					out[i] = ops[i]
				}
				c["ops"] = out
				return
			}
			for _, oi := range list(c["ops"]) {
				o := obj(oi)
				if d := num(o["sleep"]); d > 0 {
					time.Sleep(time.Duration(d))
				}
				switch str(o["op"]) {
				case "do":
					tb := since()
					ok, _ := b.Do(nil)
					ta := since()
					o["tb"], o["ta"], o["result"] = tb, ta, ok
				case "status":
					tb := since()
					st := b.Status()
					ta := since()
					o["tb"], o["ta"], o["result"] = tb, ta, st.Closed
				case "reset":
					tb := since()
					b.Reset()
					ta := since()
					o["tb"], o["ta"] = tb, ta
				case "adjust":
					tb := since()
					err := b.Adjust(num(o["limit"]), time.Duration(num(o["interval"])))
					ta := since()
					o["tb"], o["ta"], o["result"] = tb, ta, err == nil
				}
				snap(o)
			}
		}(c)
	}
	wg.Wait()
	return cases
}
