package main

import (
	"encoding/json"
	"fmt"
	"math/rand"
	"sort"
	"strings"
)

// Script templates: each is rendered to JavaScript; the case carries the
// table js -> descriptor ("sem") that gives the template's meaning to the
// model (coq/theories/Query.v: dec_code).

type tplGen struct {
	r     *rand.Rand
	vars  []string // variable names without "?"
	bound []string // variables that earlier patterns of the query bind
	sem   map[string]interface{}
}

func (t *tplGen) pickVar() string {
	if len(t.bound) > 0 && t.r.Intn(8) != 0 {
		return t.bound[t.r.Intn(len(t.bound))]
	}
	return t.vars[t.r.Intn(len(t.vars))]
}

func jsLit(v interface{}) string {
	b, _ := json.Marshal(v)
	return string(b)
}

// expr returns (js, descriptor).
func (t *tplGen) expr(depth int) (string, map[string]interface{}) {
	r := t.r
	switch n := r.Intn(12); {
	case n < 4:
		v := pick(r, true, true, false, nil, 0.0, 1.0, 7.0, "s", "x")
		return jsLit(v), map[string]interface{}{"t": "const", "v": v}
	case n < 6:
		x := t.pickVar()
		return x, map[string]interface{}{"t": "var", "x": x}
	case n < 9:
		x := t.pickVar()
		v := pick(r, "x", "y", "z", "10", 0.0, 1.0, 2.0, 10.0, true, false)
		return fmt.Sprintf("%s === %s", x, jsLit(v)), map[string]interface{}{"t": "seq", "x": x, "v": v}
	default:
		if depth <= 0 {
			return "true", map[string]interface{}{"t": "const", "v": true}
		}
		n := 1 + r.Intn(2)
		fields := map[string]interface{}{}
		var parts []string
		names := []string{"x", "y", "z", "w"}
		for i := 0; i < n; i++ {
			f := names[r.Intn(len(names))]
			if _, dup := fields[f]; dup {
				continue
			}
			var js string
			var d map[string]interface{}
			if r.Intn(2) == 0 {
				v := pick(r, "x", "y", "A", true)
				js, d = jsLit(v), map[string]interface{}{"t": "const", "v": v}
			} else {
				x := t.pickVar()
				js, d = x, map[string]interface{}{"t": "var", "x": x}
			}
			fields[f] = d
			parts = append(parts, fmt.Sprintf("%s: %s", jsLit(f), js))
		}
		return "({" + strings.Join(parts, ", ") + "})", map[string]interface{}{"t": "obj", "f": fields}
	}
}

// code returns a script of the family and records its meaning.
func (t *tplGen) code() string {
	r := t.r
	var js string
	var d map[string]interface{}
	switch r.Intn(50) {
	case 0:
		js, d = `throw "boom"`, map[string]interface{}{"t": "throw"}
	case 1:
		js, d = `(`, map[string]interface{}{"t": "syntax"}
	default:
		js, d = t.expr(1)
	}
	t.sem[js] = d
	return js
}

type queryGen struct {
	lg  *locGen
	tpl *tplGen
}

func (qg *queryGen) query(depth int) map[string]interface{} {
	r := qg.lg.r
	n := r.Intn(20)
	if depth <= 0 && n >= 11 {
		n = r.Intn(11)
	}
	switch {
	case n < 7:
		var src map[string]interface{}
		if len(qg.lg.facts) > 0 && r.Intn(6) != 0 {
			src = qg.lg.facts[r.Intn(len(qg.lg.facts))]
		} else {
			src = qg.lg.g.event()
		}
		pg := &patGen{g: qg.lg.g, vars: []string{"?x", "?y", "?z"}, pRepeat: 0.1, pVar: 0.45, pDrop: 0.4, arrayVar: true}
		p, _ := pg.derive(src, true).(map[string]interface{})
		if len(p) == 0 && r.Intn(10) != 0 {
			pg.pDrop = 0
			p, _ = pg.derive(src, true).(map[string]interface{})
		}
		if p == nil {
			p = map[string]interface{}{}
		}
		for _, v := range pg.used {
			if len(v) > 1 {
				qg.tpl.bound = append(qg.tpl.bound, v[1:])
			}
		}
		q := map[string]interface{}{"pattern": p}
		if r.Intn(200) == 0 {
			q["pattern"] = "nope"
		}
		return q
	case n < 10:
		return map[string]interface{}{"code": qg.tpl.code()}
	case n < 11:
		return map[string]interface{}{}
	case n < 14:
		k := r.Intn(4)
		qs := []interface{}{}
		for i := 0; i < k; i++ {
			qs = append(qs, qg.query(depth-1))
		}
		return map[string]interface{}{"and": qs}
	case n < 18:
		k := r.Intn(4)
		qs := []interface{}{}
		for i := 0; i < k; i++ {
			qs = append(qs, qg.query(depth-1))
		}
		q := map[string]interface{}{"or": qs}
		switch r.Intn(5) {
		case 0, 1:
			q["shortCircuit"] = true
		case 2:
			q["shortCircuit"] = false
		case 3:
			if r.Intn(4) == 0 {
				q["short_circuit"] = true
			}
		}
		return q
	default:
		return map[string]interface{}{"not": qg.query(depth - 1)}
	}
}

// genQueryOp: a query op with its sem table.
func (lg *locGen) queryOp(o map[string]interface{}) {
	tpl := &tplGen{r: lg.r, vars: []string{"x", "y", "z"}, sem: map[string]interface{}{}}
	qg := &queryGen{lg: lg, tpl: tpl}
	o["op"] = "query"
	var q map[string]interface{}
	if lg.r.Intn(6) == 0 && len(lg.facts) > 0 {
		// an `or` whose branches bind DIFFERENT variables (or none), followed by a pattern that uses
		// them: the pattern conjunct receives incoming bindings of different shapes and must be
		// instantiated and searched for each of them separately
		src := lg.facts[lg.r.Intn(len(lg.facts))]
		var keys []string
		for k := range src {
			keys = append(keys, k)
		}
		sort.Strings(keys)
		if len(keys) > 0 {
			k1 := keys[lg.r.Intn(len(keys))]
			k2 := keys[lg.r.Intn(len(keys))]
			br := func(k, v string) map[string]interface{} {
				return map[string]interface{}{"pattern": map[string]interface{}{k: v}}
			}
			branches := []interface{}{br(k1, "?y"), br(k2, "?x")}
			if lg.r.Intn(2) == 0 {
				branches = []interface{}{map[string]interface{}{}, br(k2, "?x"), br(k1, "?y")}
			}
			lg.r.Shuffle(len(branches), func(i, j int) { branches[i], branches[j] = branches[j], branches[i] })
			last := map[string]interface{}{k2: "?x"}
			if lg.r.Intn(2) == 0 {
				last[k1] = "?y"
			}
			q = map[string]interface{}{"and": []interface{}{map[string]interface{}{"or": branches}, map[string]interface{}{"pattern": last}}}
			tpl.bound = append(tpl.bound, "x", "y")
		}
	}
	if q != nil {
	} else if lg.r.Intn(3) == 0 {
		q = qg.query(3)
	} else {
		// and-chains give later terms incoming bindings
		k := 2 + lg.r.Intn(2)
		qs := []interface{}{}
		for i := 0; i < k; i++ {
			qs = append(qs, qg.query(2))
		}
		q = map[string]interface{}{"and": qs}
	}
	o["query"] = q
	o["sem"] = tpl.sem
}
