package main

import (
	"encoding/json"
	"fmt"
	"math/rand"
	"os"
	"path/filepath"
	"sync"
	"time"

	"github.com/Comcast/rulio/core"
	"github.com/Comcast/rulio/cron"
	"github.com/Comcast/rulio/sys"
)

// Domain "cron-sys" (C15, second domain): one sys.System with the real
// built-in cron (cron.InternalCron over a started cron.Cron) and several
// locations that share rule ids.  Phase 1 (a few ms): scheduled one-shot rules
// ("+200ms"/"+400ms") are added, removed and overwritten.  Phase 2: after the
// due times, for every (location, id): how often the rule's action ran in
// that location (the action adds a fact {"ranRule": id} to ITS location) and
// whether the rule is still stored (a one-shot rule deletes itself after it
// ran).

func init() {
	register("cron-sys", &Domain{Gen: genCronSys, Exec: execCronSys})
}

func genCronSys(r *rand.Rand, n int, tier string) []Case {
	var cases []Case
	for i := 0; i < n; i++ {
		k := 2 + r.Intn(2)
		var locs []interface{}
		for j := 0; j < k; j++ {
			locs = append(locs, fmt.Sprintf("L%d", j))
		}
		ids := []string{"r0", "r1"}
		if r.Intn(4) == 0 {
			// names with the separators one might use to qualify a rule id with its location: the jobs of
			// ("L", "a:b") and ("L:a", "b") are different jobs
			k = 2
			locs = []interface{}{"L", "L:a"}
			ids = []string{"a:b", "b"}
		}
		var ops []interface{}
		for j := 0; j < 3+r.Intn(5); j++ {
			o := map[string]interface{}{"loc": locs[r.Intn(k)], "id": ids[r.Intn(len(ids))]}
			switch r.Intn(9) {
			case 7:
				// a scheduled rule that depends on a fact (deleteWith) ...
				o["op"] = "adddepsched"
				o["delay_ms"] = []interface{}{200.0, 400.0}[r.Intn(2)]
			case 8:
				// ... and the removal of that fact: the cascade removes the rule, and its job must go - the
				// job of THIS location's rule, whatever location the client's context was last used for
				o["op"] = "remdep"
			case 6:
				// a schedule string of unusual shape (far in the future when it is accepted at all): an error
				// or an accepted rule that does not run within the case - never a panic, and a refused
				// overwrite leaves the stored rule and its job as they were
				o["op"] = "addfar"
				o["schedule"] = pick(r, "+1h?once", "+1h?a=b", "+1h?", "+1h?a=b&&c=d", "+1h?a=%zz", "+2h?x", "?", "+1h?=", "+1h?a=b&c").(string)
			case 0:
				o["op"] = "remrule"
			case 1:
				o["op"] = "addplain" // overwrite by an unscheduled rule
			default:
				o["op"] = "addsched"
				o["delay_ms"] = []interface{}{200.0, 400.0}[r.Intn(2)]
			}
			ops = append(ops, o)
		}
		// 1 case in 3: the process "restarts" after the set-up phase: a second System (and a fresh,
		// non-persistent cron) over the same Bolt file; its locations are loaded by a first request
		// each and must register their stored scheduled rules again
		restart := r.Intn(3) == 0
		if restart && r.Intn(2) == 0 {
			// two rules of ONE location due at the same instant: after the restart both jobs were
			// scheduled by the same load, and they fire concurrently
			l := locs[r.Intn(k)]
			d := []interface{}{200.0, 400.0}[r.Intn(2)]
			for _, id := range ids {
				ops = append(ops, map[string]interface{}{"loc": l, "id": id, "op": "addsched", "delay_ms": d})
			}
		}
		// 1 case in 3: every location has a write key and every client presents it: with the right key
		// the behaviour is that of an unprotected location, INCLUDING what the scheduled rules' actions
		// write when the cron service runs them on a sub-context of the adder's context
		cases = append(cases, Case{"locs": locs, "ids": []interface{}{ids[0], ids[1]}, "ops": ops, "linear": r.Intn(2) == 0,
			"restart": restart, "keyed": r.Intn(3) == 0, "sharedctx": r.Intn(2) == 0})
	}
	return cases
}

func execCronSys(cases []Case) []Case {
	sem := make(chan bool, 24)
	var wg sync.WaitGroup
	for _, c := range cases {
		wg.Add(1)
		sem <- true
		go func(c Case) {
			defer func() { <-sem; wg.Done() }()
			if os.Getenv("RH_FORCE_CHILD") == "1" && os.Getenv("RH_CHILD") != "1" {
				// (the harness process died on this domain before: one child process per case, so that a
				// fatal runtime error of the code under test is an observation of one case)
				runInChild("cron-sys", c, func(c Case, kind string) { c["crashed"] = kind })
				return
			}
			execCronSysCase(c)
		}(c)
	}
	wg.Wait()
	return cases
}

func execCronSysCase(c Case) {
	ctx := core.NewContext("rh")
	ctx.Verbosity = core.NOTHING
	conf := sys.ExampleConfig()
	conf.UnindexedState = boolean(c["linear"])
	if boolean(c["restart"]) {
		dir, err := os.MkdirTemp("", "rh-cronsys-")
		if err != nil {
			c["setup_error"] = err.Error()
			return
		}
		defer os.RemoveAll(dir)
		conf.Storage = "bolt"
		conf.StorageConfig = filepath.Join(dir, "sys.db")
	}
	cont := sys.ExampleSystemControl()
	cont.LocationTTL = sys.Forever
	cont.DefaultLocControl = &core.Control{MaxFacts: 1000, Verbosity: core.NOTHING}
	cr, _ := cron.NewCron(cron.NewCronBroadcaster(), time.Second, "rh", 100000)
	go cr.Start(ctx)
	defer cr.Kill(ctx)
	time.Sleep(5 * time.Millisecond)
	s, err := sys.NewSystem(ctx, *conf, *cont, &cron.InternalCron{Cron: cr})
	if err != nil {
		c["setup_error"] = err.Error()
		return
	}
	keyed := boolean(c["keyed"])
	var shared *core.Context
	newctx := func() *core.Context {
		if shared != nil {
			return shared // (a client that uses ONE context for all its requests)
		}
		cx := core.NewContext("rh")
		cx.Verbosity = core.NOTHING
		if keyed {
			cx.WriteKey = "wk"
		}
		if boolean(c["sharedctx"]) {
			shared = cx
		}
		return cx
	}
	if keyed {
		for _, li := range list(c["locs"]) {
			if _, err := s.AddFact(newctx(), str(li), "", `{"!writeKey":"wk"}`); err != nil {
				c["setup_error"] = err.Error()
				return
			}
		}
	}
	action := map[string]interface{}{"code": `Env.AddFact("", {"ranRule": ruleId, "at": location});`}
	start := time.Now()
	for _, oi := range list(c["ops"]) {
		o := obj(oi)
		loc, id := str(o["loc"]), str(o["id"])
		var err error
		switch str(o["op"]) {
		case "addsched":
			rule := map[string]interface{}{"schedule": fmt.Sprintf("+%dms", num(o["delay_ms"])), "action": action}
			js, _ := json.Marshal(rule)
			_, err = s.AddRule(newctx(), loc, id, string(js))
		case "adddepsched":
			if _, err = s.AddFact(newctx(), loc, "d"+id, `{"dep":"of `+id+`"}`); err == nil {
				rule := map[string]interface{}{"schedule": fmt.Sprintf("+%dms", num(o["delay_ms"])), "action": action,
					"deleteWith": []interface{}{"d" + id}}
				js, _ := json.Marshal(rule)
				_, err = s.AddRule(newctx(), loc, id, string(js))
			}
		case "remdep":
			_, err = s.RemFact(newctx(), loc, "d"+id)
		case "addfar":
			rule := map[string]interface{}{"schedule": str(o["schedule"]), "action": action}
			js, _ := json.Marshal(rule)
			_, err = s.AddRule(newctx(), loc, id, string(js))
		case "addplain":
			rule := map[string]interface{}{"when": map[string]interface{}{"pattern": map[string]interface{}{"never": "matches"}}, "action": action}
			js, _ := json.Marshal(rule)
			_, err = s.AddRule(newctx(), loc, id, string(js))
		case "remrule":
			_, err = s.RemRule(newctx(), loc, id)
		}
		o["ok"] = err == nil
		o["at_ms"] = time.Since(start).Milliseconds()
	}
	c["phase1_ms"] = time.Since(start).Milliseconds()
	if boolean(c["restart"]) {
		// stop the first System and its cron (nothing has fired yet if phase 1 was quick), start another
		// pair over the same file and touch every location once
		cr.Kill(ctx)
		s.Close(ctx)
		cr2, _ := cron.NewCron(cron.NewCronBroadcaster(), time.Second, "rh2", 100000)
		go cr2.Start(ctx)
		defer cr2.Kill(ctx)
		time.Sleep(5 * time.Millisecond)
		s2, err := sys.NewSystem(ctx, *conf, *cont, &cron.InternalCron{Cron: cr2})
		if err != nil {
			c["setup_error"] = err.Error()
			return
		}
		s = s2
		for _, li := range list(c["locs"]) {
			s.GetSize(newctx(), str(li))
		}
		c["restart_ms"] = time.Since(start).Milliseconds()
		start = time.Now() // relative schedules count from the load
	}
	time.Sleep(1100*time.Millisecond - time.Since(start))
	// what must have run: the pairs whose last successful operation scheduled a rule
	due := map[string]bool{}
	depsched := map[string]bool{}
	for _, oi := range list(c["ops"]) {
		o := obj(oi)
		if boolean(o["ok"]) {
			k := str(o["loc"]) + "/" + str(o["id"])
			switch str(o["op"]) {
			case "remdep":
				if depsched[k] {
					due[k], depsched[k] = false, false
				}
			default:
				due[k] = str(o["op"]) == "addsched" || str(o["op"]) == "adddepsched"
				depsched[k] = str(o["op"]) == "adddepsched"
			}
		}
	}
	var obs []interface{}
	// (on a loaded machine a due job may be late: "runs when due" is judged one-sidedly, the harness
	// waits up to 6 s more for a job that must run; "never after removal" had its 700 ms and more)
	for attempt := 0; ; attempt++ {
		obs = observeCronSys(c, s, newctx)
		late := false
		for _, oi := range obs {
			o := obj(oi)
			// (not run yet, or run but its own removal - the last step of a one-shot rule - still in progress)
			if due[str(o["loc"])+"/"+str(o["id"])] && (num(o["ran"]) == 0 || boolean(o["present"])) {
				late = true
			}
		}
		if !late || attempt >= 30 {
			break
		}
		time.Sleep(200 * time.Millisecond)
	}
	c["obs"] = obs
}

func observeCronSys(c Case, s *sys.System, newctx func() *core.Context) []interface{} {
	var obs []interface{}
	for _, li := range list(c["locs"]) {
		loc := str(li)
		for _, idi := range list(c["ids"]) {
			id := str(idi)
			ran := -1
			pat, _ := json.Marshal(map[string]interface{}{"ranRule": id})
			if srs, err := s.SearchFacts(newctx(), loc, string(pat), false); err == nil {
				ran = len(srs.Found)
			}
			_, gerr := s.GetRule(newctx(), loc, id)
			obs = append(obs, map[string]interface{}{"loc": loc, "id": id, "ran": ran, "present": gerr == nil})
		}
	}
	return obs
}
