// rh: the verification harness.  It drives the real Comcast/rulio code
// (built from /repo's working tree with -tags verif) on generated or
// replayed cases and writes what it observed, one JSON object per line.
//
//   rh gen  <domain> -seed S -n N [-tier quick|thorough]   inputs only
//   rh exec <domain>                                      stdin: inputs; stdout: inputs + observations
//   rh run  <domain> -seed S -n N                          gen | exec
package main

import (
	"bufio"
	"encoding/json"
	"flag"
	"fmt"
	"math/rand"
	"os"
)

// Case is one input (and, after exec, its observations).
type Case = map[string]interface{}

type Domain struct {
	Gen  func(r *rand.Rand, n int, tier string) []Case
	Exec func(cases []Case) []Case
}

var domains = map[string]*Domain{}

func register(name string, d *Domain) { domains[name] = d }

func readCases(domain string) []Case {
	var cases []Case
	sc := bufio.NewScanner(os.Stdin)
	sc.Buffer(make([]byte, 1<<20), 1<<28)
	for sc.Scan() {
		line := sc.Bytes()
		if len(line) == 0 {
			continue
		}
		var env map[string]interface{}
		dec := json.NewDecoder(bytesReader(line))
		dec.UseNumber()
		if err := dec.Decode(&env); err != nil {
			fmt.Fprintf(os.Stderr, "rh: bad input line: %v\n", err)
			os.Exit(2)
		}
		c, _ := env["case"].(map[string]interface{})
		if c == nil {
			c = env
		}
		c["__id"] = env["id"]
		cases = append(cases, c)
	}
	return cases
}

func writeCases(domain string, cases []Case) {
	w := bufio.NewWriterSize(os.Stdout, 1<<20)
	defer w.Flush()
	for i, c := range cases {
		var id interface{} = i
		if v, ok := c["__id"]; ok && v != nil {
			id = v
		}
		delete(c, "__id")
		js, err := json.Marshal(map[string]interface{}{"domain": domain, "id": id, "case": c})
		if err != nil {
			fmt.Fprintf(os.Stderr, "rh: marshal: %v\n", err)
			os.Exit(2)
		}
		w.Write(js)
		w.WriteByte('\n')
	}
}

func main() {
	if len(os.Args) < 3 {
		fmt.Fprintln(os.Stderr, "usage: rh gen|exec|run <domain> [-seed S] [-n N] [-tier T]")
		os.Exit(2)
	}
	mode, name := os.Args[1], os.Args[2]
	fs := flag.NewFlagSet("rh", flag.ExitOnError)
	seed := fs.Int64("seed", 1, "PRNG seed")
	n := fs.Int("n", 100, "number of cases")
	tier := fs.String("tier", "quick", "quick|thorough")
	fs.Parse(os.Args[3:])
	d := domains[name]
	if d == nil {
		fmt.Fprintf(os.Stderr, "rh: unknown domain %q\n", name)
		os.Exit(2)
	}
	silence()
	switch mode {
	case "gen":
		writeCases(name, d.Gen(rand.New(rand.NewSource(*seed)), *n, *tier))
	case "exec":
		writeCases(name, d.Exec(readCases(name)))
	case "run":
		writeCases(name, d.Exec(d.Gen(rand.New(rand.NewSource(*seed)), *n, *tier)))
	default:
		fmt.Fprintf(os.Stderr, "rh: unknown mode %q\n", mode)
		os.Exit(2)
	}
}
