package main

import (
	"encoding/json"
	"fmt"
	"math/rand"
	"net/http/httptest"
	"os"
	"strings"
	"sync"

	"github.com/Comcast/rulio/core"
	"github.com/Comcast/rulio/service"
	"github.com/Comcast/rulio/sys"
)

// Domain "conc-http" (C11, through the service layer): K clients, one location
// each, send their requests concurrently to ONE service.HTTPService (one
// System).  Every location has a rule whose condition is a short script and
// whose action writes a fact through the script environment (Env.AddFact, the
// location of the request's context) and returns Env.Location.  A
// non-interference oracle, independent of the location model: at the end
// every location holds exactly the facts its own client's acknowledged
// requests produced (tagged with the location's own name), and every event
// returned its own location's name.

func init() {
	register("conc-http", &Domain{Gen: genConcHTTP, Exec: execConcHTTP})
}

func genConcHTTP(r *rand.Rand, n int, tier string) []Case {
	var cases []Case
	for i := 0; i < n; i++ {
		k := 2 + r.Intn(3)
		var clients []interface{}
		for c := 0; c < k; c++ {
			var ops []interface{}
			for j := 0; j < 3+r.Intn(4); j++ {
				op := "event"
				if r.Intn(3) == 0 {
					op = "addfact"
				}
				ops = append(ops, map[string]interface{}{"op": op, "seq": float64(j)})
			}
			clients = append(clients, map[string]interface{}{"loc": fmt.Sprintf("L%d", c), "ops": ops})
		}
		cases = append(cases, Case{"clients": clients, "linear": r.Intn(2) == 0})
	}
	return cases
}

func execConcHTTP(cases []Case) []Case {
	sem := make(chan bool, 8)
	var wg sync.WaitGroup
	for _, c := range cases {
		wg.Add(1)
		sem <- true
		go func(c Case) {
			defer func() { <-sem; wg.Done() }()
			if os.Getenv("RH_FORCE_CHILD") == "1" && os.Getenv("RH_CHILD") != "1" {
				// (the harness process died on this domain before: one child process per case)
				runInChild("conc-http", c, func(c Case, kind string) { c["crashed"] = kind })
				return
			}
			execConcHTTPCase(c)
		}(c)
	}
	wg.Wait()
	return cases
}

func execConcHTTPCase(c Case) {
	ctx := core.NewContext("rh")
	ctx.Verbosity = core.NOTHING
	conf := sys.ExampleConfig()
	conf.UnindexedState = boolean(c["linear"])
	cont := sys.ExampleSystemControl()
	cont.LocationTTL = sys.Forever
	cont.DefaultLocControl = &core.Control{MaxFacts: 1000, Verbosity: core.NOTHING}
	s, err := sys.NewSystem(ctx, *conf, *cont, noCron{})
	if err != nil {
		c["setup_error"] = err.Error()
		return
	}
	h, _ := service.NewHTTPService(ctx, &service.Service{System: s})
	post := func(uri string, body map[string]interface{}) (int, string) {
		js, _ := json.Marshal(body)
		req := httptest.NewRequest("POST", uri, strings.NewReader(string(js)))
		rec := httptest.NewRecorder()
		func() {
			defer func() {
				if p := recover(); p != nil {
					rec.Code = 599
				}
			}()
			h.ServeHTTP(rec, req)
		}()
		return rec.Code, rec.Body.String()
	}
	rule := map[string]interface{}{
		"when":      map[string]interface{}{"pattern": map[string]interface{}{"go": "?n"}},
		"condition": map[string]interface{}{"code": "Env.sleep(1000000); true"},
		"action":    map[string]interface{}{"code": `Env.AddFact("", {"tag": Env.Location, "seq": n, "via": "action"}); Env.Location`},
	}
	clients := list(c["clients"])
	for _, ci := range clients {
		loc := str(obj(ci)["loc"])
		if code, body := post("/api/loc/rules/add", map[string]interface{}{"location": loc, "id": "r", "rule": rule}); code != 200 {
			c["setup_error"] = fmt.Sprintf("rules/add %d %s", code, body)
			return
		}
	}
	var wg sync.WaitGroup
	gate := make(chan bool)
	for _, ci := range clients {
		cl := obj(ci)
		wg.Add(1)
		go func(cl map[string]interface{}) {
			defer wg.Done()
			loc := str(cl["loc"])
			<-gate
			for _, oi := range list(cl["ops"]) {
				o := obj(oi)
				var code int
				var body string
				if str(o["op"]) == "addfact" {
					code, body = post("/api/loc/facts/add", map[string]interface{}{"location": loc,
						"fact": map[string]interface{}{"tag": loc, "seq": o["seq"], "via": "direct"}})
				} else {
					code, body = post("/api/loc/events/ingest", map[string]interface{}{"location": loc,
						"event": map[string]interface{}{"go": o["seq"]}})
					// the values of the executed actions, wherever they sit in the work tree
					var v interface{}
					vals := []interface{}{}
					if json.Unmarshal([]byte(body), &v) == nil {
						var walk func(x interface{})
						walk = func(x interface{}) {
							switch y := x.(type) {
							case map[string]interface{}:
								for k, z := range y {
									if k == "values" {
										if l, isList := z.([]interface{}); isList {
											vals = append(vals, l...)
										}
									}
									walk(z)
								}
							case []interface{}:
								for _, z := range y {
									walk(z)
								}
							}
						}
						walk(v)
					}
					o["values"] = vals
				}
				o["ok"] = code == 200
				o["status"] = float64(code)
			}
		}(cl)
	}
	close(gate)
	wg.Wait()
	// what every location holds at the end (no concurrency any more)
	for _, ci := range clients {
		cl := obj(ci)
		found := []interface{}{}
		srs, err := s.SearchFacts(ctx, str(cl["loc"]), `{"tag":"?t"}`, false)
		if err == nil {
			for _, sr := range srs.Found {
				var f map[string]interface{}
				if json.Unmarshal([]byte(sr.Js), &f) == nil {
					found = append(found, map[string]interface{}{"tag": f["tag"], "seq": f["seq"], "via": f["via"]})
				}
			}
		} else {
			cl["search_error"] = err.Error()
		}
		cl["found"] = found
	}
}
