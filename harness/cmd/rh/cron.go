package main

import (
	"fmt"
	"math/rand"
	"sort"
	"sync"
	"time"

	"github.com/Comcast/rulio/core"
	"github.com/Comcast/rulio/cron"
)

// Domain "cron": timed scripts on a real, started cron.Cron.
//
// A case is a script of operations at offsets (ms) from an aligned start S
// (S is the next instant whose wall-clock fraction of a second is 0.100, so
// that the whole-second occurrences of recurring jobs fall at S+900ms,
// S+1900ms, ...).  One-shot "soon" jobs are due on the grid S+150+50k ms,
// operations happen on the grid S+125+50k ms (or in a burst at S), so that
// no operation is closer than ~25 ms to a firing instant.
//
// Observations: for every op the clock bracket [tb, ta] (unix ns) and its
// result; for add also the job's Next as read from the Timeline under the
// lock; for snap the Timeline (id, next) in order and the fire log so far
// (callbacks append (id, time.Now()) under a mutex).

func init() {
	register("cron", &Domain{Gen: genCron, Exec: execCron})
}

type cronGen struct {
	r      *rand.Rand
	script []interface{}
	slots  []int // unused due slots (indexes k of 150+50k)
	due    map[string]int64
	hasRec bool
	last   int64 // latest instant (ms) at which something may still fire or be due
}

func (g *cronGen) op(at int64, o map[string]interface{}) {
	o["at"] = at
	g.script = append(g.script, o)
	if at > g.last {
		g.last = at
	}
}

// takeSlot returns a free due offset (ms) later than min, or -1.
func (g *cronGen) takeSlot(min int64) int64 {
	for i, k := range g.slots {
		d := int64(150 + 50*k)
		if d >= min {
			g.slots = append(g.slots[:i], g.slots[i+1:]...)
			return d
		}
	}
	return -1
}

func (g *cronGen) addSoon(at int64, id string) bool {
	d := g.takeSlot(at + 75)
	if d < 0 {
		return false
	}
	g.op(at, map[string]interface{}{"op": "add", "id": id, "kind": "soon", "due": d})
	g.due[id] = d
	if d > g.last {
		g.last = d
	}
	return true
}

func (g *cronGen) addFar(at int64, id string) {
	g.op(at, map[string]interface{}{"op": "add", "id": id, "kind": "far", "hours": int64(1 + g.r.Intn(9)), "mins": int64(g.r.Intn(60))})
	delete(g.due, id)
}

func (g *cronGen) addRec(at int64, id string, slow int64) {
	g.op(at, map[string]interface{}{"op": "add", "id": id, "kind": "rec", "slow": slow})
	g.hasRec = true
	delete(g.due, id)
}

func (g *cronGen) rem(at int64, id string) {
	g.op(at, map[string]interface{}{"op": "rem", "id": id})
	delete(g.due, id)
}

// earliest pending soon id at instant at (by the generator's bookkeeping).
func (g *cronGen) earliest(at int64) string {
	best, bd := "", int64(1<<62)
	for id, d := range g.due {
		if d > at && d < bd {
			best, bd = id, d
		}
	}
	return best
}

func genCron(r *rand.Rand, n int, tier string) []Case {
	ids := []string{"a", "b", "c", "d", "e", "f"}
	var cases []Case
	for i := 0; i < n; i++ {
		g := &cronGen{r: r, due: map[string]int64{}}
		g.slots = r.Perm(10)
		limit := int64(100)
		scen := i % 7
		if scen == 4 {
			limit = int64(2 + r.Intn(3))
		}
		pid := func() string { return ids[r.Intn(3+r.Intn(4))] }
		// ---- burst at S
		allowRec := scen == 5 || r.Intn(4) == 0
		nb := 3 + r.Intn(7)
		for k := 0; k < nb; k++ {
			x := r.Intn(10)
			id := pid()
			switch {
			case x < 5:
				if !g.addSoon(0, id) {
					g.addFar(0, id)
				}
			case x < 7:
				g.addFar(0, id)
			case x < 8 && allowRec:
				g.addRec(0, id, 0)
			default:
				g.rem(0, id)
			}
		}
		if scen == 5 && !g.hasRec {
			g.addRec(0, "f", 0)
		}
		if scen == 1 {
			// removal of the head while later jobs are pending
			for len(g.due) < 3 {
				if !g.addSoon(0, ids[len(g.due)]) {
					break
				}
			}
			if r.Intn(2) == 0 {
				if id := g.earliest(0); id != "" {
					g.rem(0, id)
				}
			}
		}
		capacity := scen == 3 && r.Intn(3) == 0
		if capacity {
			// limit 1, reached through the re-scheduling of a recurring job
			// (schedule(job, false) does not check the limit)
			g = &cronGen{r: r, due: map[string]int64{}}
			g.slots = r.Perm(10)
			limit = 1
		}
		if scen == 3 {
			g.addRec(0, "r", 300)
		}
		if scen == 6 {
			// two generations of ONE recurring id running at once: r fires at S+900 and its callback runs
			// until S+2700; it is replaced at S+1125 (the running entry is marked, the replacement is
			// scheduled), the replacement fires at S+1900 and runs until S+3700; Rem at S+2325 (well after
			// that firing, also on a loaded machine) meets both in the running list - the first marked
			// already, the second to be marked - and r must not fire at S+2900 or S+3900
			g = &cronGen{r: r, due: map[string]int64{}}
			g.slots = r.Perm(10)
			limit = 100
			g.addRec(0, "r", 1800)
		}
		g.op(0, map[string]interface{}{"op": "snap"})
		// ---- operations between firings
		var mids []int64
		for _, k := range r.Perm(9)[:r.Intn(4)] {
			mids = append(mids, int64(125+50*k))
		}
		sort.Slice(mids, func(a, b int) bool { return mids[a] < mids[b] })
		switch scen {
		case 1:
			at := int64(125 + 50*r.Intn(4))
			if id := g.earliest(at); id != "" {
				g.rem(at, id)
			}
			if r.Intn(3) == 0 {
				g.addSoon(at+250, pid())
			}
			g.op(at+300, map[string]interface{}{"op": "snap"})
		case 2:
			s1 := int64(125 + 50*r.Intn(5))
			s2 := s1 + int64(100+50*r.Intn(6))
			switch r.Intn(4) {
			case 0: // pause (200 ms)
				g.op(s1, map[string]interface{}{"op": "pause"})
				g.last = maxi(g.last, s1+200)
				if r.Intn(2) == 0 {
					g.addSoon(s1+50, pid())
				}
			default:
				g.op(s1, map[string]interface{}{"op": "suspend"})
				if r.Intn(2) == 0 {
					// an Add while suspended
					if r.Intn(2) == 0 {
						g.addSoon(s1+50, pid())
					} else {
						g.addFar(s1+50, pid())
					}
				}
				if r.Intn(3) == 0 {
					g.rem(s1+50, pid())
				}
				g.op(s2-50, map[string]interface{}{"op": "snap"})
				if r.Intn(4) != 0 {
					g.op(s2, map[string]interface{}{"op": "resume"})
				}
			}
		case 3:
			// the recurring job r fires at S+900 and its callback runs
			// until S+1200: remove it, or replace it, meanwhile
			if capacity {
				g.addFar(1025, "b") // accepted: r is off the timeline while it runs
				g.op(1275, map[string]interface{}{"op": "snap"})
				g.addFar(1325, "b") // refused: the timeline holds 2 > limit
				g.op(1375, map[string]interface{}{"op": "snap"})
			} else {
				if r.Intn(3) == 0 {
					g.addFar(1025, "r")
				} else {
					g.rem(1025, "r")
				}
				g.op(1325, map[string]interface{}{"op": "snap"})
			}
		case 6:
			g.addRec(1125, "r", 1800)
			g.op(1275, map[string]interface{}{"op": "snap"})
			g.rem(2325, "r")
			g.op(2475, map[string]interface{}{"op": "snap"})
		default:
			for _, at := range mids {
				switch r.Intn(4) {
				case 0:
					g.addSoon(at, pid())
				case 1:
					g.addFar(at, pid())
				default:
					g.rem(at, pid())
				}
			}
		}
		// ---- final snapshot, clear of every firing instant
		final := g.last + 425
		final = ((final-125+49)/50)*50 + 125
		if g.hasRec {
			if final < 1250 {
				final = 1250
			}
			if scen == 3 {
				final = 2450 // (the callback that starts at S+1900 sleeps 300 ms: 250 ms of slack on a loaded machine)
			}
			if scen == 6 {
				final = 4225
			}
			// keep clear of the whole seconds at S+900, S+1900, ...
			for (final+100)%1000 < 200 || (final+100)%1000 > 800 {
				final += 50
			}
		}
		g.op(final, map[string]interface{}{"op": "snap"})
		cases = append(cases, Case{"limit": limit, "pause_ms": int64(200), "script": g.script})
	}
	return cases
}

func maxi(a, b int64) int64 {
	if a > b {
		return a
	}
	return b
}

type cronFire struct {
	id string
	t  int64 // callback entered
	e  int64 // callback about to return (0 while it runs)
}

func execCron(cases []Case) []Case {
	var wg sync.WaitGroup
	sem := make(chan bool, 32)
	for _, c := range cases {
		wg.Add(1)
		sem <- true
		go func(c Case) {
			defer func() { <-sem; wg.Done() }()
			execCronCase(c)
		}(c)
	}
	wg.Wait()
	return cases
}

func execCronCase(c Case) {
	ctx := core.NewContext("rh")
	ctx.Verbosity = core.NOTHING
	pause := time.Duration(num(c["pause_ms"])) * time.Millisecond
	cr, err := cron.NewCron(cron.NewCronBroadcaster(), pause, "rh", int(num(c["limit"])))
	if err != nil {
		c["created"] = false
		return
	}
	c["created"] = true
	cr.Start(ctx)
	time.Sleep(20 * time.Millisecond)

	var mu sync.Mutex
	var log []cronFire
	callback := func(id string, slow time.Duration) func(time.Time) error {
		return func(time.Time) error {
			now := time.Now().UnixNano()
			mu.Lock()
			log = append(log, cronFire{id, now, 0})
			idx := len(log) - 1
			mu.Unlock()
			if slow > 0 {
				time.Sleep(slow)
			}
			mu.Lock()
			log[idx].e = time.Now().UnixNano()
			mu.Unlock()
			return nil
		}
	}

	// aligned start: wall-clock fraction 0.100
	now := time.Now()
	frac := int64(now.Nanosecond())
	wait := (100e6 - frac + 2e9) % 1e9
	if wait < 30e6 {
		wait += 1e9
	}
	start := now.Add(time.Duration(wait))
	c["start"] = start.UnixNano()

	for _, oi := range list(c["script"]) {
		o := obj(oi)
		at := start.Add(time.Duration(num(o["at"])) * time.Millisecond)
		if d := time.Until(at); d > 0 {
			time.Sleep(d)
		}
		switch str(o["op"]) {
		case "add":
			id := str(o["id"])
			var sched string
			slow := time.Duration(0)
			switch str(o["kind"]) {
			case "soon":
				due := start.Add(time.Duration(num(o["due"])) * time.Millisecond)
				sched = fmt.Sprintf("+%dns", int64(time.Until(due)))
			case "far":
				sched = fmt.Sprintf("+%dh%dm", num(o["hours"]), num(o["mins"]))
			default:
				sched = "* * * * * * *"
				slow = time.Duration(num(o["slow"])) * time.Millisecond
			}
			had := false
			cr.Lock()
			for _, j := range cr.Timeline {
				if j.Id == id {
					had = true
				}
			}
			cr.Unlock()
			o["had"] = had
			tb := time.Now().UnixNano()
			err := cr.Add(ctx, id, sched, callback(id, slow))
			ta := time.Now().UnixNano()
			o["tb"], o["ta"] = tb, ta
			if err == nil {
				o["err"] = ""
			} else {
				o["err"] = "limit"
			}
			o["next"] = nil
			cr.Lock()
			for _, j := range cr.Timeline {
				if j.Id == id {
					o["next"] = j.Next.UnixNano()
					break
				}
			}
			cr.Unlock()
		case "rem":
			tb := time.Now().UnixNano()
			found, _ := cr.Rem(ctx, str(o["id"]))
			ta := time.Now().UnixNano()
			o["tb"], o["ta"], o["found"] = tb, ta, found
		case "suspend", "resume", "pause":
			tb := time.Now().UnixNano()
			var err error
			switch str(o["op"]) {
			case "suspend":
				err = cr.Suspend(ctx)
			case "resume":
				err = cr.Resume(ctx)
			default:
				err = cr.Pause(ctx)
			}
			ta := time.Now().UnixNano()
			o["tb"], o["ta"], o["err"] = tb, ta, err != nil
		case "snap":
			tb := time.Now().UnixNano()
			cr.Lock()
			tl := make([]interface{}, 0, len(cr.Timeline))
			for _, j := range cr.Timeline {
				tl = append(tl, map[string]interface{}{"id": j.Id, "next": j.Next.UnixNano(), "rec": !j.Once()})
			}
			cr.Unlock()
			mu.Lock()
			fs := make([]interface{}, 0, len(log))
			for _, f := range log {
				fs = append(fs, map[string]interface{}{"id": f.id, "t": f.t, "e": f.e})
			}
			mu.Unlock()
			ta := time.Now().UnixNano()
			o["tb"], o["ta"], o["tl"], o["fires"] = tb, ta, tl, fs
		}
	}
	cr.Kill(ctx)
}
