package main

// Running one case in a child process (same binary, mode "exec" with
// RH_CHILD=1) under a time limit and a small maximum stack, so that a hang,
// a stack overflow or a fatal runtime error is an observation, not the end of
// the harness.

import (
	"bytes"
	"context"
	"encoding/json"
	"os"
	"os/exec"
	"runtime/debug"
	"time"
)

func init() {
	if os.Getenv("RH_CHILD") == "1" {
		debug.SetMaxStack(64 << 20)
	}
}

// runInChild executes c through `rh exec <domain>` in a child process and
// copies the child's observations into c.  On a crash or a timeout,
// onFail(c, "panic"|"hang") fills in the observation.
func runInChild(domain string, c Case, onFail func(c Case, kind string)) {
	in := map[string]interface{}{}
	for k, v := range c {
		if k != "child" && k != "__id" {
			in[k] = v
		}
	}
	js, _ := json.Marshal(map[string]interface{}{"domain": domain, "id": 0, "case": in})
	ctx, cancel := context.WithTimeout(context.Background(), 10*time.Second)
	defer cancel()
	cmd := exec.CommandContext(ctx, os.Args[0], "exec", domain)
	cmd.Env = append(os.Environ(), "RH_CHILD=1", "GOMAXPROCS=2")
	cmd.Stdin = bytes.NewReader(append(js, '\n'))
	var out, errb bytes.Buffer
	cmd.Stdout = &out
	cmd.Stderr = &errb
	err := cmd.Run()
	if ctx.Err() != nil {
		onFail(c, "hang")
		return
	}
	if err != nil {
		// what the runtime said when the child died (first "fatal error:" / "panic:" line)
		for _, line := range bytes.Split(errb.Bytes(), []byte("\n")) {
			if bytes.HasPrefix(line, []byte("fatal error:")) || bytes.HasPrefix(line, []byte("panic:")) ||
				bytes.HasPrefix(line, []byte("runtime: goroutine stack exceeds")) {
				c["crash_msg"] = string(line)
				break
			}
		}
		onFail(c, "panic")
		return
	}
	var env map[string]interface{}
	dec := json.NewDecoder(&out)
	dec.UseNumber()
	if dec.Decode(&env) != nil {
		onFail(c, "panic")
		return
	}
	for k, v := range obj(env["case"]) {
		c[k] = v
	}
}
