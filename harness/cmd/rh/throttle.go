package main

import (
	"errors"
	"math/rand"
	"sync"
	"sync/atomic"
	"time"

	"github.com/Comcast/rulio/core"
)

// Domain "throttle": scripted schedules of Submit / Disable on a real
// core.Throttle over a real OutboundBreaker (public constructors).
//
// Submissions are launched ONE AFTER ANOTHER, each from its own goroutine,
// with a settle delay after each launch: an overflow returns at once,
// anything else is in flight.  Every submitted function counts its own runs.
// Per submission the harness records the instant just before Submit was
// called (tb), the instant just after it returned (ta), what it returned and
// the run count; the instants only order exits against launches (the checker
// treats an exit within `margin` of a launch as "before or after").
//
// ops:
//   submit   {err, hold}   err: the function returns its own error;
//                          hold: the function blocks until released
//   release  {}            release the oldest held function, wait for its Submit to return
//   waitexit {n}           wait until n more in-flight submissions have returned
//   wait     {ns}
//   drain    {}            release everything, wait for every submission, read the pending counter
//   disable  {on}

func init() {
	register("throttle", &Domain{Gen: genThrottle, Exec: execThrottle})
}

const (
	thrMargin = int64(12e6) // an exit within this of a launch is unordered
	thrSettle = 32 * time.Millisecond
)

type thrGen struct {
	r        *rand.Rand
	ops      []interface{}
	P, L     int
	room     int // admissions the breaker still has (estimate)
	inflight int // submissions in flight (estimate)
}

func (g *thrGen) add(o map[string]interface{}) { g.ops = append(g.ops, o) }

func (g *thrGen) submit(hold bool) {
	if g.room > 0 {
		g.room--
		if hold {
			g.inflight++
		}
	} else if g.inflight <= g.P {
		g.inflight++
	}
	g.add(map[string]interface{}{"op": "submit", "err": g.r.Intn(3) == 0, "hold": hold})
}

// fillTo submits until (by the generator's estimate) n submissions are in flight.
func (g *thrGen) fillTo(n int, holdOdds int) {
	for k := 0; g.inflight < n && k < 10; k++ {
		g.submit(g.r.Intn(holdOdds) == 0)
	}
}

func (g *thrGen) more(n int) {
	for k := 0; k < n; k++ {
		g.submit(g.r.Intn(3) == 0)
	}
}

func (g *thrGen) drain() {
	g.add(map[string]interface{}{"op": "drain"})
	g.inflight = 0
}

func (g *thrGen) recover(interval int64) {
	g.add(map[string]interface{}{"op": "wait", "ns": interval + 60e6})
	g.room = g.L
}

func (g *thrGen) freeOne() {
	if g.r.Intn(2) == 0 {
		g.add(map[string]interface{}{"op": "release"})
	} else {
		g.add(map[string]interface{}{"op": "waitexit", "n": 1})
	}
	if g.inflight > 0 {
		g.inflight--
	}
}

func genThrottle(r *rand.Rand, n int, tier string) []Case {
	var cases []Case
	for i := 0; i < n; i++ {
		P := r.Intn(4)
		L := 1 + r.Intn(2)
		interval := []int64{400e6, 600e6, 800e6}[r.Intn(3)]
		pause := []int64{20e6, 35e6, 50e6}[r.Intn(3)]
		// how long a submission that never gets through keeps polling
		life := []int64{350e6, 500e6, 700e6, 1000e6}[r.Intn(4)]
		attempts := life / pause
		kind := i % 9
		holdOdds := 3
		switch {
		case i%17 == 11:
			// short-lived pollers: exhausted (almost) at once
			attempts = int64(r.Intn(3))
		case kind == 6 || i%17 == 3:
			// the breaker never refuses: only held functions stay in flight
			L = 50
			holdOdds = 1
		}
		g := &thrGen{r: r, P: P, L: L, room: L}
		switch kind {
		case 0: // stay under the limit
			g.fillTo(1+r.Intn(P+1), holdOdds)
			g.drain()
		case 1: // exactly at the limit, one more overflows
			g.fillTo(P+1, holdOdds)
			g.more(1)
			g.drain()
		case 2, 6: // several overflows in a row, then more submissions while the first are in flight
			g.fillTo(P+1, holdOdds)
			g.more(2 + r.Intn(3))
			g.more(1)
			if r.Intn(2) == 0 {
				g.freeOne()
				g.more(2)
			}
			g.drain()
		case 3: // drain and start over
			g.fillTo(P+1, holdOdds)
			g.more(r.Intn(3))
			g.drain()
			if r.Intn(3) != 0 {
				g.recover(interval)
			}
			g.fillTo(P+1, holdOdds)
			g.more(1 + r.Intn(2))
			g.drain()
		case 4: // the disabled throttle
			when := r.Intn(3)
			if when == 0 {
				g.add(map[string]interface{}{"op": "disable", "on": true})
			}
			g.fillTo(P+1, holdOdds)
			if when == 1 {
				g.add(map[string]interface{}{"op": "disable", "on": true})
			}
			g.more(1 + r.Intn(P+2))
			if when == 2 {
				g.add(map[string]interface{}{"op": "disable", "on": true})
				g.more(1 + r.Intn(2))
			}
			if r.Intn(2) == 0 {
				g.add(map[string]interface{}{"op": "disable", "on": false})
			}
			g.more(1)
			g.drain()
			g.recover(interval)
			g.fillTo(P+1, holdOdds)
			g.more(1)
			g.drain()
		case 5: // free one slot at a time
			g.fillTo(P+1, 2)
			g.more(1 + r.Intn(2))
			for k := 0; k < 1+r.Intn(2); k++ {
				g.freeOne()
				g.more(1 + r.Intn(2))
			}
			g.drain()
		case 7: // overflow run, drain, start over
			g.fillTo(P+1, holdOdds)
			g.more(2 + r.Intn(3))
			g.more(1)
			g.drain()
			g.recover(interval)
			g.fillTo(P+1, holdOdds)
			g.more(1)
			g.drain()
		default: // random
			nops := 8 + r.Intn(9)
			dis := r.Intn(4) == 0
			for k := 0; k < nops; k++ {
				switch x := r.Intn(20); {
				case x < 12:
					g.submit(r.Intn(holdOdds) == 0)
				case x < 14:
					g.add(map[string]interface{}{"op": "waitexit", "n": 1 + r.Intn(2)})
				case x < 16:
					g.add(map[string]interface{}{"op": "release"})
				case x < 17:
					g.add(map[string]interface{}{"op": "wait", "ns": int64(20e6) * int64(1+r.Intn(10))})
				case x < 19:
					g.drain()
				default:
					if dis {
						g.add(map[string]interface{}{"op": "disable", "on": r.Intn(3) != 0})
					} else {
						g.submit(false)
					}
				}
			}
			g.drain()
		}
		cases = append(cases, Case{
			"plimit": int64(P), "attempts": attempts, "pause": pause,
			"blimit": int64(L), "interval": interval, "margin": thrMargin,
			"ops": g.ops,
		})
	}
	return cases
}

type thrSub struct {
	o       map[string]interface{}
	tb, ta  int64
	result  string
	runs    int32
	hold    bool
	ferr    error
	release chan struct{}
	once    sync.Once
	done    chan struct{}
}

func (s *thrSub) free() { s.once.Do(func() { close(s.release) }) }

func (s *thrSub) isDone() bool {
	select {
	case <-s.done:
		return true
	default:
		return false
	}
}

func execThrottle(cases []Case) []Case {
	base := time.Now()
	since := func() int64 { return int64(time.Since(base)) + 1e9 }
	sem := make(chan bool, 80)
	var wg sync.WaitGroup
	for _, c := range cases {
		wg.Add(1)
		sem <- true
		go func(c Case) {
			defer func() { <-sem; wg.Done() }()
			br, err := core.NewOutboundBreaker(num(c["blimit"]), time.Duration(num(c["interval"])))
			if err != nil {
				c["created"] = false
				return
			}
			th, err := core.NewThrottle(int(num(c["attempts"])), int(num(c["plimit"])), time.Duration(num(c["pause"])), br)
			c["created"] = err == nil
			if err != nil {
				return
			}
			var subs []*thrSub
			waitAll := func(ss []*thrSub, limit time.Duration) {
				deadline := time.After(limit)
				for _, s := range ss {
					select {
					case <-s.done:
					case <-deadline:
						return
					}
				}
			}
			for _, oi := range list(c["ops"]) {
				o := obj(oi)
				switch str(o["op"]) {
				case "submit":
					s := &thrSub{o: o, hold: boolean(o["hold"]), release: make(chan struct{}), done: make(chan struct{})}
					if boolean(o["err"]) {
						s.ferr = errors.New("the function's own error")
					}
					subs = append(subs, s)
					started := make(chan struct{})
					go func() {
						f := func() error {
							atomic.AddInt32(&s.runs, 1)
							if s.hold {
								select {
								case <-s.release:
								case <-time.After(6 * time.Second):
								}
							}
							return s.ferr
						}
						s.tb = since()
						close(started)
						err := th.Submit(f)
						s.ta = since()
						switch {
						case err == nil:
							s.result = "nil"
						case err == core.ThrottleOverflow:
							s.result = "overflow"
						case err == core.ThrottleExhausted:
							s.result = "exhausted"
						case err == s.ferr:
							s.result = "ferr"
						default:
							s.result = "other"
						}
						close(s.done)
					}()
					<-started
					time.Sleep(thrSettle)
				case "release":
					for _, s := range subs {
						released := false
						select {
						case <-s.release:
							released = true
						default:
						}
						if s.hold && !released && !s.isDone() {
							s.free()
							waitAll([]*thrSub{s}, 4*time.Second)
							break
						}
					}
					time.Sleep(thrSettle)
				case "waitexit":
					var flying []*thrSub
					for _, s := range subs {
						if !s.isDone() {
							flying = append(flying, s)
						}
					}
					want := int(num(o["n"]))
					if want > len(flying) {
						want = len(flying)
					}
					deadline := time.Now().Add(4 * time.Second)
					for time.Now().Before(deadline) {
						got := 0
						for _, s := range flying {
							if s.isDone() {
								got++
							}
						}
						if got >= want {
							break
						}
						time.Sleep(2 * time.Millisecond)
					}
					time.Sleep(thrSettle)
				case "wait":
					time.Sleep(time.Duration(num(o["ns"])))
				case "drain":
					for _, s := range subs {
						s.free()
					}
					waitAll(subs, 6*time.Second)
					time.Sleep(thrSettle)
					o["pending"] = int64(th.VerifPending())
				case "disable":
					th.Disable(boolean(o["on"]))
				}
			}
			for _, s := range subs {
				s.free()
			}
			waitAll(subs, 6*time.Second)
			time.Sleep(thrSettle) // a late second run would show here
			end := since()
			for _, s := range subs {
				if s.isDone() {
					s.o["tb"], s.o["ta"], s.o["result"] = s.tb, s.ta, s.result
				} else {
					s.o["tb"], s.o["ta"], s.o["result"] = s.tb, end+int64(time.Hour), "stuck"
				}
				s.o["runs"] = int64(atomic.LoadInt32(&s.runs))
			}
			c["pending_end"] = int64(th.VerifPending())
		}(c)
	}
	wg.Wait()
	return cases
}
