package main

import (
	"math/rand"
	"os"
	"sync"
	"sync/atomic"
	"time"

	"github.com/Comcast/rulio/core"
)

// Domain "conc-steer" (C12): deterministic interleavings of the REAL code at the
// granularity of its log records.  Client 0 runs ONE operation A with every log
// record enabled; its Context.LogHook blocks at the k-th record ("pause_at": k)
// until client 1 has run its operations B to completion - or has been found
// blocked for 150 ms (it waits for a lock A holds): then A is released and both
// finish.  Over the cases k sweeps all the records of A, i.e. every point between
// two lock acquisitions, memory updates and storage calls of A.  The history
// (invocation/response instants, results, final memory and storage) is judged by
// the linearizability oracle of conc-one.  A pair that never finishes is a hang.

func init() {
	register("conc-steer", &Domain{Gen: genSteer, Exec: execSteer})
}

func genSteer(r *rand.Rand, n int, tier string) []Case {
	var cases []Case
	ids := []string{"i0", "i1"}
	vals := []interface{}{"x", "y"}
	for i := 0; i < n; i++ {
		kind := pick(r, "indexed", "linear").(string)
		fact := func() map[string]interface{} {
			return map[string]interface{}{"k": vals[r.Intn(len(vals))], "n": float64(r.Intn(3))}
		}
		rule := func() map[string]interface{} {
			ru := rulePat(map[string]interface{}{"k": pick(r, "?v", "x", "y")})
			if r.Intn(4) == 0 {
				ru["expires"] = 4102444800.0
			}
			return ru
		}
		mk := func(kinds ...string) map[string]interface{} {
			id := ids[r.Intn(len(ids))]
			o := map[string]interface{}{"loc": "L0"}
			switch kinds[r.Intn(len(kinds))] {
			case "addfact":
				o["op"], o["id"], o["fact"] = "addfact", id, fact()
			case "remfact":
				o["op"], o["id"] = "remfact", id
			case "getfact":
				o["op"], o["id"] = "getfact", pick(r, id, "r"+id)
			case "search":
				o["op"], o["inherited"] = "search", false
				o["pattern"] = map[string]interface{}{"k": pick(r, "?v", "x", "y")}
			case "addrule":
				o["op"], o["id"], o["rule"] = "addrule", "r"+id, rule()
			case "remrule":
				o["op"], o["id"] = "remrule", "r"+id
			default:
				o["op"] = "event"
				o["event"] = map[string]interface{}{"k": vals[r.Intn(len(vals))]}
			}
			return o
		}
		var setup []interface{}
		for j := 0; j < 1+r.Intn(3); j++ {
			setup = append(setup, mk("addfact", "addrule", "addrule"))
		}
		a := mk("addfact", "remfact", "addrule", "addrule", "remrule", "event", "event", "search", "getfact")
		var bs []interface{}
		for j := 0; j < 1+r.Intn(2); j++ {
			bs = append(bs, mk("addfact", "remfact", "addrule", "remrule", "event", "event", "search", "getfact"))
		}
		if r.Intn(8) == 0 {
			// an item that has expired, unread, when the pair starts: the steered reader meets it (notes
			// its id, purges after releasing its lock) while the other client writes a NEW item under
			// that id - the purge must not take the new item for the expired one
			what := pick(r, "fact", "rule").(string)
			if what == "fact" {
				setup = []interface{}{map[string]interface{}{"loc": "L0", "op": "addfact", "id": "i0", "expires_in": 2.0, "fact": fact()}}
				a = pick(r, map[string]interface{}{"loc": "L0", "op": "getfact", "id": "i0"},
					map[string]interface{}{"loc": "L0", "op": "search", "inherited": false, "pattern": map[string]interface{}{"k": "?v"}}).(map[string]interface{})
				bs = []interface{}{map[string]interface{}{"loc": "L0", "op": "addfact", "id": "i0", "fact": fact()},
					map[string]interface{}{"loc": "L0", "op": "getfact", "id": "i0"}}
			} else {
				setup = []interface{}{map[string]interface{}{"loc": "L0", "op": "addrule", "id": "ri0", "expires_in": 2.0, "rule": rulePat(map[string]interface{}{"k": "?v"})}}
				a = map[string]interface{}{"loc": "L0", "op": "event", "event": map[string]interface{}{"k": "x"}}
				bs = []interface{}{map[string]interface{}{"loc": "L0", "op": "addrule", "id": "ri0", "rule": rulePat(map[string]interface{}{"k": "?v"})},
					map[string]interface{}{"loc": "L0", "op": "getfact", "id": "ri0"}}
			}
		}
		cases = append(cases, Case{"locs": []interface{}{map[string]interface{}{"name": "L0", "kind": kind}},
			"setup": setup, "clients": []interface{}{[]interface{}{a}, bs},
			"ids": []interface{}{"i0", "i1", "ri0", "ri1"}, "separate": false, "child": true,
			"pause_at": r.Intn(60)})
	}
	return cases
}

func execSteer(cases []Case) []Case {
	if os.Getenv("RH_CHILD") == "1" {
		for _, c := range cases {
			execSteerCase(c)
		}
		return cases
	}
	sem := make(chan bool, 14)
	var wg sync.WaitGroup
	for _, c := range cases {
		wg.Add(1)
		sem <- true
		go func(c Case) {
			defer func() { <-sem; wg.Done() }()
			runInChild("conc-steer", c, func(c Case, kind string) { c["crashed"] = kind })
		}(c)
	}
	wg.Wait()
	return cases
}

func execSteerCase(c Case) {
	core.DefaultLogger = core.BenchLogger // every log record is enabled for the steered operation: discard them
	w := &locWorld{stores: map[string]core.Storage{}, kinds: map[string]string{}, maxes: map[string]int{},
		fails: map[string]*failStorage{}, cronners: map[string]*recCronner{},
		provider: core.NewSimpleLocationProvider(map[string]*core.Location{})}
	for _, li := range list(c["locs"]) {
		l := obj(li)
		st, _ := core.NewMemStorage(nil)
		w.stores[str(l["name"])] = st
		w.kinds[str(l["name"])] = str(l["kind"])
		if err := w.open(str(l["name"])); err != nil {
			c["setup_error"] = err.Error()
			return
		}
	}
	var wait time.Time
	for _, oi := range list(c["setup"]) {
		o := obj(oi)
		if in, timed := o["expires_in"]; timed {
			// an absolute expiry (whole seconds), stamped now so that the model sees the same value
			at := float64(time.Now().Unix() + num(in))
			delete(o, "expires_in")
			key := "fact"
			if _, isRule := o["rule"]; isRule {
				key = "rule"
			}
			obj(o[key])["expires"] = at
			if t := time.Unix(int64(at), 0).Add(1150 * time.Millisecond); t.After(wait) {
				wait = t
			}
		}
		execLocOp(w, o)
	}
	if !wait.IsZero() {
		time.Sleep(time.Until(wait)) // (well past the expiry instant: nothing is near a second boundary)
	}
	clients := list(c["clients"])
	a := obj(list(clients[0])[0])
	bs := list(clients[1])
	k := int32(num(c["pause_at"]))
	var records int32
	paused, release := make(chan bool), make(chan bool)
	var pauseOnce, releaseOnce sync.Once
	a["steered"] = true
	w.ctxHook = func(ctx *core.Context, o map[string]interface{}) {
		if !boolean(o["steered"]) {
			return
		}
		ctx.Verbosity = core.EVERYTHING
		ctx.Logger = core.BenchLogger
		ctx.LogAccumulatorLevel = core.NOTHING
		ctx.LogHook = func(level core.LogLevel, args ...interface{}) {
			if atomic.AddInt32(&records, 1)-1 == k {
				pauseOnce.Do(func() { close(paused) })
				<-release
			}
		}
	}
	start := time.Now()
	doneA, doneB := make(chan bool), make(chan bool)
	go func() {
		a["inv"] = time.Since(start).Nanoseconds()
		execLocOp(w, a)
		a["ret"] = time.Since(start).Nanoseconds()
		close(doneA)
	}()
	wasPaused := false
	select {
	case <-paused:
		wasPaused = true
	case <-doneA:
	case <-time.After(4 * time.Second):
		c["crashed"] = "hang"
		return
	}
	go func() {
		for _, bi := range bs {
			b := obj(bi)
			b["inv"] = time.Since(start).Nanoseconds()
			execLocOp(w, b)
			b["ret"] = time.Since(start).Nanoseconds()
		}
		close(doneB)
	}()
	blocked := false
	select {
	case <-doneB:
	case <-time.After(150 * time.Millisecond):
		blocked = true // B waits for something A holds
	}
	releaseOnce.Do(func() { close(release) })
	for _, ch := range []chan bool{doneA, doneB} {
		select {
		case <-ch:
		case <-time.After(4 * time.Second):
			c["crashed"] = "hang"
			return
		}
	}
	delete(a, "steered")
	w.ctxHook = nil
	c["paused"], c["b_blocked"], c["records"] = wasPaused, blocked, float64(atomic.LoadInt32(&records))
	observe := func() []interface{} {
		var out []interface{}
		for _, id := range list(c["ids"]) {
			o := map[string]interface{}{"loc": "L0", "op": "getfact", "id": str(id)}
			execLocOp(w, o)
			out = append(out, o)
		}
		o := map[string]interface{}{"loc": "L0", "op": "size"}
		execLocOp(w, o)
		out = append(out, o)
		// what a dispatch sees at the end (the parsed-rule cache must agree with the stored rules)
		for _, v := range []string{"x", "y"} {
			e := map[string]interface{}{"loc": "L0", "op": "event", "event": map[string]interface{}{"k": v}}
			execLocOp(w, e)
			out = append(out, e)
		}
		return out
	}
	c["final"] = observe()
	w.open("L0")
	c["final_store"] = observe()
}
