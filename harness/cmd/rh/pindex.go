package main

import (
	"fmt"
	"math/rand"
	"sort"

	"github.com/Comcast/rulio/core"
)

// Domain "pindex": the real PatternIndex on a sequence of add/rem of
// patterns and one search, plus what the real matcher says about every
// pattern against the event.

func init() {
	register("pindex", &Domain{Gen: genPindex, Exec: execPindex})
}

func genPindex(r *rand.Rand, n int, tier string) []Case {
	var cases []Case
	for i := 0; i < n; i++ {
		g := newG(r)
		ev := g.event()
		var ops []interface{}
		k := 1 + r.Intn(4)
		for j := 0; j < k; j++ {
			src := ev
			if r.Intn(4) == 0 {
				src = g.event()
			}
			pg := &patGen{g: g, vars: []string{"?x", "?y", "?z"}, pRepeat: 0.1, pVar: 0.3, pDrop: 0.4, arrayVar: true}
			p, _ := pg.derive(src, true).(map[string]interface{})
			if p == nil {
				p = map[string]interface{}{}
			}
			if r.Intn(6) == 0 {
				p, _ = g.mutate(p).(map[string]interface{})
			}
			if r.Intn(30) == 0 {
				p = map[string]interface{}{"?p": g.scalar()}
			}
			id := fmt.Sprintf("p%d", j)
			if r.Intn(6) == 0 {
				id = fmt.Sprintf("p%d", r.Intn(4)) // sometimes reuse an id (compared with the model only)
			}
			ops = append(ops, map[string]interface{}{"op": "add", "id": id, "p": p})
			if r.Intn(4) == 0 {
				// remove it again (or another pattern under the same id)
				ops = append(ops, map[string]interface{}{"op": "rem", "id": id, "p": p})
			}
		}
		if r.Intn(8) == 0 {
			ev = g.mutate(ev).(map[string]interface{})
		}
		cases = append(cases, Case{"ops": ops, "event": ev})
	}
	return cases
}

func execPindex(cases []Case) []Case {
	for _, c := range cases {
		ctx := core.NewContext("rh")
		ctx.Verbosity = core.NOTHING
		idx := core.NewPatternIndex()
		ev := plain(c["event"]).(map[string]interface{})
		func() {
			defer func() {
				if x := recover(); x != nil {
					c["res"] = map[string]interface{}{"ok": false, "class": "panic", "msg": fmt.Sprint(x)}
				}
			}()
			for _, oi := range list(c["ops"]) {
				o := obj(oi)
				p := plain(o["p"]).(map[string]interface{})
				var err error
				if str(o["op"]) == "add" {
					err = idx.AddPatternMap(ctx, p, str(o["id"]))
				} else {
					err = idx.RemPatternMap(ctx, p, str(o["id"]))
				}
				o["ok"] = err == nil
				// what the real matcher says (on copies: the index sorts arrays in place)
				bss, merr := core.Matches(ctx, deepCopy(o["p"]), deepCopy(c["event"]))
				o["matches"] = merr == nil && len(bss) > 0
			}
			ids, err := idx.SearchPatternsMap(ctx, ev)
			if err != nil {
				c["res"] = map[string]interface{}{"ok": false, "class": "other", "msg": err.Error()}
			} else {
				out := []string{}
				for id := range ids {
					out = append(out, id)
				}
				sort.Strings(out)
				l := []interface{}{}
				for _, s := range out {
					l = append(l, s)
				}
				c["res"] = map[string]interface{}{"ok": true, "ids": l}
			}
		}()
	}
	return cases
}
