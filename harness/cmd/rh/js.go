package main

// Domain "js" (property C14: script execution is contained).
//
// One case = one script of a family (value template, throw, syntax error,
// polling endless loop, never-polling endless loop, slow-but-finishing busy
// loop), one timeout setting (location control / system default / disabled),
// one position (direct core.RunJavascript, Location.RunJavascript, code term
// of Location.Query, condition of a rule, action of a rule).
//
// A hang is an observation: every case runs in a child process (re-exec of
// rh with RH_CHILD=1).  The child runs the call in a goroutine and waits for
// it until kill_after; the parent kills a child that is still there 3 s
// later.  Recorded: returned / crashed, error class, value, wall time of the
// call.  A probe case (polling loop, 100 ms limit) tells which variant of
// RunJavascript the tree has (as it is: the caller hangs; repaired: a
// time-out error; buffer only: (nil, nil)); every case carries that as
// "tree".

import (
	"bytes"
	"context"
	"encoding/json"
	"fmt"
	"math/rand"
	"os"
	"os/exec"
	"strings"
	"sync"
	"time"

	"github.com/Comcast/rulio/core"
)

func init() {
	register("js", &Domain{Gen: genJs, Exec: execJs})
}

const jsSlowMark = "__N__"

// echoXYZW: the variables a script sees ("__unbound" for the others).
func (t *tplGen) echoXYZW() string {
	names := []string{"x", "y", "z", "w"}
	fields := map[string]interface{}{}
	var parts []string
	for _, n := range names {
		fields[n] = map[string]interface{}{"t": "opt", "x": n}
		parts = append(parts, fmt.Sprintf(`%s: (typeof %s === "undefined" ? "__unbound" : %s)`, jsLit(n), n, n))
	}
	js := "({" + strings.Join(parts, ", ") + "})"
	t.sem[js] = map[string]interface{}{"t": "obj", "f": fields}
	return js
}

func genJs(r *rand.Rand, n int, tier string) []Case {
	var cases []Case
	positions := []string{"direct", "locrun", "query", "condition", "action", "direct-noloc"}
	for i := 0; i < n; i++ {
		sem := map[string]interface{}{}
		tpl := &tplGen{r: r, vars: []string{"x", "y", "z"}, bound: []string{"x", "y"}, sem: sem}
		c := Case{}
		// bindings: x and y always, z sometimes
		scal := func() interface{} { return pick(r, "x", "y", "10", "A", 0.0, 1.0, 2.0, 10.0, true, false) }
		bs := map[string]interface{}{"?x": scal(), "?y": scal()}
		pos := positions[(i+r.Intn(2))%len(positions)]
		if r.Intn(3) == 0 && (pos == "direct" || pos == "locrun" || pos == "direct-noloc") {
			bs["?z"] = scal()
		}
		c["bs"] = bs
		c["pos"] = pos

		// timeout setting
		lim := int64(150+10*r.Intn(16)) * 1e6 // 150..300 ms
		set := map[string]interface{}{"on": true, "control": int64(0), "sysdefault": int64(60e9)}
		kind := []string{"control", "control", "default", "default", "off", "neg-control", "neg-default", "control-neg-default"}[(i/2+r.Intn(2))%8]
		if pos == "direct-noloc" && (kind == "control" || kind == "control-neg-default") {
			kind = "noloc-control-ignored" // without a location the control is not consulted
		}
		switch kind {
		case "control":
			set["control"] = lim
		case "default":
			set["sysdefault"] = lim
		case "off":
			set["on"] = false
			set["control"] = lim
		case "neg-control":
			set["control"] = int64(-1)
			set["sysdefault"] = lim
		case "neg-default":
			set["sysdefault"] = int64(-1 - r.Intn(5))
		case "control-neg-default":
			set["control"] = lim
			set["sysdefault"] = int64(-1)
		case "noloc-control-ignored":
			set["control"] = int64(20e6) // would be 20 ms if it were used
			set["sysdefault"] = lim
		}
		set["kind"] = kind
		c["setting"] = set
		c["nominal"] = lim // what the harness uses for its own patience and for calibration

		// script
		var js string
		switch k := (i + r.Intn(3)) % 9; k {
		case 0:
			switch r.Intn(3) {
			case 0:
				js = `throw "boom"`
				sem[js] = map[string]interface{}{"t": "throw"}
			case 1:
				// the result owns a getter: exporting the result runs JavaScript again (still under the limit)
				js = `({get a() { return "x" }, b: 1})`
				sem[js] = map[string]interface{}{"t": "obj", "f": map[string]interface{}{
					"a": map[string]interface{}{"t": "const", "v": "x"}, "b": map[string]interface{}{"t": "const", "v": 1.0}}}
			default:
				// ... and a getter that never returns is a script that never returns
				js = `({get a() { var i = 0; while (true) { i = i + 1 } }, b: 1})`
				sem[js] = map[string]interface{}{"t": "loop", "polls": true}
			}
		case 1:
			js = `(`
			sem[js] = map[string]interface{}{"t": "syntax"}
		case 2:
			// (the time-out is not a JavaScript exception: a script cannot catch it)
			js = pick(r, `var i = 0; while (true) { i = i + 1 }`,
				`var i = 0; try { while (true) { i = i + 1 } } catch (e) { i = -1 }; "caught"`,
				`var i = 0; while (true) { try { while (true) { i = i + 1 } } catch (e) { i = 0 } }`,
				`var i = 0; function w() { while (true) { i = i + 1 } }; for (;;) { try { w() } catch (e) { i = 0 } }`).(string)
			sem[js] = map[string]interface{}{"t": "loop", "polls": true}
		case 3:
			js = `for (;;) {}`
			sem[js] = map[string]interface{}{"t": "loop", "polls": false}
		case 4:
			ejs, ed := tpl.expr(1)
			switch r.Intn(3) {
			case 0:
				// busy for 2.5 limits (calibrated loop)
				js = "var i = 0; while (i < " + jsSlowMark + ") { i = i + 1 }; (" + ejs + ")"
			case 1:
				// asleep in ONE Env.sleep call when the limit expires, evaluates something afterwards
				js = fmt.Sprintf("Env.sleep(%d); (%s)", lim*5/2, ejs)
			default:
				// polls: 50 short Env.sleep calls of limit/20 each
				js = fmt.Sprintf("var i = 0; while (i < 50) { Env.sleep(%d); i = i + 1 }; (%s)", lim/20, ejs)
			}
			sem[js] = map[string]interface{}{"t": "sleep", "ms": float64(lim/1e6) * 2.5, "e": ed}
		case 5:
			js = tpl.echoXYZW()
		default:
			var d map[string]interface{}
			js, d = tpl.expr(1)
			sem[js] = d
		}
		c["script"] = js
		if pos == "condition" {
			c["echo"] = tpl.echoXYZW()
		}
		c["sem"] = sem
		cases = append(cases, c)
	}
	return cases
}

// ---------------------------------------------------------------- exec

func jsErrClass(msg string) string {
	switch {
	case msg == "":
		return ""
	case strings.Contains(msg, "timed out"), strings.Contains(msg, "timeout"), strings.Contains(msg, "halt"):
		return "timeout"
	case strings.Contains(msg, "boom"):
		return "thrown"
	case strings.Contains(msg, "ReferenceError"):
		return "reference"
	case strings.Contains(msg, "Unexpected"), strings.Contains(msg, "SyntaxError"):
		return "syntax"
	}
	return "other"
}

func stripQ(bs map[string]interface{}) core.Bindings {
	out := core.Bindings{}
	for k, v := range bs {
		out[strings.TrimPrefix(k, "?")] = v
	}
	return out
}

type jsObs struct {
	msg  string
	val  interface{}
	wall time.Duration
}

// jsCalibrate: iterations per nanosecond of the busy loop in a watched run.
func jsCalibrate() float64 {
	ctx := core.NewContext("rh")
	ctx.Verbosity = core.NOTHING
	saveOn, saveD := core.SystemParameters.JavascriptTimeouts, core.SystemParameters.DefaultJavascriptTimeout
	core.SystemParameters.JavascriptTimeouts = true
	core.SystemParameters.DefaultJavascriptTimeout = 60 * time.Second
	defer func() {
		core.SystemParameters.JavascriptTimeouts, core.SystemParameters.DefaultJavascriptTimeout = saveOn, saveD
	}()
	best := 0.0
	for k := 0; k < 3; k++ {
		const iters = 30000
		t0 := time.Now()
		core.RunJavascript(ctx, nil, nil, fmt.Sprintf("var i = 0; while (i < %d) { i = i + 1 }; i", iters))
		if d := time.Since(t0); d > 0 {
			if rate := float64(iters) / float64(d); rate > best {
				best = rate
			}
		}
	}
	return best
}

// execJsOne runs one case in this process (the child).
func execJsOne(c Case) {
	set := obj(c["setting"])
	nominal := time.Duration(num(c["nominal"]))
	script := str(c["script"])
	if strings.Contains(script, jsSlowMark) {
		rate := jsCalibrate()
		iters := int64(rate * 2.5 * float64(nominal))
		if iters < 1000 {
			iters = 1000
		}
		c["iters"] = iters
		script = strings.Replace(script, jsSlowMark, fmt.Sprint(iters), 1)
	}
	core.SystemParameters.JavascriptTimeouts = boolean(set["on"])
	core.SystemParameters.DefaultJavascriptTimeout = time.Duration(num(set["sysdefault"]))

	ctx := core.NewContext("rh")
	ctx.Verbosity = core.NOTHING
	store, _ := core.NewMemStorage(nil)
	state, err := core.NewIndexedState(ctx, "js", store)
	if err != nil {
		c["setup_error"] = err.Error()
		return
	}
	ctrl := core.DefaultControl()
	ctrl.JavascriptTimeout = core.Duration(num(set["control"]))
	loc, err := core.NewLocation(ctx, "js", state, ctrl)
	if err != nil {
		c["setup_error"] = err.Error()
		return
	}
	loc.SetControl(ctrl)
	bs, _ := plain(c["bs"]).(map[string]interface{})
	pos := str(c["pos"])

	// the fact / event / pattern that produce the bindings in the
	// query, condition and action positions
	data := map[string]interface{}{"tag": "js"}
	pat := map[string]interface{}{"tag": "js"}
	for k, v := range bs {
		name := strings.TrimPrefix(k, "?")
		data[name] = v
		pat[name] = k
	}

	var call func() jsObs
	walk := func(rule map[string]interface{}, cond bool) func() jsObs {
		if _, err := loc.AddRule(ctx, "r1", core.Map(rule)); err != nil {
			// a rule whose script does not compile is refused when it is
			// written: that is the observation
			c["at_addrule"] = true
			return func() jsObs { return jsObs{msg: err.Error()} }
		}
		return func() jsObs {
			t0 := time.Now()
			fr, cnd := loc.ProcessEvent(ctx, core.Map(deepCopy(data).(map[string]interface{})))
			wall := time.Since(t0)
			if fr == nil || fr.Disposition != core.Complete || len(fr.Children) != 1 || len(fr.Children[0].Children) != 1 {
				msg := "no rule evaluated"
				if cnd != nil {
					msg = msg + ": " + cnd.Msg
				}
				return jsObs{msg: "setup: " + msg, wall: wall}
			}
			erc := fr.Children[0].Children[0]
			if cond {
				if erc.Disposition != core.Complete {
					msg := "condition node without disposition"
					if erc.Disposition != nil {
						msg = erc.Disposition.Msg
					}
					return jsObs{msg: msg, wall: wall}
				}
				out := map[string]interface{}{"kept": len(erc.Children) > 0}
				if len(erc.Children) > 0 && erc.Children[0].Disposition == core.Complete {
					out["echo"] = normValue(erc.Children[0].Value)
				}
				return jsObs{val: out, wall: wall}
			}
			if len(erc.Children) != 1 {
				return jsObs{msg: "setup: no action node", wall: wall}
			}
			era := erc.Children[0]
			if era.Disposition != core.Complete {
				msg := "action node without disposition"
				if era.Disposition != nil {
					msg = era.Disposition.Msg
				}
				return jsObs{msg: msg, wall: wall}
			}
			return jsObs{val: normValue(era.Value), wall: wall}
		}
	}
	switch pos {
	case "direct", "direct-noloc":
		rctx := ctx // NewLocation has bound ctx to the location
		if pos == "direct-noloc" {
			rctx = core.NewContext("rh")
			rctx.Verbosity = core.NOTHING
		}
		b := stripQ(bs)
		call = func() jsObs {
			t0 := time.Now()
			x, err := core.RunJavascript(rctx, &b, nil, script)
			o := jsObs{val: normValue(x), wall: time.Since(t0)}
			if err != nil {
				o.msg = err.Error()
			}
			return o
		}
	case "locrun":
		b := stripQ(bs)
		call = func() jsObs {
			t0 := time.Now()
			x, err := loc.RunJavascript(ctx, script, nil, &b, nil)
			o := jsObs{val: normValue(x), wall: time.Since(t0)}
			if err != nil {
				o.msg = err.Error()
			}
			return o
		}
	case "query":
		if _, err := loc.AddFact(ctx, "f1", core.Map(deepCopy(data).(map[string]interface{}))); err != nil {
			c["setup_error"] = err.Error()
			return
		}
		q, _ := json.Marshal(map[string]interface{}{"and": []interface{}{
			map[string]interface{}{"pattern": pat},
			map[string]interface{}{"code": script}}})
		call = func() jsObs {
			t0 := time.Now()
			qr, err := loc.Query(ctx, string(q))
			o := jsObs{wall: time.Since(t0)}
			if err != nil {
				o.msg = err.Error()
			} else {
				var l []interface{}
				for _, b := range qr.Bss {
					l = append(l, normValue(map[string]interface{}(b)))
				}
				if l == nil {
					l = []interface{}{}
				}
				o.val = l
			}
			return o
		}
	case "condition":
		call = walk(map[string]interface{}{
			"when":      map[string]interface{}{"pattern": pat},
			"condition": map[string]interface{}{"code": script},
			"action":    map[string]interface{}{"code": str(c["echo"])}}, true)
	case "action":
		call = walk(map[string]interface{}{
			"when":   map[string]interface{}{"pattern": pat},
			"action": map[string]interface{}{"code": script}}, false)
	default:
		c["setup_error"] = "unknown position " + pos
		return
	}

	done := make(chan jsObs, 1)
	crashed := make(chan string, 1)
	t0 := time.Now()
	go func() {
		defer func() {
			if p := recover(); p != nil {
				crashed <- fmt.Sprint(p)
			}
		}()
		done <- call()
	}()
	patience := nominal + 2*time.Second
	select {
	case o := <-done:
		c["returned"] = true
		c["crashed"] = false
		c["msg"] = o.msg
		c["err"] = jsErrClass(o.msg)
		if strings.HasPrefix(o.msg, "setup: ") {
			c["setup_error"] = o.msg
		}
		c["val"] = o.val
		c["wall"] = int64(o.wall)
	case p := <-crashed:
		c["returned"] = false
		c["crashed"] = true
		c["msg"] = p
		c["err"] = ""
		c["val"] = nil
		c["wall"] = int64(time.Since(t0))
	case <-time.After(patience):
		c["returned"] = false
		c["crashed"] = false
		c["msg"] = ""
		c["err"] = ""
		c["val"] = nil
		c["wall"] = int64(time.Since(t0))
	}
}

// jsChild runs c in a child process; a child that does not answer in time
// is killed and counts as a hang, one that dies as a crash.
func jsChild(c Case) {
	in := map[string]interface{}{}
	for k, v := range c {
		if k != "__id" {
			in[k] = v
		}
	}
	js, _ := json.Marshal(map[string]interface{}{"domain": "js", "id": 0, "case": in})
	nominal := time.Duration(num(c["nominal"]))
	ctx, cancel := context.WithTimeout(context.Background(), nominal+6*time.Second)
	defer cancel()
	cmd := exec.CommandContext(ctx, os.Args[0], "exec", "js")
	cmd.Env = append(os.Environ(), "RH_CHILD=1", "GOMAXPROCS=2")
	cmd.Stdin = bytes.NewReader(append(js, '\n'))
	var out bytes.Buffer
	cmd.Stdout = &out
	t0 := time.Now()
	err := cmd.Run()
	fail := func(returned, crashed bool, msg string) {
		c["returned"], c["crashed"], c["msg"], c["err"], c["val"] = returned, crashed, msg, "", nil
		c["wall"] = int64(time.Since(t0))
	}
	if ctx.Err() != nil {
		fail(false, false, "child killed")
		return
	}
	if err != nil {
		fail(false, true, "child died: "+err.Error())
		return
	}
	var env map[string]interface{}
	dec := json.NewDecoder(&out)
	dec.UseNumber()
	if dec.Decode(&env) != nil {
		fail(false, true, "child wrote no result")
		return
	}
	for k, v := range obj(env["case"]) {
		c[k] = v
	}
}

// jsProbe: which RunJavascript does the tree have?
func jsProbe() map[string]interface{} {
	js := `var i = 0; while (true) { i = i + 1 }`
	c := Case{"bs": map[string]interface{}{}, "pos": "direct", "script": js, "nominal": int64(100e6),
		"setting": map[string]interface{}{"on": true, "control": int64(100e6), "sysdefault": int64(60e9), "kind": "control"},
		"sem":     map[string]interface{}{js: map[string]interface{}{"t": "loop", "polls": true}}}
	jsChild(c)
	switch {
	case !boolean(c["returned"]):
		return map[string]interface{}{"cap": int64(0), "named": false, "probe": "hang"}
	case str(c["err"]) == "timeout":
		return map[string]interface{}{"cap": int64(1), "named": true, "probe": "timeout-error"}
	case str(c["err"]) == "" && c["val"] == nil:
		return map[string]interface{}{"cap": int64(1), "named": false, "probe": "nilnil"}
	}
	return map[string]interface{}{"cap": int64(1), "named": true, "probe": "unexpected: " + str(c["msg"])}
}

func execJs(cases []Case) []Case {
	if os.Getenv("RH_CHILD") == "1" {
		for _, c := range cases {
			execJsOne(c)
		}
		return cases
	}
	var wg sync.WaitGroup
	var tree map[string]interface{}
	wg.Add(1)
	go func() { defer wg.Done(); tree = jsProbe() }()
	sem := make(chan bool, 12)
	for _, c := range cases {
		wg.Add(1)
		sem <- true
		go func(c Case) {
			defer func() { <-sem; wg.Done() }()
			jsChild(c)
		}(c)
	}
	wg.Wait()
	for _, c := range cases {
		c["tree"] = tree
	}
	return cases
}
