package main

// Shared random generators of JSON values, patterns derived from data, and
// deep-copy / comparison helpers.

import (
	"encoding/json"
	"fmt"
	"math/rand"
	"reflect"
	"sort"
)

type G struct {
	r *rand.Rand
	// Vocabulary
	Keys    []string
	Strs    []string
	Nums    []float64
	VarData bool // allow "?"-strings in data (malformed stream)
}

func newG(r *rand.Rand) *G {
	return &G{r: r,
		Keys: []string{"a", "b", "c", "d", "k"},
		Strs: []string{"x", "y", "z", "10", "#1", "A"},
		Nums: []float64{0, 1, 2, 10, -3},
	}
}

func (g *G) scalar() interface{} {
	switch g.r.Intn(10) {
	case 0:
		return nil
	case 1:
		return g.r.Intn(2) == 0
	case 2, 3, 4:
		return g.Nums[g.r.Intn(len(g.Nums))]
	default:
		if g.VarData && g.r.Intn(4) == 0 {
			return []string{"?q", "?x", "?", "??o"}[g.r.Intn(4)]
		}
		return g.Strs[g.r.Intn(len(g.Strs))]
	}
}

// distinct scalars of one kind (sortable by the pattern index) or mixed.
func (g *G) scalarArray(mixed bool) []interface{} {
	n := g.r.Intn(4)
	seen := map[string]bool{}
	var out []interface{}
	kind := g.r.Intn(3)
	for len(out) < n {
		var v interface{}
		if mixed {
			v = g.scalar()
		} else {
			switch kind {
			case 0:
				v = g.Strs[g.r.Intn(len(g.Strs))]
			case 1:
				v = g.Nums[g.r.Intn(len(g.Nums))]
			default:
				v = g.r.Intn(2) == 0
			}
		}
		k := fmt.Sprintf("%T:%v", v, v)
		if seen[k] {
			if len(seen) >= 2 && kind == 2 {
				break
			}
			continue
		}
		seen[k] = true
		out = append(out, v)
	}
	if out == nil {
		out = []interface{}{}
	}
	return out
}

func (g *G) value(depth int) interface{} {
	if depth <= 0 {
		return g.scalar()
	}
	switch g.r.Intn(10) {
	case 0, 1, 2:
		return g.object(depth - 1)
	case 3:
		return g.scalarArray(false)
	case 4:
		if g.r.Intn(4) == 0 {
			return g.scalarArray(true)
		}
		// array of maps (sometimes mixed with scalars)
		n := 1 + g.r.Intn(2)
		var out []interface{}
		for i := 0; i < n; i++ {
			out = append(out, g.object(depth-1))
		}
		if g.r.Intn(4) == 0 {
			out = append(out, g.scalar())
		}
		return out
	default:
		return g.scalar()
	}
}

func (g *G) object(depth int) map[string]interface{} {
	m := map[string]interface{}{}
	n := g.r.Intn(4)
	for i := 0; i < n; i++ {
		m[g.Keys[g.r.Intn(len(g.Keys))]] = g.value(depth)
	}
	return m
}

// event: a non-empty map of depth <= 3.
func (g *G) event() map[string]interface{} {
	m := g.object(2)
	if len(m) == 0 {
		m[g.Keys[g.r.Intn(len(g.Keys))]] = g.scalar()
	}
	return m
}

type patGen struct {
	g        *G
	vars     []string
	used     []string
	pRepeat  float64 // probability of reusing an already-used variable
	pVar     float64 // probability of replacing a leaf by a variable
	pDrop    float64
	arrayVar bool
}

func (p *patGen) variable() string {
	if len(p.used) > 0 && p.g.r.Float64() < p.pRepeat {
		return p.used[p.g.r.Intn(len(p.used))]
	}
	v := p.vars[p.g.r.Intn(len(p.vars))]
	p.used = append(p.used, v)
	return v
}

// derive a pattern that matches d (up to variable consistency).
func (p *patGen) derive(d interface{}, top bool) interface{} {
	r := p.g.r
	switch v := d.(type) {
	case map[string]interface{}:
		out := map[string]interface{}{}
		keys := sortedKeys(v)
		for _, k := range keys {
			if r.Float64() < p.pDrop {
				continue
			}
			out[k] = p.derive(v[k], false)
		}
		return out
	case []interface{}:
		if !top && r.Float64() < p.pVar/2 {
			return p.variable()
		}
		var out []interface{}
		hasVar := false
		perm := r.Perm(len(v))
		for _, i := range perm {
			if r.Float64() < p.pDrop {
				continue
			}
			x := v[i]
			switch x.(type) {
			case map[string]interface{}, []interface{}:
				out = append(out, p.derive(x, false))
			default:
				if !hasVar && p.arrayVar && r.Float64() < 0.3 {
					out = append(out, p.variable())
					hasVar = true
				} else {
					out = append(out, x)
				}
			}
		}
		if out == nil {
			out = []interface{}{}
		}
		return out
	default:
		if !top && r.Float64() < p.pVar {
			if r.Intn(12) == 0 {
				return "?"
			}
			return p.variable()
		}
		return d
	}
}

func sortedKeys(m map[string]interface{}) []string {
	keys := make([]string, 0, len(m))
	for k := range m {
		keys = append(keys, k)
	}
	sort.Strings(keys)
	return keys
}

// mutate: small random change that usually breaks a match.
func (g *G) mutate(p interface{}) interface{} {
	r := g.r
	switch v := p.(type) {
	case map[string]interface{}:
		out := map[string]interface{}{}
		for k, x := range v {
			out[k] = x
		}
		keys := sortedKeys(out)
		switch {
		case len(keys) > 0 && r.Intn(2) == 0:
			k := keys[r.Intn(len(keys))]
			out[k] = g.mutate(out[k])
		default:
			out[g.Keys[r.Intn(len(g.Keys))]] = g.scalar()
		}
		return out
	case []interface{}:
		out := append([]interface{}{}, v...)
		if len(out) > 0 && r.Intn(2) == 0 {
			i := r.Intn(len(out))
			out[i] = g.mutate(out[i])
		} else {
			out = append(out, g.scalar())
		}
		return out
	default:
		return g.scalar()
	}
}

func deepCopy(v interface{}) interface{} {
	switch x := v.(type) {
	case map[string]interface{}:
		m := make(map[string]interface{}, len(x))
		for k, y := range x {
			m[k] = deepCopy(y)
		}
		return m
	case []interface{}:
		l := make([]interface{}, len(x))
		for i, y := range x {
			l[i] = deepCopy(y)
		}
		return l
	case json.Number:
		f, _ := x.Float64()
		return f
	}
	return v
}

// plain converts json.Number (from UseNumber decoding) to float64 throughout,
// i.e. what encoding/json would have produced by default.
func plain(v interface{}) interface{} { return deepCopy(v) }

func deepEqual(a, b interface{}) bool { return reflect.DeepEqual(a, b) }
