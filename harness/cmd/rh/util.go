package main

import (
	"bytes"
	"encoding/json"
	"io"
	"math/rand"

	"github.com/Comcast/rulio/core"
)

func bytesReader(b []byte) io.Reader { return bytes.NewReader(b) }

// silence turns rulio's logging off.
func silence() {
	core.DefaultVerbosity = core.NOTHING
}

// num reads a number from a decoded case (json.Number, float64 or int).
func num(v interface{}) int64 {
	switch x := v.(type) {
	case json.Number:
		i, err := x.Int64()
		if err != nil {
			f, _ := x.Float64()
			return int64(f)
		}
		return i
	case float64:
		return int64(x)
	case int:
		return int64(x)
	case int64:
		return x
	}
	return 0
}

func str(v interface{}) string {
	s, _ := v.(string)
	return s
}

func boolean(v interface{}) bool {
	b, _ := v.(bool)
	return b
}

func list(v interface{}) []interface{} {
	l, _ := v.([]interface{})
	return l
}

func obj(v interface{}) map[string]interface{} {
	m, _ := v.(map[string]interface{})
	return m
}

func pick(r *rand.Rand, xs ...interface{}) interface{} { return xs[r.Intn(len(xs))] }
