package main

// Domain "service" (property C18): twin worlds.  One sys.System sits behind
// service.Service / service.HTTPService and is driven through ServeHTTP with
// net/http/httptest (no sockets); a second sys.System is called directly.
// A generated history of /api/loc/* operations is rendered, per operation, in
// one of the supported encodings (query string, form body, JSON body, YAML
// body, query + JSON body, the /api/json and /api/yaml envelopes, inside a
// batch; with/without the /api prefix or a version prefix), sent, and applied
// directly to the twin.  For every operation the harness records the abstract
// request (the real bytes as lexed by the real lexers: url.ParseQuery,
// encoding/json, service.UnmarshalYAML, strconv.ParseInt), the HTTP status
// class, the canonical JSON answer and the canonical result of the direct
// call.  A malformed stream (missing / ill-typed parameters, empty bodies,
// non-string uri, unknown URIs, ...) is interleaved; a panic in ServeHTTP is
// caught and recorded as class "panic".

import (
	"bytes"
	"encoding/json"
	"fmt"
	"math/rand"
	"net/http/httptest"
	"net/url"
	"regexp"
	"sort"
	"strconv"
	"strings"

	"github.com/Comcast/rulio/core"
	"github.com/Comcast/rulio/cron"
	"github.com/Comcast/rulio/service"
	"github.com/Comcast/rulio/sys"
	"gopkg.in/yaml.v2"
)

func init() {
	register("service", &Domain{Gen: genService, Exec: execService})
}

// ---------------------------------------------------------------- generator

var svcLocs = []string{"here", "there", "lo c&1=x"}
var svcFactIds = []string{"f1", "f2", "f3", "a b", "x&y=z", "100%", "é+1", `q"x`}
var svcRuleIds = []string{"r1", "r2", "r&3"}
var svcStrs = []string{"x", "y", "z", "10", "#1", "A", "a b", "p&q=r", "50%", "ünï", `say "hi"`, "a+b", "true", "- x", "k: v"}

type svcGen struct {
	r     *rand.Rand
	g     *G
	facts []map[string]interface{}
}

func (s *svcGen) factId() string { return svcFactIds[s.r.Intn(len(svcFactIds))] }

func (s *svcGen) loc() string {
	switch n := s.r.Intn(20); {
	case n < 12:
		return "here"
	case n < 17:
		return "there" // the parent of "here" in most cases: inherited matters
	}
	return svcLocs[2]
}

func (s *svcGen) fact() map[string]interface{} {
	f := s.g.event()
	if s.r.Intn(2) == 0 {
		f[s.g.Keys[s.r.Intn(len(s.g.Keys))]] = svcStrs[s.r.Intn(len(svcStrs))]
	}
	if s.r.Intn(6) == 0 {
		// an array inside an array with a map in it (a YAML body decodes the inner map with
		// interface{} keys: the conversion has to reach it)
		f["grid"] = []interface{}{[]interface{}{map[string]interface{}{"col": 1.0}}, []interface{}{2.0, map[string]interface{}{"r": "x"}}}
	}
	s.facts = append(s.facts, f)
	return f
}

func (s *svcGen) pattern() map[string]interface{} {
	var src map[string]interface{}
	if len(s.facts) > 0 && s.r.Intn(5) != 0 {
		src = s.facts[s.r.Intn(len(s.facts))]
	} else {
		src = s.g.event()
	}
	pg := &patGen{g: s.g, vars: []string{"?x", "?y"}, pRepeat: 0.0, pVar: 0.3, pDrop: 0.3, arrayVar: false}
	p, _ := pg.derive(deepCopy(src), true).(map[string]interface{})
	if p == nil {
		p = map[string]interface{}{}
	}
	n := 0
	return uniqVars(p, &n).(map[string]interface{})
}

// uniqVars renames the variables of a pattern apart: a repeated variable
// makes the sheens matcher nondeterministic (finding D10 of C05), which
// would make the twin worlds differ for reasons outside the service layer.
func uniqVars(v interface{}, n *int) interface{} {
	switch x := v.(type) {
	case map[string]interface{}:
		m := map[string]interface{}{}
		for _, k := range sortedKeys(x) {
			m[k] = uniqVars(x[k], n)
		}
		return m
	case []interface{}:
		l := make([]interface{}, len(x))
		for i, y := range x {
			l[i] = uniqVars(y, n)
		}
		return l
	case string:
		if strings.HasPrefix(x, "?") && x != "?" {
			*n++
			return fmt.Sprintf("?v%d", *n)
		}
	}
	return v
}

func (s *svcGen) rule() map[string]interface{} {
	k := s.g.Keys[s.r.Intn(len(s.g.Keys))]
	rule := map[string]interface{}{
		"when":   map[string]interface{}{"pattern": map[string]interface{}{k: "?x"}},
		"action": map[string]interface{}{"code": pick(s.r, "'saw ' + x", "x", "1+2", "var m = 'a&b=c ' + x; m;").(string)},
	}
	if s.r.Intn(3) == 0 {
		rule["condition"] = map[string]interface{}{"pattern": s.pattern()}
	}
	return rule
}

// one well-formed logical request
func (s *svcGen) logical() map[string]interface{} {
	r := s.r
	loc := s.loc()
	fid := s.factId()
	rid := svcRuleIds[r.Intn(len(svcRuleIds))]
	p := map[string]interface{}{"location": loc}
	uri := ""
	switch n := r.Intn(100); {
	case n < 22:
		uri = "/api/loc/facts/add"
		p["fact"] = s.fact()
		if r.Intn(6) != 0 {
			p["id"] = fid
		}
	case n < 30:
		uri = "/api/loc/facts/get"
		p["id"] = fid
	case n < 36:
		uri = "/api/loc/facts/rem"
		p["id"] = fid
	case n < 48:
		uri = "/api/loc/facts/search"
		p["pattern"] = s.pattern()
		if r.Intn(2) == 0 {
			p["inherited"] = r.Intn(3) != 0
		}
	case n < 52:
		uri = "/api/loc/facts/take"
		p["pattern"] = s.pattern()
	case n < 56:
		uri = "/api/loc/facts/replace"
		p["pattern"] = s.pattern()
		p["fact"] = s.fact()
		if r.Intn(5) != 0 {
			p["id"] = fid
		}
	case n < 61:
		uri = "/api/loc/facts/query"
		q := map[string]interface{}{"pattern": s.pattern()}
		if r.Intn(3) == 0 {
			q = map[string]interface{}{"and": []interface{}{q, map[string]interface{}{"code": pick(r, "true", "1 == 1", "false").(string)}}}
		}
		p["query"] = q
	case n < 68:
		uri = "/api/loc/rules/add"
		p["rule"] = s.rule()
		if r.Intn(8) != 0 {
			p["id"] = rid
		}
	case n < 71:
		uri = "/api/loc/rules/list"
		if r.Intn(2) == 0 {
			p["inherited"] = r.Intn(2) == 0
		}
	case n < 73:
		uri = "/api/loc/rules/rem"
		p["id"] = rid
	case n < 75:
		uri = "/api/loc/rules/disable"
		p["id"] = rid
	case n < 77:
		uri = "/api/loc/rules/enable"
		p["id"] = rid
	case n < 79:
		uri = "/api/loc/rules/enabled"
		p["id"] = rid
	case n < 86:
		uri = "/api/loc/events/ingest"
		ev := map[string]interface{}{s.g.Keys[r.Intn(len(s.g.Keys))]: svcStrs[r.Intn(len(svcStrs))]}
		if r.Intn(3) == 0 {
			ev = s.g.event()
		}
		p["event"] = ev
	case n < 90:
		uri = "/api/loc/parents"
		p["location"] = "here"
		if r.Intn(2) == 0 {
			p["set"] = pick(r, `[]`, `["there"]`, `["there"]`, `junk`).(string)
		}
	case n < 93:
		uri = "/api/loc/admin/size"
	case n < 94:
		uri = "/api/loc/admin/stats"
	case n < 95:
		uri = "/api/loc/admin/create"
	case n < 96:
		uri = pick(r, "/api/loc/admin/clear", "/api/loc/admin/delete").(string)
	default:
		uri = "/api/loc/util/js"
		p["code"] = pick(r, "1+2", "'a b&c=d%' + 'é'", "(", "var o = {a: 1}; o.a").(string)
	}
	return map[string]interface{}{"uri": uri, "params": p}
}

// "override": a JSON body with all parameters behind a query string of decoys
// for the text parameters and for uri (the body and the path win).
var svcEncs = []string{"query", "form", "json", "yaml", "mixed", "env-json", "env-yaml", "override"}
var svcPrefixes = []string{"asis", "asis", "noapi", "v1.0", "0.9-noapi"}

func (s *svcGen) encoding(o map[string]interface{}) {
	r := s.r
	o["enc"] = svcEncs[r.Intn(len(svcEncs))]
	o["prefix"] = svcPrefixes[r.Intn(len(svcPrefixes))]
	o["yamlp"] = r.Intn(4) == 0
	o["booltext"] = pick(r, "lower", "lower", "upper", "title").(string)
	// in a JSON / YAML body a text parameter may be spelled as an array of
	// strings (GetStringParam joins them): cut one parameter in two
	o["cut"] = -1
	if r.Intn(6) == 0 {
		o["cut"] = r.Intn(4)
	}
}

func svcParamKind(name string) string {
	switch name {
	case "fact", "pattern", "rule", "event", "query":
		return "map"
	case "inherited":
		return "bool"
	}
	return "string"
}

func (s *svcGen) malformed() map[string]interface{} {
	r := s.r
	o := map[string]interface{}{"kind": "mal"}
	lg := s.logical()
	for r.Intn(3) != 0 && (str(lg["uri"]) == "/api/loc/admin/clear" || str(lg["uri"]) == "/api/loc/admin/delete") {
		lg = s.logical()
	}
	o["logical"] = lg
	s.encoding(o)
	params := obj(lg["params"])
	uri := str(lg["uri"])
	// parameters whose absence is an error (optional ones are not "missing")
	var required []string
	for _, k := range sortedKeys(params) {
		optional := k == "inherited" || k == "set" ||
			(k == "id" && (uri == "/api/loc/facts/add" || uri == "/api/loc/rules/add" || uri == "/api/loc/facts/replace"))
		if !optional {
			required = append(required, k)
		}
	}
	names := sortedKeys(params)
	switch n := r.Intn(100); {
	case n < 22:
		o["mal"] = "missing"
		o["name"] = required[r.Intn(len(required))]
	case n < 42:
		o["mal"] = "illtyped"
		name := names[r.Intn(len(names))]
		o["name"] = name
		switch svcParamKind(name) {
		case "map":
			o["value"] = pick(r, float64(5), nil, []interface{}{"a", float64(1)}, "{\"a\":1}", true)
		case "bool":
			o["value"] = pick(r, float64(5), nil, []interface{}{"a", float64(1)}, map[string]interface{}{"a": "b"})
		default:
			o["value"] = pick(r, float64(5), nil, []interface{}{"a", float64(1)}, map[string]interface{}{"a": "b"}, true)
		}
		o["enc"] = pick(r, "json", "yaml", "env-json", "env-yaml").(string)
	case n < 52:
		o["mal"] = "emptybody"
		o["enc"] = "query"
	case n < 62:
		o["mal"] = "uri-nonstring"
		o["value"] = pick(r, float64(5), nil, true, []interface{}{"/api/loc/facts/get"})
		o["enc"] = pick(r, "json", "yaml", "env-json", "env-yaml", "mixed").(string)
	case n < 70:
		o["mal"] = "unknown-uri"
		o["prefix"] = "asis"
		o["to"] = pick(r, "/api/loc/nothing", "/api/loc/facts", "/api/loc/facts/add/x", "/api/nope", "/api/json/x", "/apix/loc/facts/get").(string)
	case n < 77:
		o["mal"] = "empty-typed"
		o["name"] = pick(r, "fact", "pattern", "rule", "event", "query").(string)
		o["enc"] = pick(r, "query", "form").(string)
	case n < 82:
		o["mal"] = "repeated"
		o["name"] = names[r.Intn(len(names))]
		o["enc"] = pick(r, "query", "form").(string)
	case n < 86:
		o["mal"] = "typed-junk"
		o["name"] = pick(r, "fact", "pattern", "rule", "event", "query").(string)
		o["value"] = pick(r, "junk", "[1,2]", "{oops", "a\nb").(string)
		o["enc"] = pick(r, "query", "form").(string)
	case n < 89:
		o["mal"] = "env-nouri"
		o["enc"] = pick(r, "env-json", "env-yaml").(string)
	case n < 92:
		o["mal"] = "env-get"
		o["enc"] = pick(r, "env-json", "env-yaml").(string)
	case n < 94:
		o["mal"] = "env-empty"
		o["enc"] = pick(r, "env-json", "env-yaml").(string)
	case n < 97:
		o["mal"] = "badbody"
		o["value"] = pick(r, "{oops", "junk", "a: [1\n", "%zz=1").(string)
		o["enc"] = "json"
	default:
		o["mal"] = "batch-uri-nonstring"
		o["enc"] = "batch"
	}
	return o
}

func genService(r *rand.Rand, n int, tier string) []Case {
	var cases []Case
	for i := 0; i < n; i++ {
		s := &svcGen{r: r, g: newG(r)}
		s.g.Strs = append(s.g.Strs, svcStrs...)
		var ops []interface{}
		if r.Intn(10) < 7 {
			// most histories start by making "there" the parent of "here"
			o := map[string]interface{}{"kind": "wf", "logical": map[string]interface{}{"uri": "/api/loc/parents",
				"params": map[string]interface{}{"location": "here", "set": `["there"]`}}}
			s.encoding(o)
			ops = append(ops, o)
		}
		k := 10 + r.Intn(16)
		for j := 0; j < k; j++ {
			switch x := r.Intn(100); {
			case x < 22:
				ops = append(ops, s.malformed())
			case x < 30:
				// a batch of 1-3 well-formed requests
				var elems []interface{}
				for e := 1 + r.Intn(3); e > 0; e-- {
					lg := s.logical()
					u := str(lg["uri"])
					if u == "/api/loc/facts/take" || u == "/api/loc/facts/replace" {
						continue
					}
					elems = append(elems, lg)
				}
				if len(elems) == 0 {
					elems = append(elems, map[string]interface{}{"uri": "/api/loc/admin/size", "params": map[string]interface{}{"location": "here"}})
				}
				ops = append(ops, map[string]interface{}{"kind": "batch", "elems": elems, "enc": "batch"})
			default:
				o := map[string]interface{}{"kind": "wf", "logical": s.logical()}
				s.encoding(o)
				ops = append(ops, o)
			}
		}
		// DWIMURI probes
		var dw []interface{}
		alpha := []string{"/", "v", ".", "1", "0", "9", "a", "p", "i", "?", "\n", "x", "/api", "/loc", "/v1.0", "api", "é"}
		for j := 0; j < 6; j++ {
			var b strings.Builder
			for l := 1 + r.Intn(7); l > 0; l-- {
				b.WriteString(alpha[r.Intn(len(alpha))])
			}
			dw = append(dw, map[string]interface{}{"in": b.String()})
		}
		cases = append(cases, Case{"ops": ops, "dwim": dw})
	}
	return cases
}

// ---------------------------------------------------------------- worlds

type noCron struct{}

func (noCron) ScheduleEvent(ctx *core.Context, work *cron.ScheduledEvent) error { return nil }
func (noCron) Schedule(ctx *core.Context, work *cron.ScheduledWork) error       { return nil }
func (noCron) Rem(ctx *core.Context, id string) (bool, error)                   { return false, nil }
func (noCron) Persistent() bool                                                 { return false }

type svcWorld struct {
	ctx  *core.Context
	sys  *sys.System
	http *service.HTTPService
}

func newSvcWorld() *svcWorld {
	ctx := core.NewContext("rh")
	ctx.Verbosity = core.NOTHING
	conf := sys.ExampleConfig()
	cont := sys.ExampleSystemControl()
	cont.LocationTTL = sys.Forever
	cont.DefaultLocControl = &core.Control{MaxFacts: 1000, Verbosity: core.NOTHING}
	s, err := sys.NewSystem(ctx, *conf, *cont, noCron{})
	if err != nil {
		panic(err)
	}
	h, _ := service.NewHTTPService(ctx, &service.Service{System: s})
	return &svcWorld{ctx: ctx, sys: s, http: h}
}

// ---------------------------------------------------------------- canonical JSON

var uuidRe = regexp.MustCompile(`[0-9a-f]{8}-[0-9a-f]{4}-[0-9a-f]{4}-[0-9a-f]{4}-[0-9a-f]{12}`)
var svcDropKeys = map[string]bool{"Elapsed": true, "Checked": true, "TotalTime": true}
var svcSetKeys = map[string]bool{"Found": true, "children": true, "ids": true, "Bss": true, "bindingss": true, "values": true, "Bindingss": true}

func jsonKey(v interface{}) string {
	b, _ := json.Marshal(v)
	return string(b)
}

// canon: drop timings, hide generated ids, sort sets, integers only.
func canon(v interface{}, key string) interface{} {
	switch x := v.(type) {
	case map[string]interface{}:
		m := map[string]interface{}{}
		for k, y := range x {
			if svcDropKeys[k] {
				continue
			}
			m[uuidRe.ReplaceAllString(k, "<uuid>")] = canon(y, k)
		}
		return m
	case []interface{}:
		l := make([]interface{}, len(x))
		for i, y := range x {
			l[i] = canon(y, "")
		}
		if svcSetKeys[key] {
			sort.SliceStable(l, func(i, j int) bool { return jsonKey(l[i]) < jsonKey(l[j]) })
		}
		return l
	case string:
		return uuidRe.ReplaceAllString(x, "<uuid>")
	case json.Number:
		if i, err := x.Int64(); err == nil {
			return float64(i)
		}
		f, _ := x.Float64()
		return float64(int64(f))
	case float64:
		return float64(int64(x))
	case int:
		return float64(x)
	case int64:
		return float64(x)
	}
	return v
}

// viaJSON: a Go value as the JSON it marshals to (nil on failure).
func viaJSON(v interface{}) interface{} {
	b, err := json.Marshal(v)
	if err != nil {
		return nil
	}
	return parseJSON(b)
}

func parseJSON(b []byte) interface{} {
	var x interface{}
	d := json.NewDecoder(bytes.NewReader(b))
	d.UseNumber()
	if err := d.Decode(&x); err != nil {
		return nil
	}
	if d.More() {
		return nil
	}
	return x
}

// ---------------------------------------------------------------- direct calls

func dres(res interface{}, err error) map[string]interface{} {
	if err != nil {
		return map[string]interface{}{"ok": false, "msg": uuidRe.ReplaceAllString(err.Error(), "<uuid>")}
	}
	return map[string]interface{}{"ok": true, "res": canon(viaJSON(res), "")}
}

func pstr(p map[string]interface{}, k string) string { return str(p[k]) }

func pjson(p map[string]interface{}, k string) string {
	m, _ := p[k].(map[string]interface{})
	b, _ := json.Marshal(m)
	return string(b)
}

// direct applies the logical request to the twin System: one record per
// System-level action (two for replace).
func (w *svcWorld) direct(uri string, p map[string]interface{}) []interface{} {
	ctx := w.ctx.SubContext()
	loc := pstr(p, "location")
	id := pstr(p, "id")
	inh := boolean(p["inherited"])
	one := func(res interface{}, err error) []interface{} { return []interface{}{dres(res, err)} }
	take := func() map[string]interface{} {
		sr, err := w.sys.SearchFacts(ctx, loc, pjson(p, "pattern"), inh)
		if err == nil {
			for _, f := range sr.Found {
				w.sys.RemFact(ctx, loc, f.Id)
			}
		}
		return dres(sr, err)
	}
	switch uri {
	case "/api/loc/facts/add":
		return one(w.sys.AddFact(ctx, loc, id, pjson(p, "fact")))
	case "/api/loc/facts/get":
		js, err := w.sys.GetFact(ctx, loc, id)
		if err != nil {
			return one(nil, err)
		}
		return one(json.RawMessage(js), nil)
	case "/api/loc/facts/rem":
		return one(w.sys.RemFact(ctx, loc, id))
	case "/api/loc/facts/search":
		return one(w.sys.SearchFacts(ctx, loc, pjson(p, "pattern"), inh))
	case "/api/loc/facts/take":
		return []interface{}{take()}
	case "/api/loc/facts/replace":
		// take, then add; a failing take ends the operation
		t := take()
		if !boolean(t["ok"]) {
			return []interface{}{t}
		}
		return []interface{}{t, dres(w.sys.AddFact(ctx, loc, id, pjson(p, "fact")))}
	case "/api/loc/facts/query":
		return one(w.sys.Query(ctx, loc, pjson(p, "query")))
	case "/api/loc/rules/add":
		return one(w.sys.AddRule(ctx, loc, id, pjson(p, "rule")))
	case "/api/loc/rules/list":
		ss, err := w.sys.ListRules(ctx, loc, inh)
		d := dres(ss, err)
		if err == nil {
			d["res"] = canon(viaJSON(ss), "ids") // a set: the service answers {"ids": ss}
		}
		return []interface{}{d}
	case "/api/loc/rules/rem":
		return one(w.sys.RemRule(ctx, loc, id))
	case "/api/loc/rules/disable":
		return one(nil, w.sys.EnableRule(ctx, loc, id, false))
	case "/api/loc/rules/enable":
		return one(nil, w.sys.EnableRule(ctx, loc, id, true))
	case "/api/loc/rules/enabled":
		return one(w.sys.RuleEnabled(ctx, loc, id))
	case "/api/loc/events/ingest":
		return one(w.sys.ProcessEvent(ctx, loc, pjson(p, "event")))
	case "/api/loc/parents":
		if set, given := p["set"]; given {
			var parents []string
			if err := json.Unmarshal([]byte(str(set)), &parents); err != nil {
				return one(nil, err)
			}
			_, err := w.sys.SetParents(ctx, loc, parents)
			return one(json.RawMessage(str(set)), err)
		}
		return one(w.sys.GetParents(ctx, loc))
	case "/api/loc/admin/size":
		return one(w.sys.GetSize(ctx, loc))
	case "/api/loc/admin/stats":
		return one(w.sys.GetLocationStats(ctx, loc))
	case "/api/loc/admin/create":
		created, err := w.sys.CreateLocation(ctx, loc)
		if err == nil && !created {
			err = fmt.Errorf("%s already exists", loc)
		}
		return one(nil, err)
	case "/api/loc/admin/clear":
		return one(nil, w.sys.ClearLocation(ctx, loc))
	case "/api/loc/admin/delete":
		return one(nil, w.sys.DeleteLocation(ctx, loc))
	case "/api/loc/util/js":
		bs := make(core.Bindings)
		var props map[string]interface{}
		if ctl := w.sys.LocControl(ctx, loc); ctl != nil {
			props = ctl.CodeProps
		}
		return one(w.sys.RunJavascript(ctx, loc, pstr(p, "code"), []string{}, &bs, props))
	}
	return []interface{}{map[string]interface{}{"ok": false, "msg": "harness: no direct call for " + uri}}
}

// mirror keeps the twin in step if the service ACCEPTS a malformed request and
// acts on part of it (this is what the unrepaired take / replace / util/js /
// add did, findings D62 and D63; on the repaired code every such request is
// answered 400 and nothing is mirrored): it applies exactly the parts that
// can run.
func (w *svcWorld) mirror(o map[string]interface{}, class string) []interface{} {
	mal, name := str(o["mal"]), str(o["name"])
	if mal != "missing" && mal != "illtyped" {
		return []interface{}{}
	}
	lg := obj(o["logical"])
	uri := str(lg["uri"])
	p := obj(deepCopy(lg["params"]))
	if mal == "missing" {
		delete(p, name)
	} else {
		p[name] = o["value"]
	}
	isMap := func(k string) bool { _, ok := p[k].(map[string]interface{}); return ok }
	isStr := func(k string) bool { _, ok := p[k].(string); return ok }
	boolOK := func(k string) bool {
		v, have := p[k]
		if !have {
			return true
		}
		switch v.(type) {
		case bool, string:
			return true
		}
		return false
	}
	switch {
	case uri == "/api/loc/parents" && name == "set" && !isStr("set"):
		return w.direct(uri, p) // "" does not parse: fails without effect
	case class != "ok":
		return []interface{}{}
	case uri == "/api/loc/facts/take" || uri == "/api/loc/facts/replace":
		out := []interface{}{}
		if isMap("pattern") && isStr("location") && boolOK("inherited") {
			out = append(out, w.direct("/api/loc/facts/take", p)...)
		}
		if uri == "/api/loc/facts/replace" && isMap("fact") && isStr("location") {
			out = append(out, w.direct("/api/loc/facts/add", p)...)
		}
		return out
	case uri == "/api/loc/util/js" && name == "code" && !isStr("code"):
		return w.direct(uri, p)
	case (uri == "/api/loc/facts/add" || uri == "/api/loc/rules/add") && name == "id" && !isStr("id"):
		return w.direct(uri, p)
	}
	return []interface{}{}
}

// ---------------------------------------------------------------- rendering

func svcPath(uri, prefix string) string {
	strip := func(u string) string { return strings.TrimPrefix(u, "/api") }
	switch prefix {
	case "noapi":
		return strip(uri)
	case "v1.0":
		return "/v1.0" + uri
	case "0.9-noapi":
		return "/0.9" + strip(uri)
	}
	return uri
}

func boolText(b bool, style string) string {
	s := strconv.FormatBool(b)
	switch style {
	case "upper":
		return strings.ToUpper(s)
	case "title":
		return strings.Title(s)
	}
	return s
}

func yamlText(v interface{}) string {
	b, err := yaml.Marshal(v)
	if err != nil {
		return ""
	}
	return string(b)
}

// paramText: a logical value as query-string / form text.
func paramText(v interface{}, yamlp bool, style string) string {
	switch x := v.(type) {
	case string:
		return x
	case bool:
		return boolText(x, style)
	case map[string]interface{}:
		if yamlp {
			return yamlText(x)
		}
		b, _ := json.Marshal(x)
		return string(b)
	case nil:
		return "null"
	}
	b, _ := json.Marshal(v)
	return string(b)
}

type wire struct {
	method, path, rawQuery, body string
}

// renderOp turns an operation (logical request + encoding + optional
// malformation) into bytes.
func renderOp(o map[string]interface{}) wire {
	lg := obj(o["logical"])
	uri := str(lg["uri"])
	params := obj(deepCopy(lg["params"]))
	enc, prefix, yamlp, style := str(o["enc"]), str(o["prefix"]), boolean(o["yamlp"]), str(o["booltext"])
	mal := str(o["mal"])
	name := str(o["name"])
	if mal == "unknown-uri" {
		uri = str(o["to"])
	}
	switch mal {
	case "missing":
		delete(params, name)
	case "illtyped":
		params[name] = o["value"]
	}
	path := svcPath(uri, prefix)
	q := url.Values{}
	pairsOf := func(only func(v interface{}) bool) url.Values {
		vs := url.Values{}
		for k, v := range params {
			if only == nil || only(v) {
				vs.Set(k, paramText(v, yamlp, style))
			}
		}
		switch mal {
		case "empty-typed":
			vs.Set(name, "")
		case "repeated":
			vs.Add(name, "again")
		case "typed-junk":
			vs.Set(name, str(o["value"]))
		}
		return vs
	}
	isMap := func(v interface{}) bool { _, ok := v.(map[string]interface{}); return ok }
	cut := int(num(o["cut"]))
	bodyObj := func(only func(v interface{}) bool, withURI bool) map[string]interface{} {
		m := map[string]interface{}{}
		for k, v := range params {
			if only == nil || only(v) {
				m[k] = v
			}
		}
		if cut >= 0 && mal == "" && enc != "mixed" {
			for _, k := range sortedKeys(m) {
				if sv, isStr := m[k].(string); isStr && len(sv) > 0 {
					at := cut % (len(sv) + 1)
					for at > 0 && at < len(sv) && sv[at]&0xC0 == 0x80 {
						at-- // not inside a UTF-8 sequence
					}
					m[k] = []interface{}{sv[:at], sv[at:]}
					break
				}
			}
		}
		if withURI && mal != "env-nouri" {
			m["uri"] = path
		}
		if mal == "uri-nonstring" {
			m["uri"] = o["value"]
		}
		return m
	}
	marshal := func(m map[string]interface{}, asYAML bool) string {
		if asYAML {
			return yamlText(m)
		}
		b, _ := json.Marshal(m)
		return string(b)
	}
	w := wire{method: "POST", path: path}
	switch enc {
	case "query":
		w.method = "GET"
		q = pairsOf(nil)
		if mal == "emptybody" {
			w.method = "POST"
		}
	case "form":
		w.body = pairsOf(nil).Encode()
	case "json":
		w.body = marshal(bodyObj(nil, false), false)
		if mal == "badbody" {
			w.body = str(o["value"])
		}
	case "yaml":
		w.body = marshal(bodyObj(nil, false), true)
	case "mixed":
		q = pairsOf(func(v interface{}) bool { return !isMap(v) })
		w.body = marshal(bodyObj(isMap, false), false)
	case "override":
		for k, v := range params {
			if _, isStr := v.(string); isStr {
				q.Set(k, "decoy")
			}
		}
		q.Set("uri", "/api/loc/nothing")
		w.body = marshal(bodyObj(nil, false), false)
	case "env-json", "env-yaml":
		w.path = "/api/" + strings.TrimPrefix(enc, "env-")
		w.body = marshal(bodyObj(nil, true), enc == "env-yaml")
		if mal == "env-get" {
			w.method = "GET"
		}
		if mal == "env-empty" {
			w.body = ""
		}
	}
	w.rawQuery = q.Encode()
	return w
}

func batchElem(lg map[string]interface{}) map[string]interface{} {
	m := obj(deepCopy(lg["params"]))
	m["uri"] = str(lg["uri"])
	return m
}

// ---------------------------------------------------------------- lexing (the abstract request)

func lexObj(m map[string]interface{}, err error) interface{} {
	if err != nil {
		return nil
	}
	v := viaJSON(m)
	if v == nil {
		return nil // not JSON-like (e.g. non-string YAML keys): outside the modelled fragment
	}
	return v
}

func lexText(t string) map[string]interface{} {
	out := map[string]interface{}{"text": t, "json": nil, "yaml": nil, "int": nil}
	jm := map[string]interface{}{}
	out["json"] = lexObj(jm, json.Unmarshal([]byte(t), &jm))
	func() {
		defer func() { recover() }()
		ym := map[string]interface{}{}
		out["yaml"] = lexObj(ym, service.UnmarshalYAML([]byte(t), &ym))
	}()
	if n, err := strconv.ParseInt(t, 10, 32); err == nil {
		out["int"] = float64(n)
	}
	return out
}

func lexPairs(raw string) interface{} {
	vs, err := url.ParseQuery(raw)
	if err != nil {
		return nil
	}
	keys := make([]string, 0, len(vs))
	for k := range vs {
		keys = append(keys, k)
	}
	sort.Strings(keys)
	out := []interface{}{}
	for _, k := range keys {
		for _, v := range vs[k] {
			out = append(out, []interface{}{k, lexText(v)})
		}
	}
	return out
}

func abstractRequest(w wire) map[string]interface{} {
	body := lexText(w.body)
	delete(body, "int")
	body["form"] = lexPairs(w.body)
	return map[string]interface{}{"method": w.method, "path": w.path, "query": lexPairs(w.rawQuery), "body": body}
}

// ---------------------------------------------------------------- execution

func (w *svcWorld) send(x wire) map[string]interface{} {
	out := map[string]interface{}{}
	func() {
		defer func() {
			if p := recover(); p != nil {
				out["class"] = "panic"
				out["msg"] = fmt.Sprint(p)
			}
		}()
		target := x.path
		if x.rawQuery != "" {
			target += "?" + x.rawQuery
		}
		req := httptest.NewRequest(x.method, target, strings.NewReader(x.body))
		rec := httptest.NewRecorder()
		w.http.ServeHTTP(rec, req)
		out["status"] = float64(rec.Code)
		switch rec.Code {
		case 200:
			out["class"] = "ok"
		case 400:
			out["class"] = "err"
		default:
			out["class"] = fmt.Sprintf("other:%d", rec.Code)
		}
		raw := strings.TrimSpace(rec.Body.String())
		out["empty"] = raw == ""
		if rec.Code == 200 {
			if v := parseJSON([]byte(raw)); v != nil {
				out["body"] = canon(v, "")
				out["parsed"] = true
			} else {
				out["body"] = nil
				out["parsed"] = false
			}
		} else {
			out["body"] = nil
			out["parsed"] = false
		}
		if len(raw) > 160 {
			raw = raw[:160]
		}
		out["raw"] = uuidRe.ReplaceAllString(raw, "<uuid>")
	}()
	return out
}

func execServiceCase(c Case) {
	hw, dw := newSvcWorld(), newSvcWorld()
	for _, oi := range list(c["ops"]) {
		o := obj(oi)
		switch str(o["kind"]) {
		case "batch":
			var elems []interface{}
			var direct []interface{}
			for _, e := range list(o["elems"]) {
				lg := obj(plain(e))
				elems = append(elems, batchElem(lg))
			}
			b, _ := json.Marshal(map[string]interface{}{"requests": elems})
			x := wire{method: "POST", path: "/api/sys/util/batch", body: string(b)}
			o["req"] = abstractRequest(x)
			o["http"] = hw.send(x)
			for _, e := range list(o["elems"]) {
				lg := obj(plain(e))
				direct = append(direct, dw.direct(str(lg["uri"]), obj(lg["params"])))
			}
			o["direct"] = direct
		case "wf":
			lg := obj(plain(o["logical"]))
			x := renderOp(obj(plain(o)))
			o["req"] = abstractRequest(x)
			o["http"] = hw.send(x)
			o["direct"] = dw.direct(str(lg["uri"]), obj(lg["params"]))
		default: // malformed
			po := obj(plain(o))
			lg := obj(po["logical"])
			var x wire
			if str(o["mal"]) == "batch-uri-nonstring" {
				el := batchElem(lg)
				el["uri"] = float64(5)
				b, _ := json.Marshal(map[string]interface{}{"requests": []interface{}{el}})
				x = wire{method: "POST", path: "/api/sys/util/batch", body: string(b)}
			} else {
				x = renderOp(po)
			}
			o["req"] = abstractRequest(x)
			h := hw.send(x)
			o["http"] = h
			o["direct"] = dw.mirror(po, str(h["class"]))
		}
	}
	ctx := core.NewContext("rh")
	ctx.Verbosity = core.NOTHING
	for _, di := range list(c["dwim"]) {
		d := obj(di)
		d["out"] = service.DWIMURI(ctx, str(d["in"]))
	}
}

func execService(cases []Case) []Case {
	for _, c := range cases {
		execServiceCase(c)
	}
	return cases
}
