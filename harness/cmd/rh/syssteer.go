package main

import (
	"math/rand"
	"os"
	"sync"
	"sync/atomic"
	"time"

	"github.com/Comcast/rulio/core"
	"github.com/Comcast/rulio/sys"
)

// Domain "sys-steer" (C17, C11): deterministic interleavings of the REAL
// sys.System at the granularity of its log records, from a cold start.  Client
// 0 sends ONE request A to a location that no request has opened yet, with
// every log record enabled; its Context.LogHook blocks at the k-th record
// ("pause_at": k; over the cases k sweeps all records of A: before the cache
// look-up, between the two critical sections of Open, during the load, during
// the operation itself, before the release) until client 1 has sent its
// requests B to the SAME location - or has been found blocked for 150 ms (it
// waits for something A holds): then A is released and both finish.  Judged:
// the history is linearizable w.r.t. the sequential location model (the oracle
// of conc-loc), and with a TTL of "forever" the location was loaded exactly
// once whatever the schedule.

func init() {
	register("sys-steer", &Domain{Gen: genSysSteer, Exec: execSysSteer})
}

func genSysSteer(r *rand.Rand, n int, tier string) []Case {
	var cases []Case
	ids := []string{"i0", "i1"}
	vals := []interface{}{"x", "y"}
	for i := 0; i < n; i++ {
		kind := pick(r, "indexed", "linear").(string)
		mk := func(kinds ...string) map[string]interface{} {
			id := ids[r.Intn(len(ids))]
			o := map[string]interface{}{"loc": "L0"}
			switch kinds[r.Intn(len(kinds))] {
			case "addfact":
				o["op"], o["id"] = "addfact", id
				o["fact"] = map[string]interface{}{"k": vals[r.Intn(len(vals))], "n": float64(r.Intn(3))}
			case "remfact":
				o["op"], o["id"] = "remfact", id
			case "getfact":
				o["op"], o["id"] = "getfact", id
			case "search":
				o["op"], o["inherited"] = "search", false
				o["pattern"] = map[string]interface{}{"k": pick(r, "?v", "x")}
			case "addrule":
				o["op"], o["id"] = "addrule", "r"+id
				o["rule"] = rulePat(map[string]interface{}{"k": pick(r, "?v", "x")})
			case "size":
				o["op"] = "size"
			default:
				o["op"] = "event"
				o["event"] = map[string]interface{}{"k": vals[r.Intn(len(vals))]}
			}
			return o
		}
		a := mk("addfact", "addfact", "addrule", "getfact", "search", "event", "size")
		var bs []interface{}
		for j := 0; j < 1+r.Intn(2); j++ {
			b := mk("addfact", "addfact", "remfact", "addrule", "getfact", "search", "event", "size")
			if r.Intn(3) == 0 {
				b["touch"] = true
			}
			bs = append(bs, b)
		}
		cases = append(cases, Case{"locs": []interface{}{map[string]interface{}{"name": "L0", "kind": kind, "hooks": true, "persistent": true}},
			"setup": []interface{}{}, "clients": []interface{}{[]interface{}{a}, bs},
			"ids": []interface{}{"i0", "i1", "ri0", "ri1"}, "separate": true, "child": true,
			"ttl": pick(r, "forever", "forever", "never", "short"), "pause_at": r.Intn(70)})
	}
	return cases
}

func execSysSteer(cases []Case) []Case {
	if os.Getenv("RH_CHILD") == "1" {
		for _, c := range cases {
			execSysSteerCase(c)
		}
		return cases
	}
	sem := make(chan bool, 14)
	var wg sync.WaitGroup
	for _, c := range cases {
		wg.Add(1)
		sem <- true
		go func(c Case) {
			defer func() { <-sem; wg.Done() }()
			runInChild("sys-steer", c, func(c Case, kind string) { c["crashed"] = kind })
		}(c)
	}
	wg.Wait()
	return cases
}

func execSysSteerCase(c Case) {
	core.DefaultLogger = core.BenchLogger
	linear := str(obj(list(c["locs"])[0])["kind"]) == "linear"
	ttl := sys.Forever
	switch str(c["ttl"]) {
	case "never":
		ttl = sys.Never
	case "short":
		ttl = time.Millisecond
	}
	s, ctx, err := newCacheSystem(ttl, false, linear)
	if err != nil {
		c["setup_error"] = err.Error()
		return
	}
	s.AddFact(ctx, "warm", "w", `{"a":1}`) // create the storage first (lazy, see conc-loc for the cold start of the storage)
	before, _ := s.GetStats(ctx)
	clients := list(c["clients"])
	a := obj(list(clients[0])[0])
	bs := list(clients[1])
	k := int32(num(c["pause_at"]))
	var records int32
	paused, release := make(chan bool), make(chan bool)
	var pauseOnce, releaseOnce sync.Once
	run := func(o map[string]interface{}, cx *core.Context, start time.Time) {
		o["t"] = time.Now().Unix()
		o["inv"] = time.Since(start).Nanoseconds()
		o["res"] = sysOp(s, cx, deepCopy(o).(map[string]interface{}))
		o["ret"] = time.Since(start).Nanoseconds()
		o["t2"] = time.Now().Unix()
	}
	start := time.Now()
	doneA, doneB := make(chan bool), make(chan bool)
	go func() {
		cx := core.NewContext("rh")
		cx.Verbosity = core.EVERYTHING
		cx.Logger = core.BenchLogger
		cx.LogAccumulatorLevel = core.NOTHING
		cx.LogHook = func(level core.LogLevel, args ...interface{}) {
			if atomic.AddInt32(&records, 1)-1 == k {
				pauseOnce.Do(func() { close(paused) })
				<-release
			}
		}
		run(a, cx, start)
		close(doneA)
	}()
	wasPaused := false
	select {
	case <-paused:
		wasPaused = true
	case <-doneA:
	case <-time.After(4 * time.Second):
		c["crashed"] = "hang"
		return
	}
	go func() {
		cx := core.NewContext("rh")
		cx.Verbosity = core.NOTHING
		for _, bi := range bs {
			run(obj(bi), cx, start)
		}
		close(doneB)
	}()
	blocked := false
	select {
	case <-doneB:
	case <-time.After(150 * time.Millisecond):
		blocked = true
	}
	releaseOnce.Do(func() { close(release) })
	for _, ch := range []chan bool{doneA, doneB} {
		select {
		case <-ch:
		case <-time.After(4 * time.Second):
			c["crashed"] = "hang"
			return
		}
	}
	after, _ := s.GetStats(ctx)
	c["loads"] = int(after.NewLocations - before.NewLocations)
	c["paused"], c["b_blocked"], c["records"] = wasPaused, blocked, float64(atomic.LoadInt32(&records))
	cx := core.NewContext("rh")
	cx.Verbosity = core.NOTHING
	var out []interface{}
	for _, id := range list(c["ids"]) {
		o := map[string]interface{}{"loc": "L0", "op": "getfact", "id": str(id), "t": time.Now().Unix()}
		o["res"] = sysOp(s, cx, o)
		o["t2"] = o["t"]
		out = append(out, o)
	}
	o := map[string]interface{}{"loc": "L0", "op": "size", "t": time.Now().Unix()}
	o["res"] = sysOp(s, cx, o)
	o["t2"] = o["t"]
	c["final"] = append(out, o)
	c["final_store"] = []interface{}{}
	// what the storage holds (behind the System's back), for the diagnosis of a lost write
	if st, err := s.PeekStorage(ctx); err == nil && st != nil {
		if pairs, err := st.Load(ctx, "L0"); err == nil {
			var ids []interface{}
			for _, p := range pairs {
				ids = append(ids, string(p.K))
			}
			c["store_ids"] = ids
		}
	}
}
