package main

import (
	"strings"
	"encoding/json"
	"math/rand"
	"reflect"
	"sort"

	"github.com/Comcast/rulio/core"
)

// Domain "match": (pattern, data, initial bindings) triples against core.Match.

func init() {
	register("match", &Domain{Gen: genMatch, Exec: execMatch})
}

func genMatch(r *rand.Rand, n int, tier string) []Case {
	var cases []Case
	for i := 0; i < n; i++ {
		g := newG(r)
		malformed := i%10 == 9
		if malformed && r.Intn(2) == 0 {
			g.VarData = true
		}
		var data interface{} = g.event()
		if r.Intn(8) == 0 {
			data = g.value(2)
		}
		pg := &patGen{g: g, vars: []string{"?x", "?y", "?z", "?w"}, pRepeat: 0.25, pVar: 0.35, pDrop: 0.3, arrayVar: true}
		pat := pg.derive(data, true)
		if r.Intn(4) == 0 {
			pat = g.mutate(pat)
		}
		if !malformed && r.Intn(40) == 0 {
			pat = map[string]interface{}{} // the empty pattern: matches every map, binds nothing
		}
		bs := map[string]interface{}{}
		if r.Intn(4) == 0 {
			// initial bindings: sometimes consistent with the data, sometimes not
			for _, v := range pg.used {
				if r.Intn(2) == 0 {
					bs[v] = g.scalar()
				}
			}
			if r.Intn(3) == 0 {
				bs["?unused"] = g.scalar()
			}
		}
		if malformed {
			switch r.Intn(5) {
			case 0: // two array variables
				pat = map[string]interface{}{"a": []interface{}{"?x", "?y"}, "b": pat}
			case 1: // property variable with siblings
				if m, ok := pat.(map[string]interface{}); ok {
					m["?p"] = g.scalar()
				}
			case 2: // optional variable
				if m, ok := pat.(map[string]interface{}); ok {
					m[g.Keys[r.Intn(len(g.Keys))]] = "??o"
				}
			case 3: // inequality name
				bs["?<n"] = float64(r.Intn(5))
				if m, ok := pat.(map[string]interface{}); ok {
					m["a"] = "?<n"
				}
			case 4: // property variable alone
				pat = map[string]interface{}{"?p": pg.derive(g.scalar(), false)}
				if r.Intn(2) == 0 {
					if m, ok := data.(map[string]interface{}); ok && len(m) > 0 {
						k := sortedKeys(m)[0]
						pat = map[string]interface{}{"?p": pg.derive(m[k], false)}
					}
				}
			}
		}
		c := Case{"pattern": pat, "data": data, "bindings": bs, "typed_salt": r.Intn(3)}
		if g.VarData {
			c["child"] = true
		}
		cases = append(cases, c)
	}
	return cases
}

func matchOnce(pat, data interface{}, bs map[string]interface{}) (res map[string]interface{}) {
	res = map[string]interface{}{}
	defer func() {
		if x := recover(); x != nil {
			res["panic"] = true
		}
	}()
	var bss []core.Bindings
	var err error
	if bs == nil {
		bss, err = core.Matches(nil, pat, data) // the entry point without initial bindings
	} else {
		bss, err = core.Match(nil, pat, data, core.Bindings(bs))
	}
	res["err"] = err != nil
	out := make([]interface{}, 0, len(bss))
	for _, b := range bss {
		out = append(out, deepCopy(map[string]interface{}(b)))
	}
	res["bss"] = out
	// The returned binding sets belong to the caller, and the engine does write to them
	// (EvalRuleCondition.Do adds ?event, ?location, ?ruleId to the bindings of a `when` match): write
	// to every one of them.  If a result aliases the caller's initial bindings or anything the matcher
	// keeps, the "unmodified" check or a later match shows it.
	for _, b := range bss {
		if b != nil {
			b["?__caller"] = true
		}
	}
	return res
}

func execMatchOne(c Case) {
	pat, data := plain(c["pattern"]), plain(c["data"])
	bs, _ := plain(c["bindings"]).(map[string]interface{})
	if bs == nil {
		bs = map[string]interface{}{}
	}
	p0, d0, b0 := deepCopy(pat), deepCopy(data), deepCopy(bs)
	var results []interface{}
	for k := 0; k < 4; k++ {
		results = append(results, matchOnce(pat, data, bs))
	}
	if len(bs) == 0 {
		results = append(results, matchOnce(pat, data, nil))
	}
	c["results"] = results
	c["unmodified"] = deepEqual(p0, pat) && deepEqual(d0, data) && deepEqual(b0, bs)
	// "every returned binding set is a genuine match": the pattern with a returned binding set
	// substituted (Bindings.Bind, as the `and` of a query does) matches the same data and binds
	// nothing more
	if !boolean(c["child"]) && !hasPropVar(pat) { // (Bind substitutes values, not property names)
		bad := 0
		first, _ := results[0].(map[string]interface{})
		for _, bi := range list(first["bss"]) {
			b := core.Bindings(deepCopy(bi).(map[string]interface{}))
			func() {
				defer func() {
					if x := recover(); x != nil {
						bad++
					}
				}()
				p2 := b.Bind(nil, deepCopy(pat))
				bss, err := core.Match(nil, p2, data, core.Bindings{})
				if err != nil || len(bss) == 0 {
					bad++
					return
				}
				for _, b2 := range bss {
					if len(b2) != 0 {
						bad++
						return
					}
				}
			}()
		}
		c["rebind_bad"] = bad
	}
	// Go-typed twins (core.Map, []string, []core.Map, ...): must give the same
	// answer as the JSON forms and must not be modified (type-sensitively)
	salt := int(num(c["typed_salt"]))
	tp, td := typify(pat, salt), typify(data, salt+1)
	tp0, td0 := typify(pat, salt), typify(data, salt+1)
	tr := matchOnce(tp, td, deepCopy(bs).(map[string]interface{}))
	// (malformed patterns can make the answer depend on Go's map order: agree with ANY of the JSON runs)
	agree := false
	for _, ri := range results {
		jr, _ := ri.(map[string]interface{})
		if boolean(tr["err"]) == boolean(jr["err"]) && boolean(tr["panic"]) == boolean(jr["panic"]) &&
			sameBindingSets(list(tr["bss"]), list(jr["bss"])) {
			agree = true
		}
	}
	c["typed_agree"] = agree
	c["typed_unmodified"] = reflect.DeepEqual(tp, tp0) && reflect.DeepEqual(td, td0)
}

// typify: the same value built from Go types that need core's cast: maps as
// core.Map, arrays of strings as []string, arrays of maps as []core.Map, empty
// arrays as empty typed slices (which type depends on salt).
func typify(v interface{}, salt int) interface{} {
	switch x := v.(type) {
	case map[string]interface{}:
		m := core.Map{}
		for k, y := range x {
			m[k] = typify(y, salt+len(k))
		}
		return m
	case []interface{}:
		if len(x) == 0 {
			switch salt % 3 {
			case 0:
				return []string{}
			case 1:
				return []core.Map{}
			}
			return []interface{}{}
		}
		allStr, allMap := true, true
		for _, y := range x {
			if _, ok := y.(string); !ok {
				allStr = false
			}
			if _, ok := y.(map[string]interface{}); !ok {
				allMap = false
			}
		}
		if allStr {
			out := make([]string, len(x))
			for i, y := range x {
				out[i] = y.(string)
			}
			return out
		}
		if allMap {
			out := make([]core.Map, len(x))
			for i, y := range x {
				out[i] = typify(y, salt+i).(core.Map)
			}
			return out
		}
		out := make([]interface{}, len(x))
		for i, y := range x {
			out[i] = typify(y, salt+i)
		}
		return out
	}
	return v
}

func sameBindingSets(a, b []interface{}) bool {
	key := func(l []interface{}) []string {
		var out []string
		for _, x := range l {
			js, _ := json.Marshal(x)
			out = append(out, string(js))
		}
		sort.Strings(out)
		return out
	}
	ka, kb := key(a), key(b)
	if len(ka) != len(kb) {
		return false
	}
	for i := range ka {
		if ka[i] != kb[i] {
			return false
		}
	}
	return true
}

func execMatch(cases []Case) []Case {
	for _, c := range cases {
		if boolean(c["child"]) {
			runInChild("match", c, func(c Case, kind string) {
				c["results"] = []interface{}{map[string]interface{}{kind: true, "err": false, "bss": []interface{}{}}}
				c["unmodified"] = true
				c["typed_agree"], c["typed_unmodified"] = true, true
			})
			continue
		}
		execMatchOne(c)
	}
	return cases
}

func hasPropVar(v interface{}) bool {
	switch x := v.(type) {
	case map[string]interface{}:
		for k, y := range x {
			if strings.HasPrefix(k, "?") || hasPropVar(y) {
				return true
			}
		}
	case []interface{}:
		for _, y := range x {
			if hasPropVar(y) {
				return true
			}
		}
	}
	return false
}
