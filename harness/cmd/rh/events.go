package main

import (
	"fmt"
	"strings"

	"github.com/Comcast/rulio/core"
)

// Profile "events": rules with conditions and 1-3 actions from the script
// template family; "process" ops run Location.ProcessEvent and report the
// executed leaves of the work tree.

// echoAction: returns its visible variables (the action's environment).
func (t *tplGen) echoAction() string {
	names := []string{"x", "y", "z", "w", "ruleId", "location", "event"}
	fields := map[string]interface{}{}
	var parts []string
	for _, n := range names {
		fields[n] = map[string]interface{}{"t": "opt", "x": n}
		parts = append(parts, fmt.Sprintf(`%s: (typeof %s === "undefined" ? "__unbound" : %s)`, jsLit(n), n, n))
	}
	js := "({" + strings.Join(parts, ", ") + "})"
	t.sem[js] = map[string]interface{}{"t": "obj", "f": fields}
	return js
}

func (t *tplGen) actionCode() string {
	r := t.r
	switch r.Intn(14) {
	case 12, 13:
		// writes to its event: every execution works on its own copy of the event (CopyEvents), so
		// this is invisible to the other executions (whose echo actions return the event they see)
		tag := fmt.Sprintf("t%d", r.Intn(3))
		js := fmt.Sprintf(`event.tag = %s; event.k = "overwritten"; "set-%s"`, jsLit(tag), tag)
		t.sem[js] = map[string]interface{}{"t": "const", "v": "set-" + tag}
		return js
	case 0:
		js := `throw "boom"`
		t.sem[js] = map[string]interface{}{"t": "throw"}
		return js
	case 1:
		if r.Intn(3) == 0 {
			js := `(`
			t.sem[js] = map[string]interface{}{"t": "syntax"}
			return js
		}
		fallthrough
	case 2:
		// a marked constant, so that several actions of one rule differ
		v := fmt.Sprintf("a%d", r.Intn(3))
		js := jsLit(v)
		t.sem[js] = map[string]interface{}{"t": "const", "v": v}
		return js
	default:
		return t.echoAction()
	}
}

func (lg *locGen) eventsRule(o map[string]interface{}) {
	r := lg.r
	tpl := &tplGen{r: r, vars: []string{"x", "y", "z"}, sem: lg.sem}
	qg := &queryGen{lg: lg, tpl: tpl}
	pg := &patGen{g: lg.g, vars: []string{"?x", "?y", "?z"}, pRepeat: 0.1, pVar: 0.35, pDrop: 0.35, arrayVar: true}
	src := lg.events[r.Intn(len(lg.events))]
	p, _ := pg.derive(src, true).(map[string]interface{})
	if p == nil {
		p = map[string]interface{}{}
	}
	for _, v := range pg.used {
		if len(v) > 1 {
			tpl.bound = append(tpl.bound, v[1:])
		}
	}
	rule := map[string]interface{}{"when": map[string]interface{}{"pattern": p}}
	if r.Intn(2) == 0 {
		rule["condition"] = qg.query(2)
	}
	if r.Intn(8) == 0 {
		// an `or` whose disjuncts are code terms returning objects: each disjunct extends ITS OWN copy
		// of the incoming binding, the results are concatenated
		obj1 := func(f, v string) string {
			js := fmt.Sprintf("({%s: %s})", jsLit(f), jsLit(v))
			tpl.sem[js] = map[string]interface{}{"t": "obj", "f": map[string]interface{}{f: map[string]interface{}{"t": "const", "v": v}}}
			return js
		}
		var ds []interface{}
		for i := 0; i < 2+r.Intn(2); i++ {
			ds = append(ds, map[string]interface{}{"code": obj1(pick(r, "x", "y", "z", "w").(string), fmt.Sprintf("v%d", i))})
		}
		if r.Intn(3) == 0 {
			ds = append(ds, qg.query(1))
		}
		cond := map[string]interface{}{"or": ds}
		if r.Intn(3) == 0 {
			cond = map[string]interface{}{"and": []interface{}{cond, qg.query(1)}}
		}
		rule["condition"] = cond
	}
	if r.Intn(8) == 0 {
		// a `when` with an array variable that an event binds SEVERAL ways, and a condition that accepts
		// only one of the binding sets (one rule per element, so that for some rule an accepted set
		// comes after a rejected one whatever the matcher's order): every binding set is walked
		items := map[string]interface{}{"items": []interface{}{"A", "B", "C"}}
		have := false
		for _, e := range lg.events {
			if _, ok := e["items"]; ok {
				have = true
			}
		}
		if !have {
			lg.events = append(lg.events, items)
		}
		el := pick(r, "A", "B", "C").(string)
		js := fmt.Sprintf("x === %s", jsLit(el))
		tpl.sem[js] = map[string]interface{}{"t": "seq", "x": "x", "v": el}
		tpl.bound = append(tpl.bound, "x")
		rule["when"] = map[string]interface{}{"pattern": map[string]interface{}{"items": []interface{}{"?x"}}}
		rule["condition"] = map[string]interface{}{"code": js}
	}
	n := 1 + r.Intn(3)
	if n == 1 && r.Intn(2) == 0 {
		rule["action"] = map[string]interface{}{"code": tpl.actionCode()}
	} else {
		var acts []interface{}
		for i := 0; i < n; i++ {
			acts = append(acts, map[string]interface{}{"code": tpl.actionCode()})
		}
		rule["actions"] = acts
	}
	if r.Intn(5) == 0 {
		rule["policies"] = map[string]interface{}{"serialActions": true}
	}
	o["op"] = "addrule"
	o["rule"] = rule
	o["sem"] = lg.sem
}

func (lg *locGen) processOp(o map[string]interface{}) {
	r := lg.r
	o["op"] = "process"
	ev := deepCopy(lg.events[r.Intn(len(lg.events))]).(map[string]interface{})
	if r.Intn(6) == 0 {
		ev = lg.g.mutate(ev).(map[string]interface{})
	}
	if (r.Intn(25) == 0 || lg.profile == "cronhooks") && len(lg.ids) > 0 {
		// a tick of the cron service: the job's event
		ev = map[string]interface{}{"trigger!": lg.ids[r.Intn(len(lg.ids))]}
	}
	o["event"] = ev
	o["sem"] = lg.sem
}

func execProcess(loc *core.Location, ctx *core.Context, o map[string]interface{}) map[string]interface{} {
	fr, cond := loc.ProcessEvent(ctx, core.Map(plain(o["event"]).(map[string]interface{})))
	if fr == nil || fr.Disposition != core.Complete {
		msg := ""
		if cond != nil {
			msg = cond.Msg
		}
		return map[string]interface{}{"ok": false, "class": classifyErr(fmt.Errorf("%s", msg)), "msg": msg}
	}
	execs := []interface{}{}
	for _, er := range fr.Children {
		for _, erc := range er.Children {
			for _, era := range erc.Children {
				if era.Disposition == nil {
					continue // never executed (the walk stopped before it)
				}
				x := map[string]interface{}{"rule": er.Rule.Id, "code": fmt.Sprint(era.Act.Code),
					"bs": deepCopy(map[string]interface{}(era.Bindings)), "ok": era.Disposition == core.Complete}
				if era.Disposition == core.Complete {
					x["val"] = normValue(era.Value)
				}
				execs = append(execs, x)
			}
		}
	}
	vals := []interface{}{}
	for _, v := range fr.Values {
		vals = append(vals, normValue(v))
	}
	stopped := cond != nil
	return map[string]interface{}{"ok": !stopped, "stopped": stopped, "amb": false, "execs": execs, "values": vals,
		"msg": func() string {
			if cond != nil {
				return cond.Msg
			}
			return ""
		}()}
}

// normValue: values exported from otto (int64, maps of them) as plain JSON values.
func normValue(v interface{}) interface{} {
	switch x := v.(type) {
	case map[string]interface{}:
		m := map[string]interface{}{}
		for k, y := range x {
			m[k] = normValue(y)
		}
		return m
	case core.Map:
		return normValue(map[string]interface{}(x))
	case []interface{}:
		l := make([]interface{}, len(x))
		for i, y := range x {
			l[i] = normValue(y)
		}
		return l
	case int64:
		return float64(x)
	case int:
		return float64(x)
	case float32:
		return float64(x)
	}
	return v
}
