package main

import (
	"encoding/json"
	"fmt"
	"math/rand"
	"sort"
	"sync"
	"sync/atomic"
	"time"

	"github.com/Comcast/rulio/core"
	"github.com/Comcast/rulio/sys"
)

// Domain "loc-cache": the same history through three sys.Systems that differ
// only in the location-cache TTL (never, 1ms, forever); the observations of
// the "forever" system are replayed through the location model (CorrLoc),
// any difference between the three is recorded per op ("ttl_mismatch").
// With existence checking on, a ghost location that is never created must
// fail without being created.  A stress phase issues N concurrent first
// requests and counts OpenLocation calls.

func init() {
	register("loc-cache", &Domain{Exec: execCache, Gen: func(r *rand.Rand, n int, tier string) []Case {
		var cases []Case
		for i := 0; i < n; i++ {
			c := genLocCase(r, "cache")
			c["check"] = r.Intn(2) == 0
			kind := pick(r, "indexed", "linear").(string)
			for _, li := range list(c["locs"]) {
				l := obj(li)
				l["kind"] = kind // one System has one state kind
				l["hooks"] = true
				l["persistent"] = true
			}
			if r.Intn(4) == 0 {
				c["stress"] = 8 + r.Intn(9)
			}
			cases = append(cases, c)
		}
		return cases
	}})
}

func newCacheSystem(ttl time.Duration, check bool, linear bool) (*sys.System, *core.Context, error) {
	ctx := core.NewContext("rh")
	ctx.Verbosity = core.NOTHING
	conf := sys.ExampleConfig()
	conf.CheckExistence = check
	conf.UnindexedState = linear
	cont := sys.ExampleSystemControl()
	cont.LocationTTL = ttl
	cont.DefaultLocControl = &core.Control{MaxFacts: 1000, Verbosity: core.NOTHING}
	s, err := sys.NewSystem(ctx, *conf, *cont, &recCronner{persistent: true})
	if err != nil {
		return nil, nil, err
	}
	ctx.SetLogValue("app.id", "rh")
	return s, ctx, nil
}

func canonRes(res map[string]interface{}) string {
	r := deepCopy(res).(map[string]interface{})
	delete(r, "msg")
	if l, ok := r["found"].([]interface{}); ok {
		for _, x := range l {
			if m, ok := x.(map[string]interface{}); ok {
				if f, ok := m["fact"].(map[string]interface{}); ok {
					if _, have := f["!createdAt"]; have {
						f["!createdAt"] = "T" // the creation time differs between the twin systems
					}
				}
			}
		}
	}
	for _, k := range []string{"found", "children", "bss"} {
		if l, ok := r[k].([]interface{}); ok {
			var ss []string
			for _, x := range l {
				if m, ok := x.(map[string]interface{}); ok {
					if b, ok := m["bss"].([]interface{}); ok {
						var bs []string
						for _, y := range b {
							js, _ := json.Marshal(y)
							bs = append(bs, string(js))
						}
						sort.Strings(bs)
						m["bss"] = bs
					}
				}
				js, _ := json.Marshal(x)
				ss = append(ss, string(js))
			}
			sort.Strings(ss)
			r[k] = ss
		}
	}
	js, _ := json.Marshal(r)
	return string(js)
}

// sysOp: one loc-style op through the System API.
func sysOp(s *sys.System, ctx *core.Context, o map[string]interface{}) map[string]interface{} {
	name := str(o["loc"])
	id := str(o["id"])
	js := func(v interface{}) string { b, _ := json.Marshal(plain(v)); return string(b) }
	var res map[string]interface{}
	defer func() {
		if x := recover(); x != nil {
			res = map[string]interface{}{"ok": false, "class": "panic", "msg": fmt.Sprint(x)}
		}
	}()
	if boolean(o["touch"]) {
		// one more request of the same client just before: when was the location last updated (a read with
		// no observable effect of its own - it opens and releases the cached location like any other)
		s.GetLastUpdatedMem(ctx, name)
	}
	switch str(o["op"]) {
	case "addfact":
		got, err := s.AddFact(ctx, name, id, js(o["fact"]))
		if err != nil {
			return errRes(err)
		}
		res = map[string]interface{}{"ok": true, "id": got}
	case "addrule":
		got, err := s.AddRule(ctx, name, id, js(o["rule"]))
		if err != nil {
			return errRes(err)
		}
		res = map[string]interface{}{"ok": true, "id": got}
	case "remfact":
		if _, err := s.RemFact(ctx, name, id); err != nil {
			return errRes(err)
		}
		res = map[string]interface{}{"ok": true}
	case "remrule":
		if _, err := s.RemRule(ctx, name, id); err != nil {
			return errRes(err)
		}
		res = map[string]interface{}{"ok": true}
	case "getfact":
		got, err := s.GetFact(ctx, name, id)
		if err != nil {
			return errRes(err)
		}
		var v interface{}
		json.Unmarshal([]byte(got), &v)
		res = map[string]interface{}{"ok": true, "val": v}
	case "listrules":
		ids, err := s.ListRules(ctx, name, boolean(o["inherited"]))
		if err != nil {
			return errRes(err)
		}
		sort.Strings(ids)
		out := make([]interface{}, 0, len(ids))
		for _, x := range ids {
			out = append(out, x)
		}
		res = map[string]interface{}{"ok": true, "ids": out}
	case "getrule":
		got, err := s.GetRule(ctx, name, id)
		if err != nil {
			return errRes(err)
		}
		var v interface{}
		json.Unmarshal([]byte(got), &v)
		res = map[string]interface{}{"ok": true, "val": v}
	case "enablerule":
		if err := s.EnableRule(ctx, name, id, boolean(o["enable"])); err != nil {
			return errRes(err)
		}
		res = map[string]interface{}{"ok": true}
	case "clear":
		if err := s.ClearLocation(ctx, name); err != nil {
			return errRes(err)
		}
		res = map[string]interface{}{"ok": true}
	case "setparents":
		var ps []string
		for _, p := range list(o["parents"]) {
			ps = append(ps, str(p))
		}
		if _, err := s.SetParents(ctx, name, ps); err != nil {
			return errRes(err)
		}
		res = map[string]interface{}{"ok": true}
	case "getparents":
		ps, err := s.GetParents(ctx, name)
		if err != nil {
			return errRes(err)
		}
		out := []interface{}{}
		for _, p := range ps {
			out = append(out, p)
		}
		res = map[string]interface{}{"ok": true, "parents": out}
	case "size":
		n, err := s.GetSize(ctx, name)
		if err != nil {
			return errRes(err)
		}
		res = map[string]interface{}{"ok": true, "n": n}
	case "search":
		srs, err := s.SearchFacts(ctx, name, js(o["pattern"]), boolean(o["inherited"]))
		if err != nil {
			return errRes(err)
		}
		found := []interface{}{}
		for _, sr := range srs.Found {
			fe := map[string]interface{}{"id": sr.Id, "bss": bssJSON(sr.Bindingss), "loc": ownerOf(nil, name, sr.Id, boolean(o["inherited"]))}
			if !boolean(o["inherited"]) {
				var parsed interface{}
				if json.Unmarshal([]byte(sr.Js), &parsed) != nil {
					parsed = "<corrupt>"
				}
				fe["fact"] = parsed
			}
			found = append(found, fe)
		}
		res = map[string]interface{}{"ok": true, "found": found}
	case "event":
		fr, err := s.ProcessEvent(ctx, name, js(o["event"]))
		if err != nil || fr == nil || fr.Disposition != core.Complete {
			msg := ""
			if err != nil {
				msg = err.Error()
			} else if fr != nil && fr.Disposition != nil {
				msg = fr.Disposition.Msg
			}
			return map[string]interface{}{"ok": false, "class": classifyErr(fmt.Errorf("%s", msg)), "msg": msg}
		}
		ch := []interface{}{}
		for _, er := range fr.Children {
			// the walk injected ?event/?location/?ruleId into the when-bindings (shared maps)
			var bss []interface{}
			for _, b := range er.Bindingss {
				m := map[string]interface{}{}
				for k, v := range b {
					if k != "?event" && k != "?location" && k != "?ruleId" {
						m[k] = v
					}
				}
				bss = append(bss, m)
			}
			ch = append(ch, map[string]interface{}{"id": er.Rule.Id, "bss": bss})
		}
		res = map[string]interface{}{"ok": true, "children": ch}
	default:
		res = map[string]interface{}{"ok": false, "class": "unknown-op"}
	}
	return res
}

func execCacheCase(c Case) {
	check := boolean(c["check"])
	linear := false
	for _, li := range list(c["locs"]) {
		linear = str(obj(li)["kind"]) == "linear"
	}
	ttls := []time.Duration{sys.Forever, sys.Never, time.Millisecond}
	var systems []*sys.System
	var ctxs []*core.Context
	for _, ttl := range ttls {
		s, ctx, err := newCacheSystem(ttl, check, linear)
		if err != nil {
			c["setup_error"] = err.Error()
			return
		}
		systems = append(systems, s)
		ctxs = append(ctxs, ctx)
	}
	var done []interface{}
	// creation (with existence checking every location but the ghost is created first)
	if check {
		for _, li := range list(c["locs"]) {
			name := str(obj(li)["name"])
			for k, s := range systems {
				if _, err := s.CreateLocation(ctxs[k], name); err != nil {
					c["setup_error"] = "create: " + err.Error()
					return
				}
			}
			// the created marker is an ordinary property fact: hand it to the model
			got, err := systems[0].GetFact(ctxs[0], name, "!.createdAt")
			if err != nil {
				c["setup_error"] = "marker: " + err.Error()
				return
			}
			var v interface{}
			json.Unmarshal([]byte(got), &v)
			now := time.Now().Unix()
			done = append(done, map[string]interface{}{"loc": name, "op": "addfact", "fact": v, "synthetic": true,
				"res": map[string]interface{}{"ok": true, "id": "!.createdAt"}, "fresh": "!.createdAt", "t": now, "t2": now,
				"persistent": true, "cron": []interface{}{}})
		}
	}
	ghostOK := true
	ghostWhy := ""
	for _, oi := range list(c["ops"]) {
		o := obj(oi)
		if boolean(o["synthetic"]) {
			continue
		}
		if str(o["op"]) == "reload" || str(o["op"]) == "setreadonly" || str(o["op"]) == "query" || str(o["op"]) == "process" {
			continue
		}
		o["t"] = time.Now().Unix()
		var results []map[string]interface{}
		for k, s := range systems {
			results = append(results, sysOp(s, ctxs[k], deepCopy(o).(map[string]interface{})))
			if k == 2 {
				time.Sleep(2 * time.Millisecond) // let the 1ms entries expire between requests
			}
		}
		o["t2"] = time.Now().Unix()
		res := results[0]
		base := canonRes(res)
		for k := 1; k < len(results); k++ {
			if canonRes(results[k]) != base {
				res["ttl_mismatch"] = fmt.Sprintf("ttl[%d]=%v: %s %v", k, ttls[k], canonRes(results[k]), results[k]["msg"])
			}
		}
		o["res"] = res
		o["persistent"] = true
		delete(o, "cron")
		done = append(done, o)
		if check && boolean(res["ok"]) && str(o["op"]) == "clear" {
			// ClearLocation marks the location created again: hand the new marker to the model
			if got, err := systems[0].GetFact(ctxs[0], str(o["loc"]), "!.createdAt"); err == nil {
				var v interface{}
				json.Unmarshal([]byte(got), &v)
				now := time.Now().Unix()
				done = append(done, map[string]interface{}{"loc": o["loc"], "op": "addfact", "fact": v, "synthetic": true,
					"res": map[string]interface{}{"ok": true, "id": "!.createdAt"}, "fresh": "!.createdAt", "t": now, "t2": now,
					"persistent": true, "cron": []interface{}{}})
			}
		}
		// ghost probe
		if check && len(done)%7 == 0 {
			for k, s := range systems {
				_, err := s.GetSize(ctxs[k], "ghost")
				_, err2 := s.AddFact(ctxs[k], "ghost", "g1", `{"a":1}`)
				if err == nil || err2 == nil {
					ghostOK, ghostWhy = false, "request to a never-created location succeeded"
				}
				for _, n := range s.GetCachedLocations(ctxs[k]) {
					if n == "ghost" {
						ghostOK, ghostWhy = false, "never-created location is cached"
					}
				}
				if st, err := s.PeekStorage(ctxs[k]); err == nil && st != nil {
					if pairs, _ := st.Load(ctxs[k], "ghost"); len(pairs) > 0 {
						ghostOK, ghostWhy = false, "never-created location has stored records"
					}
				}
			}
		}
	}
	c["ops"] = done
	c["ghost_ok"] = ghostOK
	c["ghost_why"] = ghostWhy
	if n := int(num(c["stress"])); n > 0 {
		s, ctx, err := newCacheSystem(sys.Forever, false, linear)
		if err == nil {
			s.AddFact(ctx, "warm", "w", `{"a":1}`) // create the storage first (lazy)
			before, _ := s.GetStats(ctx)
			b0 := before.NewLocations
			var wg sync.WaitGroup
			start := make(chan bool)
			for i := 0; i < n; i++ {
				wg.Add(1)
				go func() {
					defer wg.Done()
					cx := core.NewContext("rh")
					cx.Verbosity = core.NOTHING
					<-start
					s.GetSize(cx, "S")
				}()
			}
			close(start)
			wg.Wait()
			after, _ := s.GetStats(ctx)
			c["stress_loads"] = int(after.NewLocations - b0)
		}
		// TTL never: requests that OVERLAP in time (each keeps the location busy for 150 ms inside a
		// script) share the one pending instance: a single load
		s, ctx, err = newCacheSystem(sys.Never, false, linear)
		if err == nil {
			s.AddFact(ctx, "warm", "w", `{"a":1}`)
			before, _ := s.GetStats(ctx)
			b0 := before.NewLocations
			var wg sync.WaitGroup
			start := make(chan bool)
			for i := 0; i < n; i++ {
				wg.Add(1)
				go func() {
					defer wg.Done()
					cx := core.NewContext("rh")
					cx.Verbosity = core.NOTHING
					<-start
					s.RunJavascript(cx, "S", "Env.sleep(150000000); 1", nil, nil, nil)
				}()
			}
			close(start)
			wg.Wait()
			after, _ := s.GetStats(ctx)
			c["stress_loads_never"] = int(after.NewLocations - b0)
		}
		// existence checking on, a location that was never created, overlapping first requests (the
		// one that loads is slowed down at its log records so that the others arrive meanwhile):
		// every one of them must fail and nothing may be created or written
		s, ctx, err = newCacheSystem(sys.Forever, true, linear)
		if err == nil {
			s.AddFact(ctx, "warm", "w", `{"a":1}`)
			var wg sync.WaitGroup
			var acks int32
			start := make(chan bool)
			for i := 0; i < n; i++ {
				wg.Add(1)
				go func(i int) {
					defer wg.Done()
					cx := core.NewContext("rh")
					cx.Verbosity = core.EVERYTHING
					cx.Logger = core.BenchLogger
					cx.LogAccumulatorLevel = core.NOTHING
					cx.LogHook = func(level core.LogLevel, args ...interface{}) {
						if len(args) > 1 {
							if op, _ := args[1].(string); op == "System.OpenLocation" || op == "System.newLocation" {
								time.Sleep(20 * time.Millisecond)
							}
						}
					}
					<-start
					if _, err := s.AddFact(cx, "G", fmt.Sprintf("g%d", i), `{"a":1}`); err == nil {
						atomic.AddInt32(&acks, 1)
					}
				}(i)
			}
			close(start)
			wg.Wait()
			if _, err := s.GetSize(ctx, "G"); err == nil {
				atomic.AddInt32(&acks, 100) // the ghost location exists now
			}
			c["ghost_stress_acks"] = int(atomic.LoadInt32(&acks))
		}
	}
}

func execCache(cases []Case) []Case {
	sem := make(chan bool, 16)
	var wg sync.WaitGroup
	for _, c := range cases {
		wg.Add(1)
		sem <- true
		go func(c Case) {
			defer func() { <-sem; wg.Done() }()
			execCacheCase(c)
		}(c)
	}
	wg.Wait()
	return cases
}
