package main

import (
	"errors"
	"fmt"
	"os"
	"path/filepath"
	"sync"

	"github.com/Comcast/rulio/core"
	"github.com/Comcast/rulio/storage/bolt"
)

// failStorage wraps a Storage and makes the n-th mutating/loading call made
// after it is armed fail (before it has any effect), once.
type failStorage struct {
	core.Storage
	mu    sync.Mutex
	n     int
	count int
	armed bool
	fired bool
}

var errInjected = errors.New("injected storage failure")

func (f *failStorage) hit() error {
	f.mu.Lock()
	defer f.mu.Unlock()
	if !f.armed {
		return nil
	}
	c := f.count
	f.count++
	if c == f.n {
		f.fired = true
		return errInjected
	}
	return nil
}

func (f *failStorage) takeFired() bool {
	f.mu.Lock()
	defer f.mu.Unlock()
	x := f.fired
	f.fired = false
	return x
}

func (f *failStorage) Load(ctx *core.Context, loc string) ([]core.Pair, error) {
	if err := f.hit(); err != nil {
		return nil, err
	}
	return f.Storage.Load(ctx, loc)
}
func (f *failStorage) Add(ctx *core.Context, loc string, data *core.Pair) error {
	if err := f.hit(); err != nil {
		return err
	}
	return f.Storage.Add(ctx, loc, data)
}
func (f *failStorage) Remove(ctx *core.Context, loc string, k []byte) (int64, error) {
	if err := f.hit(); err != nil {
		return 0, err
	}
	return f.Storage.Remove(ctx, loc, k)
}
func (f *failStorage) Clear(ctx *core.Context, loc string) (int64, error) {
	if err := f.hit(); err != nil {
		return 0, err
	}
	return f.Storage.Clear(ctx, loc)
}
func (f *failStorage) Delete(ctx *core.Context, loc string) error {
	if err := f.hit(); err != nil {
		return err
	}
	return f.Storage.Delete(ctx, loc)
}

// newStorage: "mem" or "bolt" (a temp file outside /repo and /verif; the
// returned cleanup removes it).
func newStorage(kind string) (core.Storage, func(), error) {
	if kind == "bolt" {
		dir, err := os.MkdirTemp("", "rh-bolt-")
		if err != nil {
			return nil, nil, err
		}
		ctx := core.NewContext("rh")
		ctx.Verbosity = core.NOTHING
		st, err := bolt.NewStorage(ctx, filepath.Join(dir, "loc.db"))
		if err != nil {
			os.RemoveAll(dir)
			return nil, nil, err
		}
		return st, func() { st.Close(ctx); os.RemoveAll(dir) }, nil
	}
	st, err := core.NewMemStorage(nil)
	return st, func() {}, err
}

var _ = fmt.Sprint
