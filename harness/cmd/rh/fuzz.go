package main

import (
	"fmt"
	"os"
	"strconv"
	"strings"
)

// Profile "fuzz" (C13): well-formed JSON of unusual shape in every position
// (fact, rule, pattern, query, event), each followed by ordinary traffic on
// the same location.  Every case runs in a child process that journals the
// index of the operation it is about to execute, so that a crash, a stack
// overflow or a hang is attributed to an operation.

func (lg *locGen) weird(depth int) interface{} {
	r := lg.r
	switch r.Intn(16) {
	case 0:
		return nil
	case 1:
		return r.Intn(2) == 0
	case 2:
		return float64(r.Intn(7) - 3)
	case 3:
		return pick(r, "", "x", "?x", "??o", "?", "?<n", "?!=n", "rule", "!p", "id").(string)
	case 4:
		return []interface{}{}
	case 5:
		return map[string]interface{}{}
	case 6:
		return []interface{}{1.0, "a", nil, true}
	case 7:
		if depth > 0 {
			return []interface{}{lg.weird(depth - 1), lg.weird(depth - 1)}
		}
		return "leaf"
	case 8:
		if depth > 0 {
			return map[string]interface{}{pick(r, "a", "?k", "rule", "when", "pattern", "id", "ttl", "expires", "deleteWith", "!p").(string): lg.weird(depth - 1)}
		}
		return 1.0
	case 9:
		// deep nesting
		var v interface{} = "deep"
		n := 20 + r.Intn(40)
		for i := 0; i < n; i++ {
			if r.Intn(2) == 0 {
				v = []interface{}{v}
			} else {
				v = map[string]interface{}{"a": v}
			}
		}
		return v
	case 10:
		return strings.Repeat("y", 1100)
	default:
		return lg.g.scalar()
	}
}

func (lg *locGen) fuzzFact() map[string]interface{} {
	r := lg.r
	f := lg.g.event()
	n := 1 + r.Intn(2)
	for i := 0; i < n; i++ {
		k := pick(r, "rule", "rule", "expires", "ttl", "deleteWith", "id", "!p", "!q", "when", "?v", "a", "trigger!", "evaluate!").(string)
		f[k] = lg.weird(2)
		if k == "rule" && r.Intn(2) == 0 {
			f[k] = lg.fuzzRule()
		}
	}
	return f
}

func (lg *locGen) fuzzRule() map[string]interface{} {
	r := lg.r
	rule := rulePat(lg.pattern(lg.events[r.Intn(len(lg.events))]))
	n := 1 + r.Intn(2)
	for i := 0; i < n; i++ {
		k := pick(r, "when", "when", "schedule", "action", "actions", "condition", "expires", "ttl", "deleteWith", "policies", "once", "props", "id").(string)
		switch r.Intn(4) {
		case 0:
			delete(rule, k)
		default:
			rule[k] = lg.weird(2)
			if k == "when" && r.Intn(2) == 0 {
				rule[k] = map[string]interface{}{"pattern": lg.weird(2)}
			}
		}
	}
	return rule
}

func (lg *locGen) fuzzOp() []interface{} {
	r := lg.r
	loc := lg.locs[r.Intn(len(lg.locs))]
	id := lg.ids[r.Intn(len(lg.ids))]
	o := map[string]interface{}{"loc": loc}
	if r.Intn(12) == 0 {
		// a SCHEDULED rule (AddFact does not validate: it may have a `when` too) whose `when` the rule
		// index cannot sort: it is not in the index, so it can be stored, replaced and removed like
		// anything else (D66: the indexed state used to look for it in the index when it left, failed
		// with "... is not sortable" and kept the rule for good)
		stuck := func() map[string]interface{} {
			return map[string]interface{}{"rule": map[string]interface{}{
				"schedule": "+1h",
				"when":     map[string]interface{}{"pattern": map[string]interface{}{"a": []interface{}{map[string]interface{}{}, map[string]interface{}{}}}},
				"action":   map[string]interface{}{"code": "1"}}}
		}
		ops := []interface{}{map[string]interface{}{"loc": loc, "op": "addfact", "id": id, "fact": stuck()}}
		if r.Intn(2) == 0 {
			ops = append(ops, map[string]interface{}{"loc": loc, "op": "addfact", "id": id, "fact": stuck()}) // replaced by itself
		}
		return append(ops,
			map[string]interface{}{"loc": loc, "op": "remfact", "id": id},
			map[string]interface{}{"loc": loc, "op": "getfact", "id": id})
	}
	switch r.Intn(9) {
	case 0, 1:
		o["op"], o["id"], o["fact"] = "addfact", id, lg.fuzzFact()
		if r.Intn(12) == 0 {
			// a property fact written directly: the location becomes its own parent (or the child of nobody known)
			o["fact"] = map[string]interface{}{"!parents": []interface{}{pick(r, loc, loc, "nowhere", 5.0)}}
		}
	case 2, 3:
		o["op"], o["id"], o["rule"] = "addrule", id, lg.fuzzRule()
		o["sem"] = map[string]interface{}{}
	case 4:
		o["op"], o["inherited"] = "search", r.Intn(2) == 0
		p, _ := lg.weird(3).(map[string]interface{})
		if p == nil {
			p = map[string]interface{}{pick(r, "a", "?k", "b").(string): lg.weird(2)}
		}
		o["pattern"] = p
	case 5:
		o["op"] = "event"
		ev := lg.fuzzFact()
		o["event"] = ev
		o["sem"] = map[string]interface{}{}
	case 6:
		o["op"], o["id"] = pick(r, "getfact", "getrule", "remfact", "remrule").(string), pick(r, id, "", "?x", "!.p", "!"+id+".disabled").(string)
		if r.Intn(4) == 0 {
			delete(o, "id")
			o["op"], o["inherited"] = "listrules", r.Intn(2) == 0
		}
	case 7:
		o["op"] = "query"
		q, _ := lg.weird(3).(map[string]interface{})
		if q == nil {
			q = map[string]interface{}{pick(r, "and", "or", "not", "pattern", "code", "shortCircuit", "locations").(string): lg.weird(2)}
		}
		sem := map[string]interface{}{}
		if _, has := q["code"]; has {
			// scripts with a known meaning (the model does not interpret JavaScript)
			switch r.Intn(7) {
			case 0:
				q["code"] = ""
				sem[""] = map[string]interface{}{"t": "const", "v": nil}
			case 1:
				q["code"] = "10"
				sem["10"] = map[string]interface{}{"t": "const", "v": 10.0}
			case 2:
				q["code"] = "x"
				sem["x"] = map[string]interface{}{"t": "var", "x": "x"}
			case 3:
				q["code"] = "("
				sem["("] = map[string]interface{}{"t": "syntax"}
			case 4:
				q["code"] = []interface{}{}
				sem[""] = map[string]interface{}{"t": "const", "v": nil}
			case 5:
				q["code"] = []interface{}{"1", "true"}
				sem["1\ntrue\n"] = map[string]interface{}{"t": "const", "v": true}
			default:
				q["code"] = pick(r, 5.0, true, nil, map[string]interface{}{}, []interface{}{1.0})
			}
		}
		o["query"] = q
		o["sem"] = sem
	default:
		o["op"], o["enable"], o["id"] = "enablerule", r.Intn(2) == 0, pick(r, id, "", "?x").(string)
	}
	// ordinary traffic afterwards: the location keeps serving
	cid := fmt.Sprintf("c%d", r.Intn(3))
	canary := []interface{}{
		map[string]interface{}{"loc": loc, "op": "addfact", "id": cid, "fact": map[string]interface{}{"canary": cid, "n": float64(r.Intn(3))}},
		map[string]interface{}{"loc": loc, "op": "getfact", "id": cid},
		map[string]interface{}{"loc": loc, "op": "search", "inherited": false, "pattern": map[string]interface{}{"canary": "?c"}},
	}
	return append([]interface{}{o}, canary...)
}

func journal(k int) {
	if p := journalPath; p != "" {
		os.WriteFile(p, []byte(strconv.Itoa(k)), 0600)
	}
}

var journalPath string
