package main

import (
	"fmt"
	"math/rand"
	"os"
	"sync"
	"time"

	"github.com/Comcast/rulio/core"
	"github.com/Comcast/rulio/sys"
)

// Domains "conc-one" (C12: K clients on ONE location, shared ids) and
// "conc-loc" (C11: K clients, one location each, created concurrently from a
// cold start).  Every op records its invocation and response instants
// (monotonic ns); after quiescence the final state is observed through the
// live location and through a location rebuilt from the storage.  Each case
// runs in a child process: a fatal runtime error ("concurrent map writes") or
// a deadlock is an observation.

func init() {
	register("conc-one", &Domain{Gen: func(r *rand.Rand, n int, tier string) []Case { return genConc(r, n, false) }, Exec: execConc})
	register("conc-loc", &Domain{Gen: func(r *rand.Rand, n int, tier string) []Case { return genConc(r, n, true) }, Exec: execConc})
}

func genConc(r *rand.Rand, n int, separate bool) []Case {
	var cases []Case
	for i := 0; i < n; i++ {
		g := newG(r)
		kind := pick(r, "indexed", "linear").(string)
		k := 2 + r.Intn(2)
		ids := []string{"i0", "i1", "i2"}
		vals := []interface{}{"x", "y", "z"}
		var locs []interface{}
		if separate {
			for c := 0; c < k; c++ {
				locs = append(locs, map[string]interface{}{"name": fmt.Sprintf("L%d", c), "kind": kind})
			}
		} else {
			locs = append(locs, map[string]interface{}{"name": "L0", "kind": kind})
		}
		mkop := func(loc string) map[string]interface{} {
			id := ids[r.Intn(len(ids))]
			o := map[string]interface{}{"loc": loc}
			switch r.Intn(12) {
			case 0, 1, 2, 3:
				o["op"], o["id"] = "addfact", id
				o["fact"] = map[string]interface{}{"k": vals[r.Intn(len(vals))], "n": float64(r.Intn(3))}
			case 4:
				o["op"], o["id"] = "remfact", id
			case 5, 6:
				o["op"], o["id"] = "getfact", id
			case 7:
				o["op"], o["inherited"] = "search", false
				o["pattern"] = map[string]interface{}{"k": pick(r, "?v", "x", "y")}
				if r.Intn(6) == 0 {
					// a search that ends in an ERROR (the indexed state refuses a pattern without a constant
					// term, D8): its error path must leave the state's lock as it found it
					o["pattern"] = map[string]interface{}{"?p": "?v"}
				}
			case 8, 9:
				o["op"], o["id"] = "addrule", "r"+id
				rule := rulePat(map[string]interface{}{"k": pick(r, "?v", "x", "y")})
				if r.Intn(3) == 0 {
					rule["expires"] = 4102444800.0 // 2100-01-01: ExtractRule copies it into the rule body on every dispatch
				}
				o["rule"] = rule
			case 10:
				o["op"], o["id"] = "remrule", "r"+id
			default:
				o["op"] = "event"
				o["event"] = map[string]interface{}{"k": vals[r.Intn(len(vals))]}
			}
			return o
		}
		var setup []interface{}
		if !separate {
			for j := 0; j < r.Intn(3); j++ {
				o := mkop("L0")
				setup = append(setup, o)
			}
		}
		// 1 case in 6 (one location): a fact and a rule that expire just before the clients are
		// released, so that the first reads of several clients find them expired at the same time
		// (the purge of expired items happens inside Get / Search / FindRules)
		expiring := !separate && r.Intn(6) == 0
		if expiring {
			setup = append(setup,
				map[string]interface{}{"loc": "L0", "op": "addfact", "id": "i0", "expires_in": 2.0,
					"fact": map[string]interface{}{"k": "x", "n": 1.0}},
				map[string]interface{}{"loc": "L0", "op": "addrule", "id": "ri1", "expires_in": 2.0,
					"rule": rulePat(map[string]interface{}{"k": "?v"})})
		}
		var clients []interface{}
		for c := 0; c < k; c++ {
			loc := "L0"
			if separate {
				loc = fmt.Sprintf("L%d", c)
			}
			var ops []interface{}
			if expiring {
				switch r.Intn(3) {
				case 0:
					ops = append(ops, map[string]interface{}{"loc": loc, "op": "search", "inherited": false, "pattern": map[string]interface{}{"k": "?v"}})
				case 1:
					ops = append(ops, map[string]interface{}{"loc": loc, "op": "getfact", "id": pick(r, "i0", "ri1")})
				default:
					ops = append(ops, map[string]interface{}{"loc": loc, "op": "event", "event": map[string]interface{}{"k": "x"}})
				}
			}
			for j := 0; j < 2+r.Intn(3); j++ {
				ops = append(ops, mkop(loc))
			}
			clients = append(clients, ops)
		}
		_ = g
		cases = append(cases, Case{"locs": locs, "setup": setup, "clients": clients, "ids": []interface{}{"i0", "i1", "i2", "ri0", "ri1", "ri2"},
			"separate": separate, "child": true, "expiring": expiring})
	}
	return cases
}

func execConc(cases []Case) []Case {
	if os.Getenv("RH_CHILD") == "1" {
		for _, c := range cases {
			execConcCase(c)
		}
		return cases
	}
	sem := make(chan bool, 12)
	var wg sync.WaitGroup
	for _, c := range cases {
		wg.Add(1)
		sem <- true
		go func(c Case) {
			defer func() { <-sem; wg.Done() }()
			dom := "conc-one"
			if boolean(c["separate"]) {
				dom = "conc-loc"
			}
			runInChild(dom, c, func(c Case, kind string) {
				c["crashed"] = kind // "panic" (fatal runtime error / exit) or "hang"
			})
		}(c)
	}
	wg.Wait()
	return cases
}

func execConcCase(c Case) {
	w := &locWorld{stores: map[string]core.Storage{}, kinds: map[string]string{}, maxes: map[string]int{},
		fails: map[string]*failStorage{}, cronners: map[string]*recCronner{},
		provider: core.NewSimpleLocationProvider(map[string]*core.Location{})}
	var mu sync.Mutex // guards the provider registry during concurrent opens
	for _, li := range list(c["locs"]) {
		l := obj(li)
		name := str(l["name"])
		st, _ := core.NewMemStorage(nil)
		w.stores[name] = st
		w.kinds[name] = str(l["kind"])
	}
	separate := boolean(c["separate"])
	if separate {
		execConcSystem(c)
		return
	}
	if !separate {
		for name := range w.stores {
			if err := w.open(name); err != nil {
				c["setup_error"] = err.Error()
				return
			}
		}
		var wait time.Time
		for _, oi := range list(c["setup"]) {
			o := obj(oi)
			if in, timed := o["expires_in"]; timed {
				// an absolute expiry (whole seconds), stamped now so that the model sees the same value
				at := float64(time.Now().Unix() + num(in))
				delete(o, "expires_in")
				key := "fact"
				if _, isRule := o["rule"]; isRule {
					key = "rule"
				}
				obj(o[key])["expires"] = at
				if t := time.Unix(int64(at), 0).Add(1150 * time.Millisecond); t.After(wait) {
					wait = t
				}
			}
			execLocOp(w, o)
		}
		if !wait.IsZero() {
			time.Sleep(time.Until(wait))
		}
	}
	start := time.Now()
	var wg sync.WaitGroup
	gate := make(chan bool)
	for _, ci := range list(c["clients"]) {
		ops := list(ci)
		wg.Add(1)
		go func(ops []interface{}) {
			defer wg.Done()
			<-gate
			for _, oi := range ops {
				o := obj(oi)
				if separate {
					// cold start: the client opens its own location on first use
					mu.Lock()
					_, have := w.provider.Registry[str(o["loc"])]
					if !have {
						w.open(str(o["loc"]))
					}
					mu.Unlock()
				}
				o["inv"] = time.Since(start).Nanoseconds()
				execLocOp(w, o)
				o["ret"] = time.Since(start).Nanoseconds()
			}
		}(ops)
	}
	close(gate)
	done := make(chan bool)
	go func() { wg.Wait(); close(done) }()
	select {
	case <-done:
	case <-time.After(6 * time.Second):
		c["crashed"] = "hang"
		return
	}
	// final observations: live, then rebuilt from storage
	observe := func() []interface{} {
		var out []interface{}
		for name := range w.stores {
			for _, id := range list(c["ids"]) {
				o := map[string]interface{}{"loc": name, "op": "getfact", "id": str(id)}
				execLocOp(w, o)
				out = append(out, o)
			}
			o := map[string]interface{}{"loc": name, "op": "size"}
			execLocOp(w, o)
			out = append(out, o)
			// what a dispatch sees at the end (the parsed-rule cache must agree with the stored rules)
			for _, v := range []string{"x", "y"} {
				e := map[string]interface{}{"loc": name, "op": "event", "event": map[string]interface{}{"k": v}}
				execLocOp(w, e)
				out = append(out, e)
			}
		}
		return out
	}
	c["final"] = observe()
	for name := range w.stores {
		w.open(name)
	}
	c["final_store"] = observe()
}

// execConcSystem (C11): K clients, one location each, through ONE sys.System
// from a cold start (the very first requests create the storage, the cache
// entries and the locations concurrently).
func execConcSystem(c Case) {
	linear := false
	for _, li := range list(c["locs"]) {
		linear = str(obj(li)["kind"]) == "linear"
		obj(li)["hooks"] = true
		obj(li)["persistent"] = true
	}
	s, _, err := newCacheSystem(sys.Forever, false, linear)
	if err != nil {
		c["setup_error"] = err.Error()
		return
	}
	start := time.Now()
	var wg sync.WaitGroup
	gate := make(chan bool)
	for _, ci := range list(c["clients"]) {
		ops := list(ci)
		wg.Add(1)
		go func(ops []interface{}) {
			defer wg.Done()
			cx := core.NewContext("rh")
			cx.Verbosity = core.NOTHING
			<-gate
			for _, oi := range ops {
				o := obj(oi)
				o["t"] = time.Now().Unix()
				o["inv"] = time.Since(start).Nanoseconds()
				o["res"] = sysOp(s, cx, deepCopy(o).(map[string]interface{}))
				o["ret"] = time.Since(start).Nanoseconds()
				o["t2"] = time.Now().Unix()
			}
		}(ops)
	}
	close(gate)
	done := make(chan bool)
	go func() { wg.Wait(); close(done) }()
	select {
	case <-done:
	case <-time.After(6 * time.Second):
		c["crashed"] = "hang"
		return
	}
	cx := core.NewContext("rh")
	cx.Verbosity = core.NOTHING
	var out []interface{}
	for _, li := range list(c["locs"]) {
		name := str(obj(li)["name"])
		for _, id := range list(c["ids"]) {
			o := map[string]interface{}{"loc": name, "op": "getfact", "id": str(id), "t": time.Now().Unix()}
			o["res"] = sysOp(s, cx, o)
			o["t2"] = o["t"]
			out = append(out, o)
		}
		o := map[string]interface{}{"loc": name, "op": "size", "t": time.Now().Unix()}
		o["res"] = sysOp(s, cx, o)
		o["t2"] = o["t"]
		out = append(out, o)
	}
	c["final"] = out
	c["final_store"] = []interface{}{}
}
