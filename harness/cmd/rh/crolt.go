package main

import (
	"bufio"
	"encoding/json"
	"fmt"
	"io"
	"math/rand"
	"os"
	"os/exec"
	"path/filepath"
	"strings"
	"sync"
	"time"
)

// Domain "crolt": the Bolt-backed cron service (crolt, package main) driven
// as a child process through the verif-tagged line driver
// (crolt/verif_driver.go): one process and one temporary Bolt file per case.
// After every operation all buckets are scanned; a "reopen" closes the file
// and opens it again (a restart).
//
// The driver is built once per run from the repository's working tree
// (VERIF_REPO, default /repo) with -tags verif.  If the hook file is not in
// the tree yet, the copy shipped with the framework (hooks/crolt/verif_driver.go,
// or $VERIF_CROLT_HOOK) is added with `go build -overlay`, which leaves the
// tree untouched.

func init() {
	register("crolt", &Domain{Gen: genCrolt, Exec: execCrolt})
}

const croltURL = "http://127.0.0.1:1/verif" // closed port: Job.Do fails fast

func genCrolt(r *rand.Rand, n int, tier string) []Case {
	accounts := []string{"homer", "homer2", "ab", "abc", "x"} // (names that are prefixes of one another: same partition, adjacent keys)
	ids := []string{"1", "2", "3"}
	var cases []Case
	for i := 0; i < n; i++ {
		parts := int64([]int{1, 2, 2, 4}[r.Intn(4)])
		ttl := int64(300)
		scen := i % 8
		var ops []interface{}
		add := func(acc, id, kind string, extra map[string]interface{}) {
			o := map[string]interface{}{"op": "add", "account": acc, "id": id, "kind": kind, "url": croltURL,
				"once": false, "evict": false, "tid": ""}
			switch kind {
			case "dur":
				d := int64(100 + 50*r.Intn(5))
				o["schedule"] = fmt.Sprintf("%dms", d)
				o["dur_ms"] = d
			case "far":
				o["kind"] = "dur"
				o["schedule"] = fmt.Sprintf("%dh%dm", 1+r.Intn(5), r.Intn(60))
			case "cron":
				o["schedule"] = "* * * * * * *"
			case "rfc":
				o["schedule"] = "2031-01-02T03:04:05Z"
			default:
				o["schedule"] = "every now and then"
			}
			for k, v := range extra {
				o[k] = v
			}
			ops = append(ops, o)
		}
		pa := func() string { return accounts[r.Intn(2+r.Intn(3))] }
		pi := func() string { return ids[r.Intn(len(ids))] }
		workAll := func(sleep int64) {
			for k, p := range r.Perm(int(parts)) {
				s := int64(0)
				if k == 0 {
					s = sleep
				}
				ops = append(ops, map[string]interface{}{"op": "work", "part": fmt.Sprint(p), "partn": int64(p), "sleep_ms": s})
			}
		}
		randomOps := func(k int) {
			for ; k > 0; k-- {
				switch x := r.Intn(20); {
				case x < 6:
					add(pa(), pi(), "dur", nil)
				case x < 8:
					add(pa(), pi(), "far", nil)
				case x < 10:
					add(pa(), pi(), "cron", nil)
				case x < 11:
					add(pa(), pi(), "cron", map[string]interface{}{"once": true})
				case x < 12:
					add(pa(), pi(), "far", map[string]interface{}{"evict": true})
				case x < 13:
					switch r.Intn(5) {
					case 0:
						add("", pi(), "dur", nil)
					case 1:
						add(pa(), "", "dur", nil)
					case 2:
						add("ho,mer", pi(), "dur", nil)
					case 3:
						add(pa(), pi(), "rfc", nil)
					default:
						add(pa(), pi(), "junk", nil)
					}
				case x < 17:
					ops = append(ops, map[string]interface{}{"op": "delete", "account": pa(), "id": pi()})
				case x < 18:
					ops = append(ops, map[string]interface{}{"op": "deleteAccount", "account": pa()})
				default:
					ops = append(ops, map[string]interface{}{"op": "reopen"})
				}
			}
		}
		switch scen {
		case 5:
			// more than 10 due entries in one partition: work handles 10 per call
			acc := accounts[r.Intn(3)]
			for k := 0; k < 12; k++ {
				add(acc, fmt.Sprintf("j%02d", k), "dur", map[string]interface{}{"schedule": "50ms", "dur_ms": int64(50)})
			}
			randomOps(2)
			workAll(450)
			workAll(0)
			workAll(400)
			workAll(0)
		case 6:
			// an Add that carries the TId of another job (client-controlled field)
			randomOps(2)
			add("homer", "1", "far", nil)
			add("homer", "9", "dur", map[string]interface{}{"steal": "homer,1"})
			if r.Intn(2) == 0 {
				ops = append(ops, map[string]interface{}{"op": "reopen"})
			}
			workAll(450)
			if r.Intn(2) == 0 {
				ops = append(ops, map[string]interface{}{"op": "delete", "account": "homer", "id": "1"})
			}
		default:
			randomOps(3 + r.Intn(5))
			workAll(int64(450 + 50*r.Intn(3)))
			if r.Intn(3) == 0 {
				ops = append(ops, map[string]interface{}{"op": "reopen"})
			}
			randomOps(r.Intn(4))
			// the evict entries written by the first round are due after TTL
			workAll(int64(400 + 50*r.Intn(3)))
			if r.Intn(4) != 0 {
				if r.Intn(2) == 0 {
					ops = append(ops, map[string]interface{}{"op": "reopen"})
				}
				// recurring entries (keys without fraction) are due only
				// once their whole second has passed
				workAll(int64(900 + 100*r.Intn(5)))
				randomOps(r.Intn(3))
			}
			if r.Intn(4) == 0 {
				ops = append(ops, map[string]interface{}{"op": "deleteAccount", "account": pa()})
			}
		}
		cases = append(cases, Case{"partitions": parts, "ttl_ms": ttl, "ops": ops})
	}
	return cases
}

var croltBuild struct {
	once sync.Once
	exe  string
	dir  string
	err  string
}

func croltHookPath() string {
	if p := os.Getenv("VERIF_CROLT_HOOK"); p != "" {
		return p
	}
	exe, err := os.Executable()
	if err != nil {
		return ""
	}
	p := filepath.Join(filepath.Dir(filepath.Dir(exe)), "hooks", "crolt", "verif_driver.go")
	if _, err := os.Stat(p); err != nil {
		return ""
	}
	return p
}

func buildCrolt() {
	repo := os.Getenv("VERIF_REPO")
	if repo == "" {
		repo = "/repo"
	}
	dir, err := os.MkdirTemp("", "rh-crolt-")
	if err != nil {
		croltBuild.err = err.Error()
		return
	}
	croltBuild.dir = dir
	exe := filepath.Join(dir, "crolt")
	args := []string{"build", "-tags", "verif"}
	if _, err := os.Stat(filepath.Join(repo, "crolt", "verif_driver.go")); err != nil {
		hook := croltHookPath()
		if hook == "" {
			croltBuild.err = "crolt/verif_driver.go is not in the repository and no hook copy was found (set VERIF_CROLT_HOOK)"
			return
		}
		ov, _ := json.Marshal(map[string]interface{}{"Replace": map[string]string{
			filepath.Join(repo, "crolt", "verif_driver.go"): hook}})
		ovp := filepath.Join(dir, "overlay.json")
		if err := os.WriteFile(ovp, ov, 0600); err != nil {
			croltBuild.err = err.Error()
			return
		}
		args = append(args, "-overlay", ovp)
	}
	args = append(args, "-o", exe, "./crolt")
	cmd := exec.Command("go", args...)
	cmd.Dir = repo
	env := os.Environ()
	for _, kv := range []string{"GOFLAGS=-mod=mod", "GOPROXY=off", "GOSUMDB=off", "GOTOOLCHAIN=local", "CGO_ENABLED=0"} {
		if os.Getenv(strings.SplitN(kv, "=", 2)[0]) == "" {
			env = append(env, kv)
		}
	}
	cmd.Env = env
	out, err := cmd.CombinedOutput()
	if err != nil {
		msg := string(out)
		if len(msg) > 600 {
			msg = msg[:600]
		}
		croltBuild.err = "go build ./crolt: " + err.Error() + ": " + msg
		return
	}
	croltBuild.exe = exe
}

type croltChild struct {
	cmd *exec.Cmd
	in  io.WriteCloser
	out *bufio.Reader
}

func (ch *croltChild) call(o map[string]interface{}) (map[string]interface{}, error) {
	js, _ := json.Marshal(o)
	if _, err := ch.in.Write(append(js, '\n')); err != nil {
		return nil, err
	}
	type result struct {
		m   map[string]interface{}
		err error
	}
	done := make(chan result, 1)
	go func() {
		line, err := ch.out.ReadBytes('\n')
		if err != nil {
			done <- result{nil, err}
			return
		}
		var m map[string]interface{}
		dec := json.NewDecoder(strings.NewReader(string(line)))
		dec.UseNumber()
		err = dec.Decode(&m)
		done <- result{m, err}
	}()
	select {
	case r := <-done:
		return r.m, r.err
	case <-time.After(20 * time.Second):
		return nil, fmt.Errorf("driver timeout")
	}
}

func execCrolt(cases []Case) []Case {
	croltBuild.once.Do(buildCrolt)
	defer func() {
		if croltBuild.dir != "" {
			os.RemoveAll(croltBuild.dir)
		}
	}()
	if croltBuild.err != "" {
		for _, c := range cases {
			c["build_error"] = croltBuild.err
		}
		return cases
	}
	var wg sync.WaitGroup
	sem := make(chan bool, 24)
	for i, c := range cases {
		wg.Add(1)
		sem <- true
		go func(i int, c Case) {
			defer func() { <-sem; wg.Done() }()
			if err := execCroltCase(i, c); err != nil {
				c["build_error"] = err.Error()
			}
		}(i, c)
	}
	wg.Wait()
	return cases
}

func execCroltCase(i int, c Case) error {
	dir, err := os.MkdirTemp(croltBuild.dir, fmt.Sprintf("case%d-", i))
	if err != nil {
		return err
	}
	defer os.RemoveAll(dir)
	cmd := exec.Command(croltBuild.exe)
	cmd.Dir = dir
	cmd.Env = append(os.Environ(), "VERIF_CROLT_DRIVER=1", "VERIF_CROLT_DB="+filepath.Join(dir, "cron.db"))
	in, err := cmd.StdinPipe()
	if err != nil {
		return err
	}
	outp, err := cmd.StdoutPipe()
	if err != nil {
		return err
	}
	if err := cmd.Start(); err != nil {
		return err
	}
	ch := &croltChild{cmd, in, bufio.NewReaderSize(outp, 1<<20)}
	defer func() {
		in.Close()
		done := make(chan bool, 1)
		go func() { cmd.Wait(); done <- true }()
		select {
		case <-done:
		case <-time.After(5 * time.Second):
			cmd.Process.Kill()
		}
	}()
	res, err := ch.call(map[string]interface{}{"op": "open", "partitions": num(c["partitions"]),
		"ttl_ms": num(c["ttl_ms"]), "jitter_ms": 0})
	if err != nil {
		return err
	}
	if str(res["err"]) != "" {
		return fmt.Errorf("open: %s", str(res["err"]))
	}
	var lastScan map[string]interface{}
	for _, oi := range list(c["ops"]) {
		o := obj(oi)
		send := map[string]interface{}{}
		for k, v := range o {
			send[k] = v
		}
		if aid := str(o["steal"]); aid != "" {
			// the client sends the TId of another job, as read from the service
			tid, at := "", int64(0)
			if lastScan != nil {
				for _, b := range obj(lastScan["buckets"]) {
					for _, e := range list(b) {
						if str(obj(e)["key"]) == aid {
							tid, at = str(obj(e)["tid"]), num(obj(e)["tid_at"])
						}
					}
				}
			}
			send["tid"] = tid
			o["tid"], o["tid_in_at"], o["tid_in_aid"] = tid, at, aid
		}
		res, err := ch.call(send)
		if err != nil {
			return fmt.Errorf("%s: %v", str(o["op"]), err)
		}
		if res["fatal"] != nil {
			return fmt.Errorf("%s: %v", str(o["op"]), res["fatal"])
		}
		o["res"] = res
		scan, err := ch.call(map[string]interface{}{"op": "scan"})
		if err != nil {
			return fmt.Errorf("scan: %v", err)
		}
		o["scan"] = scan
		lastScan = scan
	}
	return nil
}
