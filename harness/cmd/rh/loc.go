package main

import (
	"errors"
	"encoding/json"
	"fmt"
	"os"
	"math/rand"
	"sort"
	"strconv"
	"strings"
	"sync"
	"time"

	"github.com/Comcast/rulio/core"
	"github.com/Comcast/rulio/cron"
)

// Domain "loc": histories of Location operations over several locations
// (indexed and linear state, MemStorage, SimpleLocationProvider).

var locProfiles = []string{"search", "dispatch", "lifecycle", "cascade", "acl", "capacity", "forest", "expiry", "query", "events", "durable", "cronhooks", "fuzz"}

func init() {
	register("loc", &Domain{Gen: genLoc, Exec: execLoc})
	for _, p := range locProfiles {
		prof := p
		register("loc-"+prof, &Domain{Exec: execLoc, Gen: func(r *rand.Rand, n int, tier string) []Case {
			var cases []Case
			for i := 0; i < n; i++ {
				cases = append(cases, genLocCase(r, prof))
			}
			return cases
		}})
	}
}

// ---------------------------------------------------------------- generator

type locGen struct {
	g        *G
	r        *rand.Rand
	profile  string
	ids      []string
	locs     []string
	events   []map[string]interface{} // pool of events; rule patterns are derived from them
	facts    []map[string]interface{}
	keyed    bool
	timeUnit int64
	sem      map[string]interface{} // script table shared by the rules of a case
	rules    map[string]map[string]interface{} // last rule generated per id (for vetoed replacements)
	hooks    bool                              // the locations of this case carry hooks (cron + veto)
	cronTTL  bool                              // cronhooks profile: this case has scheduled rules that expire (with sleeps)
}

func init() {
	_ = cron.AddHooks
}

func rulePat(p interface{}) map[string]interface{} {
	return map[string]interface{}{"when": map[string]interface{}{"pattern": p}, "action": map[string]interface{}{"code": "1"}}
}

func (lg *locGen) pattern(from map[string]interface{}) interface{} {
	pg := &patGen{g: lg.g, vars: []string{"?x", "?y", "?z"}, pRepeat: 0.15, pVar: 0.3, pDrop: 0.35, arrayVar: true}
	p := pg.derive(from, true)
	if lg.r.Intn(6) == 0 {
		p = lg.g.mutate(p)
	}
	if m, ok := p.(map[string]interface{}); ok && lg.r.Intn(25) == 0 && len(m) == 0 {
		return m
	}
	return p
}

func (lg *locGen) fact() map[string]interface{} {
	f := lg.g.event()
	r := lg.r
	switch r.Intn(12) {
	case 0:
		f["k!"] = lg.g.scalar() // value not indexed
	case 1:
		f["long"] = strings.Repeat("x", 1030)
	case 2:
		if lg.profile == "cascade" || lg.profile == "search" {
			f["deleteWith"] = []interface{}{lg.ids[r.Intn(len(lg.ids))]}
		}
	}
	return f
}

func (lg *locGen) op() map[string]interface{} {
	r := lg.r
	loc := lg.locs[r.Intn(len(lg.locs))]
	id := lg.ids[r.Intn(len(lg.ids))]
	o := map[string]interface{}{"loc": loc}
	if lg.keyed {
		o["rk"] = pick(r, "", "rkey", "bad").(string)
		o["wk"] = pick(r, "", "wkey", "bad").(string)
		if r.Intn(2) == 0 {
			o["rk"], o["wk"] = "rkey", "wkey"
		}
	}
	w := map[string][]int{
		//            addfact addrule remfact remrule get getrule search event enable clear setparents getparents size reload special
		"search":    {32, 3, 10, 1, 12, 1, 36, 0, 0, 1, 0, 0, 1, 3, 0, 0, 0},
		"dispatch":  {6, 30, 2, 8, 2, 3, 2, 36, 4, 1, 2, 0, 0, 3, 0, 0, 0},
		"lifecycle": {6, 22, 2, 10, 2, 2, 2, 30, 16, 1, 0, 0, 5, 6, 3, 0, 0},
		"cascade":   {30, 8, 15, 6, 6, 0, 12, 6, 6, 1, 0, 0, 4, 4, 0, 0, 0},
		"acl":       {12, 8, 6, 4, 8, 4, 10, 8, 4, 2, 4, 4, 4, 2, 20, 0, 0},
		"capacity":  {40, 14, 14, 4, 2, 0, 4, 2, 6, 2, 0, 0, 8, 2, 0, 0, 0},
		"forest":    {14, 12, 3, 3, 3, 1, 18, 18, 3, 1, 14, 4, 0, 3, 0, 0, 0},
		"expiry":    {25, 12, 3, 2, 14, 2, 14, 12, 2, 0, 0, 0, 2, 8, 0, 0, 0},
		"query":     {34, 2, 6, 0, 2, 0, 6, 0, 0, 1, 0, 0, 0, 3, 1, 40, 0},
		//            (addrule weight is used for rules with conditions/actions; last column: process)
		"cache":     {26, 12, 8, 5, 8, 3, 12, 10, 4, 1, 3, 2, 3, 0, 3, 0, 0},
		"cronhooks": {14, 34, 8, 14, 2, 2, 2, 3, 3, 3, 0, 0, 1, 8, 0, 0, 6},
		"fuzz":      {1, 1, 1, 1, 1, 1, 1, 1, 1, 1, 1, 1, 1, 1, 1, 1, 1},
		"durable":   {30, 12, 10, 5, 6, 2, 10, 5, 4, 1, 2, 1, 2, 9, 0, 0, 0},
		"events":    {22, 26, 4, 4, 1, 1, 2, 2, 5, 1, 0, 0, 0, 3, 0, 0, 40},
	}[lg.profile]
	total := 0
	for _, x := range w {
		total += x
	}
	n := r.Intn(total)
	k := 0
	for k = range w {
		if n < w[k] {
			break
		}
		n -= w[k]
	}
	switch k {
	case 0:
		o["op"] = "addfact"
		if r.Intn(5) != 0 || lg.profile == "durable" || lg.profile == "cache" || lg.profile == "expiry" || lg.hooks {
			// (durable: a generated id of an add that fails at the storage is not reported back)
			o["id"] = id
		}
		var f map[string]interface{}
		if len(lg.facts) > 0 && r.Intn(3) == 0 {
			f = deepCopy(lg.facts[r.Intn(len(lg.facts))]).(map[string]interface{})
		} else {
			f = lg.fact()
			lg.facts = append(lg.facts, f)
		}
		if lg.profile == "cascade" && r.Intn(2) == 0 {
			n := 1 + r.Intn(2)
			var dw []interface{}
			for i := 0; i < n; i++ {
				dw = append(dw, lg.ids[r.Intn(len(lg.ids))])
			}
			if r.Intn(8) == 0 {
				dw = append(dw, "dangling")
			}
			f["deleteWith"] = dw
			if r.Intn(3) == 0 {
				// the dependent also MENTIONS some id in an ordinary field (the term index returns it
				// for that id too; only the re-match tells a mention from a deleteWith entry)
				f[pick(r, "ref", "owner", "k").(string)] = lg.ids[r.Intn(len(lg.ids))]
			}
		}
		if lg.profile == "expiry" {
			lg.expiry(f)
		}
		if r.Intn(40) == 0 {
			// (with the cron hooks installed - the cronhooks profile, a third of the fuzz and dispatch
			// cases - the add hook rejects the first, second and fourth of these: nothing may be left
			// behind, in the memory or in the storage)
			f["rule"] = pick(r, 5.0, "x", map[string]interface{}{"when": 5.0}, map[string]interface{}{"schedule": 5.0}).(interface{})
		}
		if lg.profile == "search" && o["id"] == id && r.Intn(8) == 0 {
			// an overwrite that the state REFUSES after it has prepared the fact: a rule body without a
			// usable `when` (the rule index refuses it) or, with hooks, a fact the add hook vetoes; the
			// stored fact must stay as it was - and findable by every later search
			f = deepCopy(f).(map[string]interface{})
			if lg.hooks && r.Intn(2) == 0 {
				f["veto"] = true
			} else {
				f["rule"] = pick(r, map[string]interface{}{"when": 5.0}, map[string]interface{}{"action": "1"}).(interface{})
			}
		}
		o["fact"] = f
	case 1:
		o["op"] = "addrule"
		if r.Intn(8) != 0 || lg.profile == "durable" || lg.profile == "cache" || lg.profile == "expiry" || lg.hooks {
			o["id"] = id
		}
		rule := rulePat(lg.pattern(lg.events[r.Intn(len(lg.events))]))
		switch r.Intn(30) {
		case 0:
			delete(rule, "action") // invalid
		case 1:
			rule["when"] = lg.pattern(lg.events[r.Intn(len(lg.events))]) // direct form
		case 2:
			rule["schedule"] = "+1h"
			delete(rule, "when")
		case 3:
			if lg.profile == "cascade" {
				rule["deleteWith"] = []interface{}{lg.ids[r.Intn(len(lg.ids))]}
			}
		case 4:
			// property variable in a rule pattern (D6)
			if lg.profile == "dispatch" {
				rule = rulePat(map[string]interface{}{"?p": lg.g.scalar()})
			}
		}
		if lg.profile == "lifecycle" && r.Intn(5) == 0 {
			// a scheduled (when-less) rule: it runs when the cron service sends {"trigger!": id}
			rule["schedule"] = pick(r, "+1h", "0 0 * * * * *").(string)
			delete(rule, "when")
		}
		if (lg.profile == "dispatch" || lg.profile == "lifecycle") && r.Intn(25) == 0 {
			// an ordinary event rule that also carries an EMPTY schedule (or, rarely, a null one): no
			// schedule to the rule parser, so it must be in the rule index and fire like any other (D66:
			// the indexed state used to leave every rule with a "schedule" member out of the index)
			if _, have := rule["when"]; have {
				rule["schedule"] = pick(r, "", "", "", nil)
				if lg.hooks {
					// (the cron add hook rejects a null schedule AFTER the indexed state has indexed the
					// rule: the undo leaves empty index nodes, which only finding D7 can see - see the
					// note on vetoed rules; with hooks the empty string only)
					rule["schedule"] = ""
				}
			}
		}
		if lg.profile == "cascade" && r.Intn(2) == 0 {
			rule["deleteWith"] = []interface{}{lg.ids[r.Intn(len(lg.ids))]}
			if r.Intn(3) == 0 {
				// a dependent rule with an expiry of its own (far in the future)
				switch r.Intn(3) {
				case 0:
					rule["expires"] = 4102444800.0
				case 1:
					rule["expires"] = "2100-01-01T00:00:00Z"
				default:
					rule["ttl"] = "100000s"
				}
			}
		}
		if lg.profile == "expiry" && r.Intn(2) == 0 {
			lg.expiry(rule)
		}
		if lg.profile == "cronhooks" {
			if r.Intn(3) != 0 {
				rule = lg.scheduledRule()
			}
			if lg.cronTTL && r.Intn(4) != 0 {
				// a scheduled rule that expires: its job must go when it is purged (D28c)
				lg.expiry(rule)
			}
			if r.Intn(3) == 0 {
				rule["deleteWith"] = []interface{}{lg.ids[r.Intn(len(lg.ids))]}
			}
		}
		if lg.hooks && (lg.profile == "dispatch" || lg.profile == "lifecycle") {
			if old, have := lg.rules[id]; have && o["id"] == id && r.Intn(3) == 0 {
				// a replacement that the state's add hook rejects: same `when` (same place in the
				// pattern index), "veto": true; the stored rule must stay as it was - and findable
				// (only such replacements are vetoed: a vetoed rule with a NEW pattern leaves empty nodes in
				// the pattern index - add then undo - which the model's "state unchanged" does not carry and
				// which decide whether an unsortable event is refused, finding D7)
				rule = deepCopy(old).(map[string]interface{})
				if r.Intn(2) == 0 {
					// ... or a SCHEDULED rule (never indexed, whatever its `when`): the roll-back must go
					// by the stored rule, which is an event rule and has to be findable again
					rule["schedule"] = "+1h"
					if r.Intn(2) == 0 {
						delete(rule, "when")
					}
				}
				rule["veto"] = true
			}
			if o["id"] == id && rule["veto"] != true {
				if lg.rules == nil {
					lg.rules = map[string]map[string]interface{}{}
				}
				lg.rules[id] = deepCopy(rule).(map[string]interface{})
			}
		}
		o["rule"] = rule
		if lg.profile == "events" {
			lg.eventsRule(o)
		}
	case 2:
		o["op"], o["id"] = "remfact", id
		if r.Intn(30) == 0 {
			o["id"] = "nosuch"
		}
	case 3:
		o["op"], o["id"] = "remrule", id
	case 4:
		o["op"], o["id"] = "getfact", id
	case 5:
		o["op"], o["id"] = "getrule", id
		switch lg.profile {
		case "forest", "lifecycle", "acl", "dispatch", "cascade", "cache":
			if r.Intn(3) == 0 {
				delete(o, "id")
				o["op"], o["inherited"] = "listrules", r.Intn(2) == 0
			}
		}
	case 6:
		o["op"] = "search"
		var src map[string]interface{}
		if len(lg.facts) > 0 && r.Intn(5) != 0 {
			src = lg.facts[r.Intn(len(lg.facts))]
		} else {
			src = lg.g.event()
		}
		p := lg.pattern(src)
		if r.Intn(25) == 0 {
			p = map[string]interface{}{"?k": lg.g.scalar()}
		}
		o["pattern"] = p
		o["inherited"] = r.Intn(3) == 0
	case 7:
		o["op"] = "event"
		ev := deepCopy(lg.events[r.Intn(len(lg.events))]).(map[string]interface{})
		if r.Intn(5) == 0 {
			ev = lg.g.mutate(ev).(map[string]interface{})
		}
		if lg.profile == "lifecycle" && r.Intn(5) == 0 {
			// a tick of the cron service for one of the rule ids (scheduled or not, enabled or not)
			ev = map[string]interface{}{"trigger!": id}
		}
		o["event"] = ev
	case 8:
		o["op"], o["id"], o["enable"] = "enablerule", id, r.Intn(2) == 0
	case 9:
		o["op"] = "clear"
	case 10:
		o["op"] = "setparents"
		n := r.Intn(3)
		ps := []interface{}{}
		for i := 0; i < n; i++ {
			ps = append(ps, lg.locs[r.Intn(len(lg.locs))])
		}
		if r.Intn(15) == 0 && lg.profile != "cache" {
			// (a System creates unknown parents on demand)
			ps = append(ps, "nowhere")
		}
		o["parents"] = ps
	case 11:
		o["op"] = "getparents"
	case 12:
		o["op"] = "size"
	case 13:
		o["op"] = "reload"
	case 15:
		lg.queryOp(o)
	case 16:
		lg.processOp(o)
	default:
		// property facts that configure the location's gates
		o["op"] = "addfact"
		sel := r.Intn(8)
		if lg.profile == "lifecycle" {
			sel = 7
		}
		if lg.profile == "cache" {
			sel = 8
		}
		switch sel {
		case 8:
			// the location's own cache TTL (ms), well-formed or not: whatever it says, the results of the
			// requests do not depend on it
			o["fact"] = map[string]interface{}{"!cacheTTL": pick(r, 0.0, 1.0, 60000.0, "soon", true, 1.0).(interface{})}
		case 0:
			o["fact"] = map[string]interface{}{"!writeKey": pick(r, "wkey", "wkey", "").(string)}
		case 1:
			o["fact"] = map[string]interface{}{"!readKey": pick(r, "rkey", "rkey", "").(string)}
		case 2:
			// (anything but "", "yes" and "true" disables: unusual spellings included)
			o["fact"] = map[string]interface{}{"!enabled": pick(r, "no", "yes", "true", "false", "no", "yes", "maybe", "0", "Yes", " no", "disabled").(string)}
		case 3:
			o["op"], o["ro"] = "setreadonly", r.Intn(2) == 0
		case 4:
			o["op"], o["id"] = "remfact", pick(r, "!.writeKey", "!.readKey", "!.enabled").(string)
		case 5:
			o["fact"] = map[string]interface{}{"!a": 1.0, "!b": 2.0}
		case 6:
			o["fact"] = map[string]interface{}{"!p": lg.g.scalar(), "id": id}
		default:
			o["fact"] = map[string]interface{}{"!enabled": "no"}
			if r.Intn(2) == 0 {
				o["fact"] = map[string]interface{}{"!enabled": "yes"}
			}
		}
	}
	if lg.timeUnit > 0 && r.Intn(4) == 0 {
		o["sleep"] = lg.timeUnit * int64(1+r.Intn(2))
	}
	return o
}

// expiry adds one of the four encodings; "in" is resolved at exec time
// relative to the clock ("expires_in"/"expires_rfc_in" are rewritten).
func (lg *locGen) expiry(m map[string]interface{}) {
	r := lg.r
	secs := float64(1 + r.Intn(3))
	switch r.Intn(7) {
	case 6:
		// instants at or before the UNIX epoch (an expiry like any other: long past)
		switch r.Intn(4) {
		case 0:
			m["expires"] = -1.0
		case 1:
			m["expires"] = "1969-12-31T23:59:59Z"
		case 2:
			m["ttl"] = -4000000000.0
		default:
			m["expires"] = "1970-01-01T00:00:00Z" // exactly the epoch: 0 means "no expiry" to the engine
		}
	case 0:
		m["ttl"] = secs
	case 1:
		m["ttl"] = fmt.Sprintf("%ds", int(secs))
	case 2:
		m["expires_in"] = secs
	case 3:
		m["expires_rfc_in"] = secs
	case 4:
		m["expires_in"] = float64(-5 + r.Intn(5)) // already expired (or exactly now)
	case 5:
		m["ttl"] = pick(r, "soon", true, 0.0).(interface{})
	}
}

func genLoc(r *rand.Rand, n int, tier string) []Case {
	profiles := locProfiles
	var cases []Case
	for i := 0; i < n; i++ {
		prof := profiles[i%len(profiles)]
		cases = append(cases, genLocCase(r, prof))
	}
	return cases
}

func genLocCase(r *rand.Rand, prof string) Case {
	g := newG(r)
	// (rulePat's action is the script "1": every case's table knows it)
	lg := &locGen{g: g, r: r, profile: prof, sem: map[string]interface{}{"1": map[string]interface{}{"t": "const", "v": 1.0}}}
	nids := 3 + r.Intn(3)
	for k := 0; k < nids; k++ {
		lg.ids = append(lg.ids, fmt.Sprintf("i%d", k))
	}
	if prof == "cascade" && r.Intn(6) == 0 {
		lg.ids = append(lg.ids, "?v") // variable-looking id (D14)
	}
	lg.hooks = (prof == "dispatch" || prof == "search" || prof == "lifecycle") && r.Intn(3) == 0
	fuzzHooks := prof == "fuzz" && r.Intn(3) == 0
	nlocs := 1
	if prof == "forest" {
		nlocs = 3 + r.Intn(2)
	} else if r.Intn(4) == 0 {
		nlocs = 2
	}
	var locs []interface{}
	for k := 0; k < nlocs; k++ {
		name := fmt.Sprintf("L%d", k)
		lg.locs = append(lg.locs, name)
		l := map[string]interface{}{"name": name, "kind": pick(r, "indexed", "linear").(string)}
		if prof == "capacity" {
			l["max"] = 2 + r.Intn(4)
		}
		if prof == "cronhooks" {
			l["hooks"] = true
			l["persistent"] = r.Intn(2) == 0
		}
		if fuzzHooks {
			// (the cron hooks of a System: a rejecting hook is one more error path)
			l["hooks"] = true
			l["persistent"] = true
		}
		if (prof == "dispatch" || prof == "search" || prof == "lifecycle") && lg.hooks {
			l["hooks"] = true
			l["persistent"] = true
		}
		if prof == "expiry" && r.Intn(2) == 0 {
			// a storage fault somewhere in the history: with luck on the purge of an expired item
			l["fail"] = r.Intn(16)
		}
		if prof == "durable" {
			l["storage"] = pick(r, "mem", "bolt").(string)
			if r.Intn(3) != 0 {
				l["fail"] = r.Intn(30)
			}
		}
		locs = append(locs, l)
	}
	for k := 0; k < 4; k++ {
		lg.events = append(lg.events, g.event())
	}
	lg.keyed = prof == "acl"
	nops := 20 + r.Intn(25)
	if prof == "expiry" {
		lg.timeUnit = 1
		nops = 14 + r.Intn(8)
	}
	if prof == "cronhooks" && r.Intn(6) == 0 {
		// one case in six: rules (scheduled or not) that expire within seconds, and sleeps
		lg.cronTTL = true
		lg.timeUnit = 1
		nops = 12 + r.Intn(8)
	}
	var ops []interface{}
	if prof == "fuzz" {
		for k := 0; k < 8+r.Intn(6); k++ {
			ops = append(ops, lg.fuzzOp()...)
		}
		return Case{"profile": prof, "locs": locs, "ops": ops, "child": true}
	}
	if prof == "expiry" && r.Intn(4) == 0 {
		// scripted opening: the storage fails exactly on the purge of an expired item, which a
		// search (or an event, for a rule) is the first to observe
		obj(locs[0])["fail"] = 2
		if r.Intn(2) == 0 {
			ops = append(ops,
				map[string]interface{}{"loc": "L0", "op": "addfact", "id": "e0", "fact": map[string]interface{}{"k": "x", "ttl": 1.0}},
				map[string]interface{}{"loc": "L0", "op": "addfact", "id": "e1", "fact": map[string]interface{}{"k": "x"}},
				map[string]interface{}{"loc": "L0", "op": "search", "inherited": false, "pattern": map[string]interface{}{"k": "?v"}, "sleep": 2})
		} else {
			rule := rulePat(map[string]interface{}{"k": "?v"})
			rule["ttl"] = 1.0
			ops = append(ops,
				map[string]interface{}{"loc": "L0", "op": "addrule", "id": "e0", "rule": rule},
				map[string]interface{}{"loc": "L0", "op": "addrule", "id": "e1", "rule": rulePat(map[string]interface{}{"k": "?v"})},
				map[string]interface{}{"loc": "L0", "op": "event", "event": map[string]interface{}{"k": "x"}, "sleep": 2})
		}
		ops = append(ops,
			map[string]interface{}{"loc": "L0", "op": "getfact", "id": "e0"},
			map[string]interface{}{"loc": "L0", "op": "storeids"},
			map[string]interface{}{"loc": "L0", "op": "reload"},
			map[string]interface{}{"loc": "L0", "op": "storeids"},
			map[string]interface{}{"loc": "L0", "op": "getfact", "id": "e0"})
	}
	if prof == "expiry" && len(ops) == 0 && r.Intn(5) == 0 {
		// scripted opening: a rule expires while it is disabled, is first observed by an event, and is
		// then added again under the same id: the new rule was never disabled and must fire
		ev := map[string]interface{}{"k": "x"}
		short := rulePat(map[string]interface{}{"k": "?v"})
		short["ttl"] = 1.0
		ops = append(ops,
			map[string]interface{}{"loc": "L0", "op": "addrule", "id": "x0", "rule": short},
			map[string]interface{}{"loc": "L0", "op": "enablerule", "id": "x0", "enable": false},
			map[string]interface{}{"loc": "L0", "op": "event", "event": deepCopy(ev), "sleep": 2},
			map[string]interface{}{"loc": "L0", "op": "storeids"},
			map[string]interface{}{"loc": "L0", "op": "addrule", "id": "x0", "rule": rulePat(map[string]interface{}{"k": "?v"})},
			map[string]interface{}{"loc": "L0", "op": "event", "event": deepCopy(ev)},
			map[string]interface{}{"loc": "L0", "op": "storeids"},
			map[string]interface{}{"loc": "L0", "op": "reload"},
			map[string]interface{}{"loc": "L0", "op": "event", "event": deepCopy(ev)})
	}
	if prof == "durable" && r.Intn(4) == 0 {
		// scripted opening: a parent fact with two dependents, then its removal, with the injected
		// storage failure aimed at one of the storage calls of that removal (the parent's own
		// Remove or one of the cascade's), then reads, a reload and the raw storage
		l0 := obj(locs[0])
		l0["fail"] = 3 + r.Intn(3)
		// (a chain p0 <- d0 <- d1, not a fan: the order in which the dependents of ONE id are removed
		// is Go's map order, and a failure in the middle of a fan would leave either of them)
		dep := func(id, on string) map[string]interface{} {
			f := lg.fact()
			f["deleteWith"] = []interface{}{on}
			return map[string]interface{}{"loc": "L0", "op": "addfact", "id": id, "fact": f}
		}
		ops = append(ops,
			map[string]interface{}{"loc": "L0", "op": "addfact", "id": "p0", "fact": lg.fact()},
			dep("d0", "p0"), dep("d1", "d0"),
			map[string]interface{}{"loc": "L0", "op": "remfact", "id": "p0"},
			map[string]interface{}{"loc": "L0", "op": "getfact", "id": "d0"},
			map[string]interface{}{"loc": "L0", "op": "getfact", "id": "d1"},
			map[string]interface{}{"loc": "L0", "op": "storeids"},
			map[string]interface{}{"loc": "L0", "op": "reload"},
			map[string]interface{}{"loc": "L0", "op": "getfact", "id": "d0"},
			map[string]interface{}{"loc": "L0", "op": "getfact", "id": "d1"},
			map[string]interface{}{"loc": "L0", "op": "getfact", "id": "p0"})
	}
	scriptedChild := false
	if prof == "cascade" && r.Intn(8) == 0 {
		scriptedChild = true
		// scripted opening: a chain a0 <- b0 <- c0 (<- a rule) whose MIDDLE link expires without anybody
		// reading it, then the removal of a0: the cascade's search meets the expired link, skips and notes
		// it, and the purge that follows the removal must remove it AND continue the cascade through it;
		// then the raw storage, a reload (sometimes), reads and an event
		mid := lg.fact()
		mid["deleteWith"] = []interface{}{"a0"}
		mid["ttl"] = 1.0
		last := lg.fact()
		last["deleteWith"] = []interface{}{"b0"}
		rule := rulePat(map[string]interface{}{"k": "?v"})
		rule["deleteWith"] = []interface{}{pick(r, "b0", "c0").(string)}
		ops = append(ops,
			map[string]interface{}{"loc": "L0", "op": "addfact", "id": "x0", "fact": lg.fact()},
			map[string]interface{}{"loc": "L0", "op": "addfact", "id": "a0", "fact": lg.fact()},
			map[string]interface{}{"loc": "L0", "op": "addfact", "id": "b0", "fact": mid},
			map[string]interface{}{"loc": "L0", "op": "addfact", "id": "c0", "fact": last},
			map[string]interface{}{"loc": "L0", "op": "addrule", "id": "r0", "rule": rule},
			map[string]interface{}{"loc": "L0", "op": "remfact", "id": "a0", "sleep": 2},
			map[string]interface{}{"loc": "L0", "op": "storeids"})
		if r.Intn(2) == 0 {
			ops = append(ops, map[string]interface{}{"loc": "L0", "op": "reload"},
				map[string]interface{}{"loc": "L0", "op": "storeids"})
		}
		ops = append(ops,
			map[string]interface{}{"loc": "L0", "op": "getfact", "id": "c0"},
			map[string]interface{}{"loc": "L0", "op": "getrule", "id": "r0"},
			map[string]interface{}{"loc": "L0", "op": "event", "event": map[string]interface{}{"k": "x"}},
			map[string]interface{}{"loc": "L0", "op": "storeids"})
	}
	if nlocs > 1 && prof != "forest" {
		ops = append(ops, map[string]interface{}{"loc": "L0", "op": "setparents", "parents": []interface{}{"L1"}})
	}
	for k := 0; k < nops; k++ {
		o := lg.op()
		ops = append(ops, o)
		// the raw contents of the storage are observed too (C06: what a reload will see; C07: expired
		// items are purged from storage once observed): after every reload and now and then
		if prof == "durable" || prof == "expiry" || prof == "cascade" {
			if str(o["op"]) == "reload" || r.Intn(5) == 0 {
				ops = append(ops, map[string]interface{}{"loc": o["loc"], "op": "storeids"})
			}
		}
		if lg.cronTTL && r.Intn(3) == 0 {
			// a read that can meet an expired scheduled rule: the purge must unschedule it
			rd := map[string]interface{}{"loc": o["loc"], "op": "getfact", "id": lg.ids[r.Intn(len(lg.ids))]}
			if r.Intn(2) == 0 {
				rd = map[string]interface{}{"loc": o["loc"], "op": "search", "inherited": false,
					"pattern": map[string]interface{}{"rule": "?r"}}
			}
			if r.Intn(2) == 0 {
				rd["sleep"] = int64(1 + r.Intn(2))
			}
			ops = append(ops, rd)
		}
	}
	if prof == "cache" && nlocs > 1 && r.Intn(2) == 0 {
		// through a System: the parents are taken away again (an EMPTY parent list), and the next
		// inherited search and event must not see the former parent any more
		ops = append(ops, map[string]interface{}{"loc": "L0", "op": "setparents", "parents": []interface{}{}})
		for k := 0; k < 6; k++ {
			o := lg.op()
			if k < 2 {
				o["loc"] = "L0"
			}
			ops = append(ops, o)
		}
	}
	c := Case{"profile": prof, "locs": locs, "ops": ops}
	if scriptedChild {
		c["child"] = true // (a deadlock in the purge that follows the removal must be an observation)
	}
	if prof == "expiry" {
		c["phase10"] = pick(r, 1, 6).(int)
	}
	if prof == "durable" && r.Intn(2) == 0 {
		c["crash"] = true // the process "dies" at the failing storage call: reload right after it
	}
	return c
}

// ---------------------------------------------------------------- executor

func classifyErr(err error) string {
	if err == nil {
		return ""
	}
	switch err.(type) {
	case *core.NotFoundError:
		return "notfound"
	case *core.ExpiredError:
		return "expired"
	}
	if err == core.AncestorLoop {
		return "loop"
	}
	s := err.Error()
	switch {
	case strings.Contains(s, "Location is disabled"):
		return "disabled"
	case strings.Contains(s, "not allowed by key"), s == "Read only":
		return "denied"
	case strings.Contains(s, "capacity limit"):
		return "capacity"
	case strings.Contains(s, "ancestor loop"):
		return "loop"
	case strings.HasPrefix(s, "duplicate id"):
		return "dup"
	}
	return "other"
}

func errRes(err error) map[string]interface{} {
	return map[string]interface{}{"ok": false, "class": classifyErr(err), "msg": err.Error()}
}

// hookCatcher receives the closures cron.AddHooks installs, so that they can be composed.
type hookCatcher struct {
	core.State
	add core.AddHookFn
	rem core.RemHookFn
}

func (h *hookCatcher) AddHook(f core.AddHookFn) { h.add = f }
func (h *hookCatcher) RemHook(f core.RemHookFn) { h.rem = f }

var errVetoed = errors.New("vetoed by the add hook")

type locWorld struct {
	states map[string]core.State // the State behind each open location
	// ctxHook, if set, adjusts the Context execLocOp creates for an operation (conc-steer: log hook)
	ctxHook  func(ctx *core.Context, o map[string]interface{})
	cronners map[string]*recCronner
	ctx      *core.Context
	fails    map[string]*failStorage
	cleanup  []func()
	stores   map[string]core.Storage
	kinds    map[string]string
	maxes    map[string]int
	provider *core.SimpleLocationProvider
}

// storeIds: the ids in the location's storage right now (C08: "the deletions reach storage" is judged
// at the removal itself, on this observation), or nil.
func (w *locWorld) storeIds(ctx *core.Context, name string) interface{} {
	st := w.stores[name]
	if st == nil {
		return nil
	}
	pairs, err := st.Load(ctx, name)
	if err != nil {
		return nil
	}
	ids := make([]string, 0, len(pairs))
	for _, p := range pairs {
		ids = append(ids, string(p.K))
	}
	sort.Strings(ids)
	out := make([]interface{}, 0, len(ids))
	for _, id := range ids {
		out = append(out, id)
	}
	return out
}

func (w *locWorld) open(name string) error {
	ctx := core.NewContext("rh")
	ctx.Verbosity = core.NOTHING
	var state core.State
	var err error
	var store core.Storage = w.stores[name]
	if fs := w.fails[name]; fs != nil {
		if fs.armed {
			// a reloaded instance works on the bare storage (no injected failure)
			delete(w.fails, name)
		} else {
			store = fs
		}
	}
	if w.kinds[name] == "linear" {
		state, err = core.NewLinearState(ctx, name, store)
	} else {
		state, err = core.NewIndexedState(ctx, name, store)
	}
	if err != nil {
		return err
	}
	if w.states == nil {
		w.states = map[string]core.State{}
	}
	w.states[name] = state
	if rc := w.cronners[name]; rc != nil {
		// the hooks of the harness: a validating add hook that rejects anything marked "veto": true
		// (in the fact or in its rule body), then the cron hooks (captured from cron.AddHooks)
		hc := &hookCatcher{State: state}
		if err := cron.AddHooks(ctx, rc, hc); err != nil {
			return err
		}
		state.AddHook(func(ctx *core.Context, st core.State, id string, fact core.Map, loading bool) error {
			if v, _ := fact["veto"].(bool); v {
				return errVetoed
			}
			if rm, isMap := fact["rule"].(map[string]interface{}); isMap {
				if v, _ := rm["veto"].(bool); v {
					return errVetoed
				}
			}
			return hc.add(ctx, st, id, fact, loading)
		})
		state.RemHook(hc.rem)
	}
	ctrl := core.DefaultControl()
	if m, ok := w.maxes[name]; ok {
		ctrl.MaxFacts = m
	}
	loc, err := core.NewLocation(ctx, name, state, ctrl)
	if loc != nil {
		loc.Provider = w.provider
		loc.SetControl(ctrl)
		w.provider.Registry[name] = loc
	}
	return err
}

func resolveExpiry(m map[string]interface{}, o map[string]interface{}) {
	now := time.Now().Unix()
	if v, ok := m["expires_in"]; ok {
		delete(m, "expires_in")
		m["expires"] = float64(now + num(v))
	}
	if v, ok := m["expires_rfc_in"]; ok {
		delete(m, "expires_rfc_in")
		t := time.Unix(now+num(v), 0).UTC()
		m["expires"] = t.Format(time.RFC3339)
	}
	if s, ok := m["expires"].(string); ok {
		if t, err := time.Parse(time.RFC3339, s); err == nil {
			o["aux"] = t.UTC().Unix()
		}
	}
}

func bssJSON(bss []core.Bindings) []interface{} {
	out := make([]interface{}, 0, len(bss))
	for _, b := range bss {
		out = append(out, map[string]interface{}(b))
	}
	return out
}

func execLocCase(c Case) {
	if os.Getenv("RH_CHILD") == "1" {
		journalPath = str(c["journal"])
	}
	w := &locWorld{stores: map[string]core.Storage{}, kinds: map[string]string{}, maxes: map[string]int{},
		fails:    map[string]*failStorage{},
		cronners: map[string]*recCronner{},
		provider: core.NewSimpleLocationProvider(map[string]*core.Location{})}
	defer func() {
		for _, f := range w.cleanup {
			f()
		}
	}()
	// drop synthetic ops of an earlier execution (replay / shrinking)
	{
		var kept []interface{}
		for _, oi := range list(c["ops"]) {
			if !boolean(obj(oi)["synthetic"]) {
				kept = append(kept, oi)
			}
		}
		c["ops"] = kept
	}
	for _, li := range list(c["locs"]) {
		l := obj(li)
		name := str(l["name"])
		st, cleanup, err := newStorage(str(l["storage"]))
		if err != nil {
			c["setup_error"] = err.Error()
			return
		}
		w.cleanup = append(w.cleanup, cleanup)
		w.stores[name] = st
		if v, ok := l["fail"]; ok {
			w.fails[name] = &failStorage{Storage: st, n: int(num(v))}
		}
		if boolean(l["hooks"]) {
			w.cronners[name] = &recCronner{persistent: boolean(l["persistent"])}
		}
		w.kinds[name] = str(l["kind"])
		if v, ok := l["max"]; ok {
			w.maxes[name] = int(num(v))
		}
		if err := w.open(name); err != nil {
			c["setup_error"] = err.Error()
			return
		}
		if fs := w.fails[name]; fs != nil {
			fs.mu.Lock()
			fs.armed = true
			fs.mu.Unlock()
		}
	}
	if ph, ok := c["phase10"]; ok {
		// timed cases start at a chosen phase of the wall-clock second (sleeps are whole seconds, so
		// the phase is kept): expiry instants are whole seconds, and code that rounds instead of
		// truncating only shows in the second half of a second
		want := time.Duration(num(ph)) * time.Second / 10 // (tenths of a second)
		now := time.Now()
		at := now.Truncate(time.Second).Add(want)
		if at.Before(now) {
			at = at.Add(time.Second)
		}
		time.Sleep(at.Sub(now))
	}
	var done []interface{}
	for k, oi := range list(c["ops"]) {
		journal(k)
		o := obj(oi)
		if d := num(o["sleep"]); d > 0 {
			time.Sleep(time.Duration(d) * time.Second)
		}
		if rc := w.cronners[str(o["loc"])]; rc != nil {
			rc.take()
			o["persistent"] = rc.persistent
		}
		execLocOp(w, o)
		if rc := w.cronners[str(o["loc"])]; rc != nil {
			o["cron"] = rc.take()
		}
		done = append(done, o)
		fired := false
		if fs := w.fails[str(o["loc"])]; fs != nil && fs.takeFired() {
			fired = true
			if r := obj(o["res"]); r != nil {
				r["fired"] = true // the injected storage failure hit this operation
			}
		}
		if fired && boolean(c["crash"]) {
			// crash at the failing storage call: memory is lost, the location restarts from storage
			ro := map[string]interface{}{"loc": o["loc"], "op": "reload", "synthetic": true}
			execLocOp(w, ro)
			done = append(done, ro)
		}
	}
	c["ops"] = done
}

func execLocOp(w *locWorld, o map[string]interface{}) {
	name := str(o["loc"])
	loc := w.provider.Registry[name]
	ctx := core.NewContext("rh")
	ctx.Verbosity = core.NOTHING
	ctx.ReadKey, ctx.WriteKey = str(o["rk"]), str(o["wk"])
	if w.ctxHook != nil {
		w.ctxHook(ctx, o)
	}
	if loc == nil {
		o["res"] = map[string]interface{}{"ok": false, "class": "noloc"}
		o["t"], o["t2"] = time.Now().Unix(), time.Now().Unix()
		return
	}
	ctx.SetLoc(loc)
	id := str(o["id"])
	var res map[string]interface{}
	defer func() {
		if x := recover(); x != nil {
			o["res"] = map[string]interface{}{"ok": false, "class": "panic", "msg": fmt.Sprint(x)}
			o["t2"] = time.Now().Unix()
		}
	}()
	// resolve relative expiries before reading the clock for the op
	if f := obj(o["fact"]); f != nil {
		resolveExpiry(f, o)
	}
	if r := obj(o["rule"]); r != nil {
		resolveExpiry(r, o)
	}
	o["t"] = time.Now().Unix()
	switch str(o["op"]) {
	case "addfact":
		got, err := loc.AddFact(ctx, id, core.Map(plain(o["fact"]).(map[string]interface{})))
		if err != nil {
			res = errRes(err)
		} else {
			res = map[string]interface{}{"ok": true, "id": got}
			if id == "" {
				o["fresh"] = got
			}
		}
	case "addrule":
		if rm := obj(o["rule"]); rm != nil && boolean(rm["veto"]) {
			// A vetoed add is only exercised as the replacement of a stored rule by one with the SAME
			// `when` (decided here, on the real location, so that it also holds when a history is
			// shrunk or replayed): an indexed add of a new pattern that is undone leaves empty nodes
			// in the pattern index, which the model's "state unchanged" does not carry (they decide
			// whether an unsortable event is refused, finding D7).
			same := false
			if st := w.states[name]; st != nil {
				if cur, err := st.Get(ctx, id); err == nil {
					if cr, isRule := cur["rule"].(map[string]interface{}); isRule {
						a, _ := json.Marshal(cr["when"])
						b, _ := json.Marshal(plain(rm["when"]))
						same = string(a) == string(b)
					}
				}
			}
			if sch := rm["schedule"]; sch != nil && sch != "" {
				same = true // a scheduled rule is not indexed: nothing to add and undo
			}
			if !same {
				delete(rm, "veto")
			}
		}
		got, err := loc.AddRule(ctx, id, core.Map(plain(o["rule"]).(map[string]interface{})))
		if err != nil {
			res = errRes(err)
		} else {
			res = map[string]interface{}{"ok": true, "id": got}
			if id == "" {
				o["fresh"] = got
			}
		}
	case "remfact":
		_, err := loc.RemFact(ctx, id)
		if err != nil {
			res = errRes(err)
		} else {
			res = map[string]interface{}{"ok": true}
			o["store_after"] = w.storeIds(ctx, name)
		}
	case "remrule":
		_, err := loc.RemRule(ctx, id)
		if err != nil {
			res = errRes(err)
		} else {
			res = map[string]interface{}{"ok": true}
			o["store_after"] = w.storeIds(ctx, name)
		}
	case "getfact":
		f, err := loc.GetFact(ctx, id)
		if err != nil {
			res = errRes(err)
		} else {
			res = map[string]interface{}{"ok": true, "val": deepCopy(map[string]interface{}(f))}
		}
	case "getrule":
		f, err := loc.GetRule(ctx, id)
		if err != nil {
			res = errRes(err)
		} else {
			res = map[string]interface{}{"ok": true, "val": deepCopy(map[string]interface{}(f))}
		}
	case "enablerule":
		err := loc.EnableRule(ctx, id, boolean(o["enable"]))
		if err != nil {
			res = errRes(err)
		} else {
			res = map[string]interface{}{"ok": true}
		}
	case "clear":
		err := loc.Clear(ctx)
		if err != nil {
			res = errRes(err)
		} else {
			res = map[string]interface{}{"ok": true}
		}
	case "setparents":
		var ps []string
		for _, p := range list(o["parents"]) {
			ps = append(ps, str(p))
		}
		_, err := loc.SetParents(ctx, ps)
		if err != nil {
			res = errRes(err)
		} else {
			res = map[string]interface{}{"ok": true}
		}
	case "getparents":
		ps, err := loc.GetParents(ctx)
		if err != nil {
			res = errRes(err)
		} else {
			out := []interface{}{}
			for _, p := range ps {
				out = append(out, p)
			}
			res = map[string]interface{}{"ok": true, "parents": out}
		}
	case "size":
		n, err := loc.StateSize(ctx)
		if err != nil {
			res = errRes(err)
		} else {
			res = map[string]interface{}{"ok": true, "n": n}
		}
	case "listrules":
		ids, err := loc.ListRules(ctx, boolean(o["inherited"]))
		if err != nil {
			res = errRes(err)
		} else {
			sort.Strings(ids)
			out := make([]interface{}, 0, len(ids))
			for _, x := range ids {
				out = append(out, x)
			}
			res = map[string]interface{}{"ok": true, "ids": out}
		}
	case "storeids":
		// the raw contents of the location's storage (not through the fault injector): ids only
		pairs, err := w.stores[name].Load(ctx, name)
		if err != nil {
			res = errRes(err)
		} else {
			ids := make([]string, 0, len(pairs))
			for _, p := range pairs {
				ids = append(ids, string(p.K))
			}
			sort.Strings(ids)
			out := make([]interface{}, 0, len(ids))
			for _, id := range ids {
				out = append(out, id)
			}
			res = map[string]interface{}{"ok": true, "ids": out}
		}
	case "setreadonly":
		loc.SetReadOnly(ctx, boolean(o["ro"]))
		res = map[string]interface{}{"ok": true}
	case "reload":
		err := w.open(name)
		// carry the read-only flag over (it is not persisted by design)
		if nl := w.provider.Registry[name]; nl != nil && nl != loc {
			nl.SetReadOnly(ctx, loc.IsReadOnly(ctx))
		}
		if err != nil {
			res = errRes(err)
		} else {
			res = map[string]interface{}{"ok": true}
		}
	case "search":
		srs, err := loc.SearchFacts(ctx, core.Map(plain(o["pattern"]).(map[string]interface{})), boolean(o["inherited"]))
		if err != nil {
			res = errRes(err)
		} else {
			found := []interface{}{}
			for _, sr := range srs.Found {
				fe := map[string]interface{}{"id": sr.Id, "bss": bssJSON(sr.Bindingss), "loc": ownerOf(w, name, sr.Id, boolean(o["inherited"]))}
				if !boolean(o["inherited"]) {
					var parsed interface{}
					if json.Unmarshal([]byte(sr.Js), &parsed) != nil {
						parsed = "<corrupt>"
					}
					fe["fact"] = parsed
				}
				found = append(found, fe)
			}
			res = map[string]interface{}{"ok": true, "found": found}
		}
	case "process":
		res = execProcess(loc, ctx, o)
	case "query":
		js, _ := json.Marshal(plain(o["query"]))
		qr, err := loc.Query(ctx, string(js))
		if err != nil {
			res = errRes(err)
		} else {
			res = map[string]interface{}{"ok": true, "bss": bssJSON(qr.Bss)}
		}
	case "event":
		fr := &core.FindRules{Event: plain(o["event"]).(map[string]interface{})}
		fr.Do(ctx, loc)
		if fr.Disposition != core.Complete {
			msg := ""
			if fr.Disposition != nil {
				msg = fr.Disposition.Msg
			}
			res = map[string]interface{}{"ok": false, "class": classifyErr(fmt.Errorf("%s", msg)), "msg": msg}
		} else {
			ch := []interface{}{}
			for _, er := range fr.Children {
				ch = append(ch, map[string]interface{}{"id": er.Rule.Id, "bss": bssJSON(er.Bindingss)})
			}
			res = map[string]interface{}{"ok": true, "children": ch}
		}
	default:
		res = map[string]interface{}{"ok": false, "class": "unknown-op"}
	}
	o["t2"] = time.Now().Unix()
	o["res"] = res
}

// ownerOf: SearchResults do not say which location a fact came from; the
// harness does not know either, so the owner is left out of the comparison
// by reporting the searched location for local searches and "" otherwise.
func ownerOf(w *locWorld, name, id string, inherited bool) string {
	if !inherited {
		return name
	}
	return ""
}

func execLoc(cases []Case) []Case {
	sem := make(chan bool, 32)
	var wg sync.WaitGroup
	for _, c := range cases {
		wg.Add(1)
		sem <- true
		go func(c Case) {
			defer func() { <-sem; wg.Done() }()
			// (RH_FORCE_CHILD=1: every case in its own child process - bin/check retries a domain that
			// way when the harness process itself died, so that the crash is attributed to a case)
			if (boolean(c["child"]) || os.Getenv("RH_FORCE_CHILD") == "1") && os.Getenv("RH_CHILD") != "1" {
				execLocInChild(c)
				return
			}
			execLocCase(c)
		}(c)
	}
	wg.Wait()
	return cases
}

var _ = sort.Strings

// execLocInChild: run the case in a child process; on a crash or hang the
// journal tells which operation was running: it gets the observation class
// "crash"/"hang" and the rest of the history is cut off.
func execLocInChild(c Case) {
	f, err := os.CreateTemp("", "rh-journal-")
	if err != nil {
		execLocCase(c)
		return
	}
	path := f.Name()
	f.Close()
	defer os.Remove(path)
	os.Setenv("RH_JOURNAL_NEXT", path) // (documentation only; the path is passed through the case)
	c["journal"] = path
	runInChild("loc-"+str(c["profile"]), c, func(c Case, kind string) {
		k := 0
		if b, err := os.ReadFile(path); err == nil {
			k, _ = strconv.Atoi(strings.TrimSpace(string(b)))
		}
		ops := list(c["ops"])
		if k >= len(ops) {
			k = len(ops) - 1
		}
		// the child's observations are lost: re-run the prefix in-process to recover them
		prefix := Case{"profile": c["profile"], "locs": c["locs"], "ops": ops[:k]}
		execLocCase(prefix)
		cls := "crash"
		if kind == "hang" {
			cls = "hang"
		}
		bad := obj(ops[k])
		bad["res"] = map[string]interface{}{"ok": false, "class": cls}
		now := time.Now().Unix()
		bad["t"], bad["t2"] = now, now
		c["ops"] = append(list(prefix["ops"]), bad)
	})
	delete(c, "journal")
}
