package main

import (
	"sync"

	"github.com/Comcast/rulio/core"
	"github.com/Comcast/rulio/cron"
)

// recCronner records the calls the state hooks make to the cron service.
type recCronner struct {
	mu         sync.Mutex
	persistent bool
	calls      []interface{}
}

func (c *recCronner) ScheduleEvent(ctx *core.Context, se *cron.ScheduledEvent) error {
	c.mu.Lock()
	defer c.mu.Unlock()
	c.calls = append(c.calls, map[string]interface{}{"c": "sched", "id": se.Id, "schedule": se.Schedule})
	return nil
}
func (c *recCronner) Schedule(ctx *core.Context, sw *cron.ScheduledWork) error { return nil }
func (c *recCronner) Rem(ctx *core.Context, id string) (bool, error) {
	c.mu.Lock()
	defer c.mu.Unlock()
	c.calls = append(c.calls, map[string]interface{}{"c": "rem", "id": id})
	return true, nil
}
func (c *recCronner) Persistent() bool { return c.persistent }

func (c *recCronner) take() []interface{} {
	c.mu.Lock()
	defer c.mu.Unlock()
	out := c.calls
	if out == nil {
		out = []interface{}{}
	}
	c.calls = nil
	return out
}

// scheduled rule for the cronhooks profile
func (lg *locGen) scheduledRule() map[string]interface{} {
	r := lg.r
	sch := pick(r, "+1h", "+2h", "* * * * * * *", "0 0 * * * * *", "!2031-01-02T15:04:05Z").(string)
	rule := map[string]interface{}{"schedule": sch, "action": map[string]interface{}{"code": "1"}}
	lg.sem["1"] = map[string]interface{}{"t": "const", "v": 1.0}
	if r.Intn(4) == 0 && len(lg.ids) > 0 {
		// the body carries an "id" member of its own (a copied rule): the id it is stored under wins
		rule["id"] = lg.ids[r.Intn(len(lg.ids))]
	}
	if r.Intn(3) == 0 {
		rule["schedule"] = pick(r, "+1s", "+1h", "!2031-01-02T15:04:05Z").(string) // one-shot schedules
	}
	if r.Intn(10) == 0 {
		// an EMPTY schedule: an ordinary event rule to the rule parser, never indexed by the indexed state
		// (the member is there), nothing to the cron hook: no job, and the job of a replaced rule goes
		rule["schedule"] = ""
		rule["when"] = map[string]interface{}{"pattern": lg.pattern(lg.events[r.Intn(len(lg.events))])}
	}
	return rule
}
