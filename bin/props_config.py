"""Per-property configuration of bin/check."""

TRUSTED_BASE = [
    'Coq 8.16.1 kernel (coqc as packaged); vm_compute for reflection/witness lemmas; no native_compute',
    'extraction: Require Extraction + ExtrOcamlBasic only (Extract Inductive for bool, option, unit, list, prod, sumbool, sumor); no Extract Constant',
    'runner/main.ml: hand-written JSON reader/printer and conversions to the extracted inductives',
    'harness/cmd/rh: Go generators, observation and canonical rendering of the real code built from /repo with -tags verif',
    'bin/check: orchestration, shrinking, evidence',
    'tools/gotables: Go AST -> coq/gen/GateTable.v, LockTable.v, DispatchTable.v (regenerated from /repo on every run; the reflection theorems are about these tables)',
]

PROPS = {
    'C20': {
        'props_file': 'props/C20.v',
        'domains': [
            {'name': 'breaker', 'quick': 160, 'thorough': 4000, 'thorough_shards': 20},
            {'name': 'throttle', 'quick': 150, 'thorough': 3000, 'thorough_shards': 20},
            {'name': 'loc-capacity', 'quick': 300, 'thorough': 10000, 'thorough_shards': 10},
        ],
        'spec_ops': [],
        'corr': 'corr.breaker (CorrBreaker.check_breaker: step-by-step replay of observed Do/Status/Reset/Adjust through Breaker.b_do Fixed); '
                'corr.throttle (CorrThrottle.check_throttle: observed Submit entries/exits and Disable calls of a real core.Throttle replayed through Breaker.tstep2 = submit_enter/submit_exit/set_disabled)',
        'rule': 'breaker: histories of 10-60 Do/Status calls (bursts, polling faster/slower than a tick, silences around '
                'the interval; 1 in 5 with Reset/Adjust; 1 in 11 with 8 concurrent callers) on a real OutboundBreaker; '
                'non-trivial = the replay exercised at least two distinct (verdict, slide-kind) branches; distinct by hash of inputs. '
                'throttle: a fresh core.Throttle over a fresh OutboundBreaker (pendingLimit 0-3, breaker limit 1-2 or 50, interval 0.4-0.8 s, pause 20-50 ms, '
                'attempts for 0.35-1 s of polling, 1 in 17 with 0-2 attempts), a scripted schedule of 2-25 submissions launched one after another from their own '
                'goroutines (32 ms settle after each; functions that count their runs, 1 in 3 returning their own error, some blocking until released): under the '
                'limit, exactly pendingLimit+1 in flight then one more, runs of 2-5 overflows followed by further submissions while the first are in flight, '
                'one slot freed at a time, drain and start over, Disable(true/false) at various points, random mixes; the pending counter is read (tag verif) at every drain; '
                'an exit within 12 ms of a launch is compared only if both orders predict the same outcome; non-trivial = an overflow or pendingLimit+1 in flight was observed',
        'refuted': ['polling_starves_refuted (pinned code; fixed)', 'slide_whole_ticks_alone_unsafe_refuted (rejected repair)',
                    'simple_breaker_contract_refuted (D22)',
                    'disabled_throttle_never_recovers_refuted (a disabled throttle leaks its pending counter on every overflow)'],
        'level_text': 'Coq theorems over the executable breaker/throttle model for every limit, interval >= 20ns and every non-decreasing call sequence: '
                      'rate_bound (no window of 20*res holds more than limit admissions; both pinned and repaired code), recovers (repaired code admits '
                      'once earlier admissions are a window old, whatever was polled), throttle_at_most_once, pending_le_limit_plus_one over all '
                      'interleavings; throttle_waiting_bounded (every history of entries, exits and Disable calls: at most pendingLimit+1 waiting, an entry admitted only '
                      'while at most pendingLimit wait), throttle_counter_exact and throttle_recovers (never disabled: counter = number waiting, back to 0 after a drain, '
                      'exactly pendingLimit+1 admitted again), throttle_overflow_no_effect. Tie (throttle): observed schedules on the real core.Throttle replayed through the same event system, '
                      'bound and run counts judged on the observation. Tie to the code: step-by-step replay of observed histories of the real OutboundBreaker (state accessor under tag verif) '
                      'through the extracted model, plus the extracted spec checkers on the observations (8 concurrent callers included).',
        'level_note': 'History-level theorems (proofs/Hist*.v): over ANY history a location stays within MaxFacts under every request except EnableRule(false), SetParents and Reload, which store facts without the capacity gate (counterexample lemmas; the property speaks of the add operations only); an add refused for capacity leaves the whole system unchanged. Trusted: Coq kernel, extraction (ExtrOcamlBasic), OCaml JSON glue, Go harness; monotonic clock, instants inside recorded brackets; '
                      'capacity: refused_add_no_effect and add_respects_capacity over the location model (property facts written by EnableRule/SetParents bypass the capacity gate by design of the code: D23, outside the public add operations).',
        'technique': 'Coq proof by invariant over call sequences (sliding-window potential) + differential replay of the real breaker',
        'assumptions': ['call instants are non-decreasing (clock read inside the mutex, monotonic clock)',
                        'interval >= 20ns (smaller intervals divide by zero in slide)',
                        'the instant used by the code lies inside the recorded clock bracket'],
    },
    'C05': {
        'props_file': 'props/C05.v',
        'domains': [
            {'name': 'match', 'quick': 4000, 'thorough': 120000, 'thorough_shards': 12},
        ],
        'corr': 'corr.match (CorrMatch.check_match: Match.core_match, the model of sheens match.go as configured by core/match.go, vs core.Match on the same triple, 4 repetitions)',
        'rule': 'match: (pattern, data, bindings) with the pattern derived from random nested data (drop keys, replace leaves by fresh/repeated '
                'variables, permute/drop array elements, one array variable), 1 in 4 mutated to a near miss, 1 in 4 with initial bindings, 1 in 10 malformed '
                '(two array variables, property variable with siblings, optional variables, inequality names, ?-strings in data run in a child process); '
                'non-trivial = inside the fragment and the pattern has at least one variable; distinct by hash of the triple',
        'refuted': ['rematch_is_partial_refuted (D10)', 'inequality_names_refuted (D11)', 'var_like_data_refuted, match_diverges (D12)'],
        'level_text': 'Coq theorem match_sound_complete over the executable model of the sheens matcher (arrays, property variables, bound and repeated '
                      'variables, fuel included): on the documented fragment the returned binding sets are exactly the canonical assignments under which the '
                      'pattern lays over the data as a partial match (sound, complete, total), for all patterns, data and initial bindings, no size bound. '
                      'Tie to the code: core.Match on generated triples must return the model\'s multiset of bindings (and the brute-force spec\'s set) and must '
                      'leave pattern, data and bindings unmodified (deep copies compared).',
        'level_note': 'Trusted: Coq kernel, extraction, OCaml glue, Go harness; JSON fragment = integers, strings, booleans, null, nested maps/arrays '
                      '(no non-integral floats); Go map iteration order modelled as key order (results compared as multisets). D10-D12 are defects of the '
                      'sheens dependency and are exactly the fragment hypotheses.',
        'technique': 'Coq proof (induction on fuel with a semantic invariant; injective-laying relation for arrays) + differential testing of core.Match against the extracted model and brute-force spec',
        'assumptions': ['JSON numbers are integers (float64 integral values)', 'Go map iteration order does not affect the result multiset on the fragment (proved for the model: results characterised as a set)'],
    },
    'C02': {
        'props_file': 'props/C02.v',
        'domains': [
            {'name': 'loc-search', 'quick': 500, 'thorough': 20000, 'thorough_shards': 10},
        ],
        'spec_ops': ['search', 'getfact', 'getrule'],
        'corr': 'corr.loc (CorrLoc.check_loc: op-by-op replay of Location histories through State/Location models; reads judged against the index-free linear search over the same fact map)',
        'rule': 'loc-search: histories of 20-45 AddFact/RemFact/GetFact/SearchFacts (few rules) over 3-5 ids (overwrites and re-adds frequent), 1-2 '
                'locations of either state kind on MemStorage, patterns derived from stored facts (variables, dropped keys, array variables), blind spots '
                '(k! keys, 1030-byte strings, property-variable patterns, empty patterns), reloads; non-trivial = at least 3 distinct (op, outcome) kinds; '
                'distinct by hash of inputs',
        'refuted': ['no_terms_refuted (D8)', 'propvar_under_bang_refuted (D9)'],
        'level_text': 'Coq theorems over the executable model of IndexedState/LinearState/TermIndex: index_superset_invariant (every reachable state, any history, '
                      'one storage fault), search_exact_reachable (indexed search = match against every stored fact, composed from the index invariant, the '
                      'term-subset key lemma and matcher soundness/completeness), get_last_write, ids_kept_and_add_visible (both state kinds). Tie to the code: '
                      'observed Location histories (both state kinds) replayed op by op through the extracted model; every observed read additionally compared with the '
                      'linear (index-free) search of the model state.',
        'level_note': 'History-level theorems (agent proof, proofs/Hist*.v): the fact map and the storage of every reachable state of BOTH state kinds equal the specification map computed from the observed history, get = look-up, indexed and linear agree on every get and (inside the fragment) every search. Trusted: Coq kernel, extraction, OCaml glue, Go harness. search_exact is stated for instants at which nothing stored has expired (expiry: C07) and '
                      'for patterns with a term and no property variable (D8/D9 are the complement, listed as known findings). Generated-id freshness is an assumption on crypto/rand.',
        'technique': 'Coq invariant proof over operation histories + refinement to linear search; differential replay of Location histories',
        'assumptions': ['UUIDs returned for omitted ids are fresh (taken from the trace; distinctness is checked by the harness only)',
                        'encoding/json round-trips the JSON fragment faithfully'],
    },
    'C08': {
        'props_file': 'props/C08.v',
        'domains': [{'name': 'loc-cascade', 'quick': 500, 'thorough': 20000, 'thorough_shards': 10}],
        'spec_ops': ['remfact', 'remrule'],
        'corr': 'corr.loc (CorrLoc.check_loc) with the executable deleteWith-closure judged after every successful removal',
        'rule': 'loc-cascade: histories over 3-6 ids where half of the facts and rules carry deleteWith lists (1-2 targets, self references, cycles, '
                'dangling targets, a variable-looking id in 1 of 6 cases), property facts via EnableRule, removals of facts/rules in random order, '
                'both state kinds, reloads; after each removal the remaining ids (memory and storage) are compared with the closure spec; '
                'non-trivial = at least 3 distinct (op, outcome) kinds; distinct by hash of inputs',
        'level_text': 'Coq theorems over the executable state model: cascade_terminates_all_graphs (every state and dependency graph, both state kinds, storage faults, '
                      'expired facts), cascade_fuel_is_irrelevant, cascade_exact (linear state: exactly the least closure is removed from memory and storage, nothing else '
                      'changes), cascade_succeeds. Tie to the code: Location histories replayed through the extracted model; the closure spec is evaluated after every '
                      'successful RemFact/RemRule on both state kinds.',
        'level_note': 'History-level theorems (proofs/Hist*.v): in every reachable state of both kinds a successful removal leaves memory and storage = before minus the deleteWith-closure, nothing else changes, and the checker\'s executable closure is proved equal to the inductive one. Exactness is proved at instants where nothing is expired, for ANY ids (D14 is repaired: ids that look like variables included); for the '
                      'indexed state exactness rests on the correspondence plus C02 search exactness (composition not yet a single theorem).',
        'technique': 'Coq proof (measure on present facts for termination; least-fixed-point characterisation for exactness) + differential replay with closure oracle',
        'assumptions': ['facts are only removed during a removal (no concurrent adds: sequential histories)'],
    },
    'C19': {
        'props_file': 'props/C19.v',
        'domains': [{'name': 'loc-acl', 'quick': 400, 'thorough': 20000, 'thorough_shards': 10},
                    {'name': 'cron-sys', 'ok_is_spec': True, 'quick': 48, 'thorough': 600, 'thorough_shards': 5}],
        'spec_ops': [],
        'corr': 'corr.loc (CorrLoc.check_loc) on the ACL profile + gen/GateTable.v regenerated from the Go source; cron-sys (a third of its cases: every location has a write key, every client presents it, the scheduled rules write through the cron service\'s sub-context)',
        'rule': 'loc-acl: every Location operation issued with no / wrong / right read and write keys against locations whose protection changes during the '
                'history (!writeKey, !readKey, !enabled property facts set and removed, SetReadOnly), state and storage observed through later reads, sizes and '
                'reloads; non-trivial = at least 3 distinct (op, outcome) kinds; distinct by hash of inputs',
        'level_text': 'Coq theorems: by reflection over the gate table regenerated from /repo on every run — writers_need_write_gate, readers_need_read_gate (all exported '
                      'Location methods, event processing and rule actions inlined), js_functions_use_callers_context, model_gates_match_source; and over the model — '
                      'refused_unchanged (a refusing gate leaves facts, indexes and storage exactly as they were), write_gate_spec/read_gate_spec (right keys are transparent). '
                      'Tie to the code: the regenerated table (translator) and op-by-op replay of ACL histories.',
        'level_note': 'History-level theorems (proofs/Hist*.v): any history of mutating requests without the key leaves the location record unchanged; no read gets a value without the read key; a protected location driven with its keys simulates its unprotected twin (non-walking requests). GetParents was not read-gated (D56, found by these proofs, repaired in /repo); open finding D57: the holder of the read key can read the write key. tools/gotables is syntactic and flow-insensitive (gate calls before accesses in source order, calls inlined by name); it is cross-checked by the behavioural '
                      'ACL replay. Ungated exported helpers (SetProp, RemProp, GetProp, GetPropString, Have, RuleEnabled) are explicit exceptions in the theorem statements; '
                      'GetParents has no read check (parent names are not facts or rules).',
        'technique': 'Coq reflection over a source-derived table + Coq proof of gate refusal frame property + differential replay of the ACL matrix',
        'assumptions': ['refused_unchanged is stated for instants at which nothing stored is expired (reading a gate property purges expired items, C07)'],
    },
    'C03': {
        'props_file': 'props/C03.v',
        'domains': [{'name': 'loc-query', 'quick': 400, 'thorough': 20000, 'thorough_shards': 10}],
        'spec_ops': ['query'],
        'corr': 'corr.loc (CorrLoc.check_loc: Location.Query replayed through Query.parse_query/exec over the location model) and the denotational judge CorrLoc.spec_query (QuerySpec.den over the index-free search)',
        'rule': 'loc-query: histories of 20-45 ops on 1-2 locations (either state kind, a parent in 1 of 4), 40% of them Location.Query with random query trees '
                '(depth <= 3, arity 0..3, and/or/not/empty, shortCircuit spelled four ways, patterns derived from stored facts sharing the variables ?x ?y ?z, '
                'code terms from the script template family: literals, variable references, strict comparisons, object results, throw, syntax error), '
                'the rest adds/removes/reloads; non-trivial = at least 3 distinct (op, outcome) kinds; distinct by hash of inputs',
        'refuted': ['exec_correct_unknown_script_counterexample (unknown scripts; never produced by ParseQuery)'],
        'level_text': 'Coq theorems over the executable model of core/query.go: exec_correct (for every query tree, incoming binding list and pure fact search the evaluator returns exactly the '
                      'concatenation of the denotational meaning den of the query for each incoming binding - list equality, hence multiset equality - and fails exactly when some evaluation fails), '
                      'exec_linear, empty_identity, and_nil/and_cons, or_concat, or_shortcircuit_first_nonempty, not_filter, code_keep_iff, code_error_aborts, pattern_exact, extend_bindings_spec, exec_total. '
                      'Tie to the code: Location.Query on generated query trees must return the multiset the model returns, and every observed result is judged by den (extracted) over the linear search.',
        'level_note': 'Scripts are not interpreted: code terms take their meaning from a template family (Query.cexpr) rendered to JavaScript by the harness; the theorems quantify over an arbitrary script table. '
                      'otto (dependency) is trusted to implement the templates; two otto facts are modelled: Go nil is `undefined` in a script, and exported script-built objects drop null properties. '
                      'External fact services (pattern queries with other locations) are not modelled.',
        'technique': 'Coq refinement proof (nested induction on query trees) of the evaluator against a denotational spec + differential testing of Location.Query with the spec as oracle',
        'assumptions': ['fact search is pure during a query (nothing expires while it runs); otherwise the state-threading equations exec_state_threading apply',
                        'otto evaluates the template scripts as their Gallina meaning says'],
    },
    'C06': {
        'props_file': 'props/C06.v',
        'domains': [{'name': 'loc-durable', 'quick': 300, 'thorough': 12000, 'thorough_shards': 12}],
        'spec_ops': ['reload', 'addfact', 'addrule', 'remfact', 'remrule', 'clear', 'enablerule', 'setparents', 'search', 'getfact', 'getrule', 'event'],
        'corr': 'corr.loc (CorrLoc.check_loc) on the durable profile: MemStorage and BoltDB (temp file), one injected storage failure per location instance (failing call index 0..29), optional crash (reload right after the failing call); judges: reload equivalence, failure reporting, stored contents of search results',
        'rule': 'loc-durable: histories of 20-45 fact/rule/property/parent operations with frequent reloads on either state kind over MemStorage or BoltDB; in 2 of 3 cases the n-th storage call '
                '(n uniform in 0..29) of the location instance fails once; in half of the cases the location is rebuilt from storage immediately after the failing call (crash point between two storage writes); '
                'every local search result carries the stored document (parsed) and must equal the model\'s fact; non-trivial = at least 3 distinct (op, outcome) kinds; distinct by hash of inputs',
        'refuted': ['failed_add_modifies_memory_counterexample', 'failed_clear_empties_memory_counterexample', 'purge_errors_swallowed_example', 'load_expired_record_in_facts_counterexample'],
        'level_text': 'Coq theorems over the executable state model, for every history (fold over operation lists), both state kinds: store_mirrors_memory, reload_same_facts / reload_equiv_reachable '
                      '(a location rebuilt from storage has the same ids, contents, expiry instants and index invariants), prepare_idempotent, storage_failure_is_reported (every failing call index), '
                      'ops_touch_only_named_ids (every crash/failure point: an interrupted add touches only its id, an interrupted removal only loses keys of the deleteWith closure). '
                      'Tie to the code: fault-injecting Storage wrapper at every call index, crash/reload at the failure, MemStorage and BoltDB, replayed op by op through the extracted model.',
        'level_note': 'Partial: BoltDB transaction atomicity and durability are trusted (a reopen is the identity on the stored pairs); the memory-safety defect of BoltStorage.Load (slices into the memory map) was found by this check and repaired (fix: commit in /repo). '
                      'The theorems about reload are stated at instants at which nothing stored is expired (expiry: C07).',
        'technique': 'Coq invariant proofs over operation histories with a failing-call oracle + differential replay with fault injection and crash/reload on two storage back ends',
        'assumptions': ['encoding/json round-trips the JSON fragment', 'BoltDB transactions are atomic and durable', 'sequential histories'],
        'partial': 'BoltDB crash atomicity and memory safety are runtime facts outside the model',
    },
    'C07': {
        'props_file': 'props/C07.v',
        'domains': [{'name': 'loc-expiry', 'quick': 96, 'thorough': 1500, 'thorough_shards': 5, 'timeout': 3000}],
        'spec_ops': ['getfact', 'getrule', 'search', 'event'],
        'corr': 'corr.loc (CorrLoc.check_loc) on the expiry profile: real-time histories with 1-3 s expiries; every op carries the clock before and after the call, both instants are tried (ambiguous steps are counted)',
        'rule': 'loc-expiry: timed histories (14-22 ops, sleeps of 1-2 s in a quarter of the steps) writing facts and rules with one of the encodings ttl number, ttl duration string, expires number, expires RFC3339, '
                'already-expired, malformed ttl; observed by get/search/dispatch/reload before and after the expiry instant, both state kinds; 32 histories run concurrently; '
                'non-trivial = at least 3 distinct (op, outcome) kinds; distinct by hash of inputs',
        'level_text': 'Coq theorems over the executable state model: expiry_instant_fixed_at_write (all four encodings), expired_write_rejected, stored_facts_never_modified / expiry_instant_never_moves (over histories: no read or reload moves an instant), '
                      'get_visible_iff (visible iff stored and strictly before E), purged_once_seen, search_never_returns_expired and find_never_returns_expired (ANY state, no assumption on what has expired), never_expires_without_expiry, load_drops_expired. '
                      'Tie to the code: real-time histories replayed through the extracted model with the recorded clock brackets.',
        'level_note': 'RFC3339 parsing is done by the harness (time.Parse) and handed to the model as seconds; durations are modelled for the "<n>s" form. An op whose clock bracket contains an expiry instant is accepted under either reading.',
        'technique': 'Coq proofs over timed operation histories + differential replay of real-time histories with clock brackets',
        'assumptions': ['the instant the code reads lies inside the recorded bracket [t, t2]', 'time.Parse is correct on RFC3339'],
    },
    'C09': {
        'props_file': 'props/C09.v',
        'domains': [{'name': 'loc-forest', 'quick': 400, 'thorough': 20000, 'thorough_shards': 10},
                    {'name': 'loc-cache', 'quick': 60, 'thorough': 1500, 'thorough_shards': 5},
                    {'name': 'cron-sys', 'ok_is_spec': True, 'quick': 48, 'thorough': 600, 'thorough_shards': 5}],
        'spec_ops': ['search', 'event', 'getfact', 'getrule'],
        'corr': 'corr.loc (CorrLoc.check_loc) on the forest profile: 3-4 locations of mixed state kinds whose parent lists change during the history (self loops, indirect loops, missing parents), every op replayed through Location.do_ancestors',
        'rule': 'loc-forest: histories of 20-45 ops spread over 3-4 locations (SimpleLocationProvider), 14% SetParents with 0-2 random parents (loops and unknown names included), inherited and local searches, events, '
                'adds/removes in every location; non-trivial = at least 3 distinct (op, outcome) kinds; distinct by hash of inputs',
        'level_text': 'Coq theorems over the system model, for all systems and histories: step_frame_local, walk_touches_only_ancestors, noninterference_history (a location that no request addresses is never changed), '
                      'inherited_search_exact_dag / dispatch_exact_dag (exactly the transitive parents, each once, over any acyclic graph), events_not_pushed_down (results do not depend on non-ancestors), '
                      'parents_take_effect_immediately, loop_is_reported (every cycle along first parents), ancestor_walk_total (termination on every graph). Tie to the code: multi-location histories replayed op by op.',
        'level_note': 'sys.System as LocationProvider is exercised by the C17 check; here the provider is core.SimpleLocationProvider. Error precedence with several parents (an earlier parent failing first) is part of the model and of the correspondence, not of the loop theorem.',
        'technique': 'Coq frame/noninterference proofs over request histories and graph-walk correctness proofs + differential replay over location forests',
        'assumptions': ['sequential histories'],
    },
    'C10': {
        'props_file': 'props/C10.v',
        'domains': [{'name': 'loc-lifecycle', 'quick': 400, 'thorough': 20000, 'thorough_shards': 10},
                    {'name': 'loc-expiry', 'quick': 48, 'thorough': 750, 'thorough_shards': 5, 'timeout': 3000}],
        'spec_ops': ['event', 'size', 'addfact', 'addrule', 'remfact', 'remrule', 'getfact', 'getrule', 'enablerule', 'clear', 'setparents', 'getparents', 'search'],
        'corr': 'corr.loc (CorrLoc.check_loc) on the lifecycle profile; judges: dispatch against the index-free specification, and "every operation on a disabled location reports an error"',
        'rule': 'loc-lifecycle: histories of 20-45 ops interleaving AddRule / overwrite / RemRule / EnableRule(true|false) / reload / location !enabled toggles with events, both state kinds, a parent in 1 of 4 cases; '
                'non-trivial = at least 3 distinct (op, outcome) kinds; distinct by hash of inputs',
        'refuted': ['disable_then_not_enabled_counterexample', 'enable_is_not_per_id_counterexample'],
        'level_text': 'Coq theorems over the location model: children_exact_in (a candidate fires iff enabled here and its when matches, with exactly the match bindings), disable_then_not_enabled, enable_then_enabled, disable_is_per_id, '
                      'flag_dies_with_rule, readd_starts_enabled, flag_survives_reload, disabled_location_refuses (all twelve gated methods, StateSize included after the D36 repair), disabled_no_rule_fires; with C01 (dispatch_exact) and C07 (expiry) they give the fires-iff characterisation. '
                      'Tie to the code: lifecycle histories replayed op by op, dispatch judged against the index-free specification, and every operation on a disabled location judged to fail.',
        'level_note': 'StateSize was not gated by the enabled property (D36, found by this check, repaired in /repo). Two corner refutations (rule ids that collide with property-fact ids) are kept as lemmas in props/C10_open.v.',
        'technique': 'Coq proofs over the location model (gates, property facts, cascade) + differential replay of lifecycle histories',
        'assumptions': ['sequential histories'],
    },
    'C01': {
        'props_file': 'props/C01.v',
        'domains': [{'name': 'loc-dispatch', 'quick': 500, 'thorough': 30000, 'thorough_shards': 12},
                    {'name': 'pindex', 'quick': 3000, 'thorough': 150000, 'thorough_shards': 12}],
        'spec_ops': ['event', 'pindex'],
        'corr': 'corr.loc (CorrLoc.check_loc) on the dispatch profile (FindRules.Do observed: rule ids and when-bindings) and corr.pindex (the real PatternIndex against PatIndex.pi_add/pi_rem/pi_search and against the matcher)',
        'rule': 'loc-dispatch: histories of 20-45 ops over 3-5 rule ids (AddRule with when-patterns derived from a pool of 4 events so that matches are common, overwrite with another when, overwrite by a plain fact, '
                'RemRule, EnableRule, Clear, reload) interleaved with events from the pool (1 in 5 mutated), both state kinds, a parent location in 1 of 4 cases; '
                'pindex: (pattern set, event) pairs against a fresh PatternIndex; non-trivial = at least 3 distinct (op, outcome) kinds; distinct by hash of inputs',
        'refuted': ['propvar_shadow_refuted (D6)', 'two_array_vars_counterexample (outside the fragment)', 'direct_when_matched_by_index_only (D30)'],
        'level_text': 'Coq theorems: pindex_complete (for every trie, indexable pattern and event: if the pattern lays over the event and the search does not fail, the id is returned - completeness of the trie over partial matching, no size bound), '
                      'the exact effect of add/remove on the trie (pi_add_has, pi_add_only, pi_add_preserves, pi_rem_spec), search soundness w.r.t. stored ids, termination; over operation histories: the index invariant and dispatch exactness (see props/C01.v). '
                      'Tie to the code: dispatch histories on both state kinds replayed through the extracted model and judged against the index-free (linear) specification; the real PatternIndex compared with the trie model and with the matcher.',
        'level_note': 'Known findings (decidable predicates on cases): D6 property-variable keys shadowed, D7 events the index refuses (heterogeneous arrays, arrays of several maps, ?-strings), D30 direct-form when. '
                      'The indexed state sorts the event\'s arrays in place while searching; bindings are compared modulo array order.',
        'technique': 'Coq proof (embedding of the pattern path into the event pairs; induction on fuel and pair lists) + invariant over add/remove histories + differential replay against the real index and matcher',
        'assumptions': ['sequential histories', 'JSON fragment without non-integral numbers'],
    },
    'C04': {
        'props_file': 'props/C04.v',
        'domains': [{'name': 'loc-events', 'quick': 400, 'thorough': 20000, 'thorough_shards': 10}],
        'spec_ops': ['process'],
        'corr': 'corr.loc (CorrLoc.check_loc) on the events profile: Location.ProcessEvent replayed through Events.process_event; judge CorrLoc.spec_process = spec_execs over index-free dispatch and denotational conditions',
        'rule': 'loc-events: histories of 20-45 ops on 1-2 locations: rules with when-patterns derived from an event pool (array variables give several when-bindings), a condition query in half of them '
                '(patterns over stored facts, code terms), 1-3 actions from the script template family (mostly the echo action that returns its visible variables x y z w ruleId location event; constants; throw; syntax error), '
                'serialActions in 1 of 5; 40% ProcessEvent on pool events (1 in 25 a trigger! event); the executed leaves of the work tree (rule, action, bindings, completion, value) and the values list are observed; '
                'non-trivial = at least 3 distinct (op, outcome) kinds; distinct by hash of inputs',
        'level_text': 'Coq theorems over the executable model of core/events.go: fanout_exact / process_event_exact (for every system in which search is pure and every list of dispatched non-serial rules whose conditions evaluate: the walk executes exactly '
                      'spec_execs - each (rule, action, bindings) exactly once, results = the script on exactly those bindings, values = the completed results), inject_spec, run_actions_concurrent, failure_is_local, serial_stops_at_first_failure, '
                      'values_report_ok_results, find_children_full_agrees, oneshot_removed_after_run. Tie to the code: ProcessEvent histories replayed through the extracted model and judged by the extracted specification.',
        'level_note': 'Partial: the model is sequential - the actions of one rule run concurrently in the code; the data race / crash on the shared bindings map found by this check (D31) was repaired in /repo (fix: commit), '
                      'other interleaving effects of actions with side effects are outside the model (template actions are pure). A failing CONDITION or serial action stops the whole walk (remaining rules unevaluated, in Go map order): such outcomes are flagged ambiguous when more than one rule was dispatched.',
        'technique': 'Coq proof of fan-out exactness against a specification of the execution multiset (using the C03 refinement for conditions) + differential replay of ProcessEvent work trees',
        'assumptions': ['template actions are pure (no side effects on the location)', 'fact search is pure during the walk'],
        'partial': 'concurrency of actions is outside the sequential model',
    },
    'C15': {
        'props_file': 'props/C15.v',
        'domains': [{'name': 'loc-cronhooks', 'quick': 400, 'thorough': 20000, 'thorough_shards': 10},
                    {'name': 'cron-sys', 'ok_is_spec': True, 'quick': 72, 'thorough': 1500, 'thorough_shards': 10}],
        'spec_ops': ['addfact', 'addrule', 'remfact', 'remrule', 'enablerule', 'clear', 'reload', 'process', 'setparents', 'scheduled-rule-runs-once-in-its-location'],
        'corr': 'corr.cronsys (CorrCronSys.check_cronsys: one sys.System with the real built-in cron, 2-3 locations sharing rule ids, one-shot schedules of 200/400 ms added/removed/replaced before they are due, with restarts; runs counted per location) and corr.loc (CorrLoc.check_loc) on the cronhooks profile: a recording cron.Cronner installed with cron.AddHooks on every state; per op the calls it received are compared (as multisets) with the model\'s calls - CronHooks.calls_add / calls_Rem (with the cascade\'s and the purge\'s calls) / calls_clear / calls_load while nothing is expired, CronHooks.diff_calls for compound operations and around expired items - and the registry judge (registry built from the OBSERVED calls = stored scheduled rules) runs after every op, also when the calls differ from the model\'s',
        'rule': 'loc-cronhooks: histories of 20-45 ops on 1-2 locations (either state kind, persistent or ephemeral recording cron): AddRule with a schedule ("+1h", cron expressions, "!RFC3339") in 2 of 3 rule adds, '
                'overwrites by rules with a when or by plain facts, deleteWith links to rule ids, RemRule/RemFact, Clear, reload (an ephemeral cron loses its jobs at reload), ticks delivered as trigger! events '
                '(one-shot rules remove themselves); non-trivial = at least 3 distinct (op, outcome) kinds; distinct by hash of inputs',
        'refuted': [],
        'level_text': 'Coq theorems over the executable model of the cron hooks (cron/corehooks.go + where the two states invoke them, after the repair of D28): registry_exact_all_ops - for EVERY history of adds, overwrites, removals with cascades, reads with expiry purges, Clear and restarts, on either kind of state, with a persistent or a non-persistent cron, the cron registry equals the stored scheduled rules after every operation, without any hypothesis on the operations; cstep_exact for one operation in an arbitrary state; the former bypasses as corollaries (overwrite_unschedules, removed_is_unscheduled, clear_unschedules_all, load_reregisters) and as computed examples (props/C15_open.v). Tick delivery and one-shot removal are covered by the C04 model (trigger! path, oneshot_removed_after_run). '
                      'Tie to the code: a recording Cronner behind cron.AddHooks on real states; calls compared op by op with the model, registry judged after every op.',
        'level_note': 'Partial: that the cron SERVICE fires a registered job when due is C16; here the claim is the registry. D28 (the hooks were bypassed by overwrites, cascades, expiry, LinearState.Clear and LinearState.Load) was found by this check, confirmed on the real code and repaired in /repo (fix: commit); a registry mismatch is now a plain specification failure. D17 (the built-in InternalCron was keyed by rule id only, so equal ids in two locations replaced each other\'s job) was found by reading, confirmed on the real code, repaired in /repo (fix: commit) and is guarded by the cron-sys domain. The theorem assumes that no storage call fails (a write that fails after its hook has run leaves the job of the rejected record: not exercised, the hooked locations of the harness have no fault injection).',
        'technique': 'Coq invariant proof (the registry tracks the fact map through every removal of the cascade and of the purge) over instrumented operation histories with restarts + differential replay with a recording cron service',
        'assumptions': ['sequential histories', 'no storage call fails', 'the cron service accepts every schedule string (the recording Cronner does)'],
        'partial': 'firing of registered jobs by the cron service itself is C16',
    },
'C14': {
        'props_file': 'props/C14.v',
        'domains': [{'name': 'js', 'quick': 120, 'thorough': 3000, 'thorough_shards': 10}],
        'spec_ops': ['timeout-stops-script', 'in-time-value-unaffected', 'error-is-error', 'unwatched-loop'],
        'corr': 'corr.js (CorrJs.check_js: the observed outcome class of one script run must be among Watchdog.outcomes - the terminal configurations of the '
                'protocol model over all schedules - for the script family, the timeout selection of the case and the variant of RunJavascript the tree has; '
                'values by the template semantics Query.eval_cexpr; a time-out never before the limit)',
        'rule': 'js: one script per case from {value templates of the query domain, echo of the visible variables, throw "boom", "(" , while(true){i=i+1}, for(;;){}, '
                'a busy loop calibrated in the child to 2.5x the limit followed by a value template} x timeout setting {location control 150-300 ms, system default, '
                'switched off, negative control, negative default, control over a negative default, control ignored without a location} x position {core.RunJavascript with / '
                'without a location, Location.RunJavascript, code term of Location.Query, condition of a rule, action of a rule (ProcessEvent)}; every case in a child process '
                '(a hang is an observation: the child gives up after limit + 2 s, the parent kills it 4 s later), 12 children at a time; a probe case tells which variant of '
                'RunJavascript the tree has; non-trivial = every case but unwatched endless loops; distinct by hash of inputs',
        'refuted': ['timeout_deadlocks_counterexample, as_is_every_timeout_deadlocks, fast_script_race_deadlock_counterexample, halt_returns_nil_nil_counterexample (D19)',
                    'never_polls_counterexample (D27)'],
        'level_text': 'Coq theorems over a transition system of RunJavascript\'s watchdog protocol (runner with its deferred calls in LIFO order and recover, watchdog goroutine, '
                      'Interrupt channel of capacity 1, watchdogCleanup of capacity 0 (code) or 1 (repair), timer, script as an oracle over 7 families), over ALL interleavings: '
                      'for the repaired protocol caller_always_returns (a measure decreases with every step; no deferred call blocks; every maximal run ends with the caller back in control and no goroutine left), '
                      'timeout_is_error, fast_script_unaffected, no_panic / no_send_on_closed_channel / no_double_close (every variant), timeout_selection_ok, disabled_timeout_runs_unwatched; '
                      'for the code as it is the refutations of D19 (every interrupted run deadlocks; buffer alone returns (nil, nil)) and D27. '
                      'Reachability is decided by a verified exploration: the list of reachable configurations is proved closed under the successor function, properties are forallb over it. '
                      'Tie to the code: generated scripts x settings x positions run in child processes with a wall-clock oracle; observed outcome classes must be outcomes of the model.',
        'level_note': 'The model abstracts the script to its family (what it does relative to the deadline, whether it polls) and leaves out stuttering polls; time is assumed to pass (an enabled timer fires, a runnable goroutine runs). '
                      'otto (dependency) is trusted to poll Interrupt at every statement/expression and nowhere else; the bound "within limit + 1.5 s" is a wall-clock observation, not a theorem. '
                      'D19 (the caller hung on every time-out) is repaired in /repo (fix: commit). Open: D27 (for(;;){} is never interrupted: otto polls only when a statement or expression is evaluated).',
        'technique': 'Coq: explicit-state model checking inside the kernel (verified closure of the reachable set + well-founded progress measure) of a two-thread channel protocol; child-process differential testing with a hang detector',
        'assumptions': ['otto polls the Interrupt channel once per evaluated statement/expression and only there',
                        'weak fairness: an enabled timer eventually fires and a runnable goroutine eventually runs',
                        'a script of family Slow is still running, and polls, when the interrupt is delivered (the harness calibrates 2.5x the limit and treats runs that finish within limit + 300 ms as ambiguous)'],
    },
    'C17': {
        'props_file': 'props/C17.v',
        'domains': [{'name': 'loc-cache', 'quick': 150, 'thorough': 6000, 'thorough_shards': 10},
                    {'name': 'sys-steer', 'ok_is_spec': True, 'quick': 400, 'thorough': 20000, 'thorough_shards': 10}],
        'spec_ops': ['addfact', 'addrule', 'remfact', 'remrule', 'getfact', 'getrule', 'enablerule', 'clear', 'setparents', 'getparents', 'size', 'search', 'event', 'existence-check', 'single-load', 'linearizable', 'no-crash'],
        'corr': 'corr.loc (CorrLoc.check_loc) on the cache profile: every request is sent to three sys.Systems (TTL forever / never / 1 ms; same CheckExistence and state kind) and compared; the "forever" observations are replayed through the location model (hooks installed); ghost-location probes for the existence check; a stress phase counts OpenLocation calls for N concurrent first requests',
        'rule': 'loc-cache: histories of 20-45 requests over 1-2 locations through the sys.System API (facts, rules, events via ProcessEvent, parents, clear, size), each executed on three Systems that differ only in LocationTTL, '
                'with a 2 ms pause so that 1 ms entries expire between requests; in half of the cases existence checking is on (locations created first; a ghost location is probed every 7 requests and must stay absent from cache and storage); '
                'a quarter of the cases add 8-16 concurrent first requests on a fresh System; non-trivial = at least 3 distinct (op, outcome) kinds; distinct by hash of inputs',
        'refuted': ['single_load_refuted_counterexample (D41, code before the repair)', 'never_pending_cachettl_counterexample',
                    'boolean_pending_counterexample, boolean_pending_replaces_instance_in_use (D60, code before the repair: Pending as a boolean)'],
        'level_text': 'Coq theorems over the executable model of CachedLocations (expire/Open/Release, CachedLocation.Get, existence check, !cacheTTL): cache_transparent (every configuration, every history: same final stored state and success pattern as the cache-free system, never a stale instance), '
                      'results_independent_of_ttl, existence_check_no_create, forever_loads_once, never_reloads_every_request, and for concurrent first requests over all schedules single_load_with_reuse (the protocol as repaired in /repo; the refutation for the earlier code is kept: D41). '
                      'For the whole life of an entry - N clients that open, use and release one location in ANY interleaving, with any TTL, any clock, failing loads and a changing !cacheTTL - '
                      'in_use_instance_never_replaced, overlapping_requests_share_one_instance, acknowledged_write_visible_to_later_open, held_instance_is_current and pending_counts_users '
                      '(the counting protocol as repaired in /repo; the refutation for the boolean Pending of the earlier code is kept: D60). '
                      'Together with C06 (reload_same_facts: an instance loaded from storage is the live location) this gives transparency of results. Tie to the code: three real Systems with different TTLs on the same history, compared with each other and with the location model.',
        'level_note': 'Known findings: D33 (a hook-rejected add on the linear state left a record: visible after reload, hence TTL-dependent; repaired in /repo, fix: commit - a TTL-dependent answer is now a plain spec failure), D41 (single load could be violated under a specific interleaving; repaired in /repo, fix: commit), '
                      'D60 (Pending was a boolean: under a finite TTL an instance in use was replaced and acknowledged writes were invisible; repaired in /repo, fix: commit - Pending counts the users, CreateLocation and GetLocation release what they open, '
                      'a failed Open leaves its entry to its Release; a sys-steer history that is not linearizable is now a plain spec failure whatever the TTL). '
                      'A parent location handed out by System.GetLocation is released at once (the provider cannot know when the child is done with it): parents are outside in_use_instance_never_replaced. '
                      'GetLastUpdatedMem, location stats and controls are in-memory by design and are outside the compared surface.',
        'technique': 'Coq refinement of the cache layer to a cache-free specification over all histories + inductive invariants over all schedules (concurrent first opens; open/use/release life cycle with the user count) + three-way differential of real Systems + steered concurrent histories checked for linearizability',
        'assumptions': ['sequential request histories for the transparency clause', 'a finite TTL requires a persistent cron service (NewSystem enforces it; the harness supplies a recording one)',
                        'the life-cycle theorems assume pending entries are cached (TTL other than never, or CachePending, which NewSystem forces on) and that every Open is followed by exactly one Release of the same request (true of every System method; checked by grep and by TestCachedLocationInUse)'],
    },
    'C13': {
        'props_file': 'props/C13.v',
        'domains': [{'name': 'loc-fuzz', 'quick': 300, 'thorough': 20000, 'thorough_shards': 10},
                    {'name': 'loc-cascade', 'quick': 120, 'thorough': 2000, 'thorough_shards': 4},
                    {'name': 'cron-sys', 'ok_is_spec': True, 'quick': 48, 'thorough': 600, 'thorough_shards': 5}],
        'spec_ops': None,
        'corr': 'corr.loc (CorrLoc.check_loc) on the fuzz profile: every case runs in a child process under a time limit and a small maximum stack, journaling the index of the operation it is about to execute; '
                'a crash, stack overflow or hang is attributed to that operation and judged as a specification failure (never excused by ambiguity); after every unusual input a canary add/get/search on the same location is compared with the model',
        'rule': 'loc-fuzz: 300 histories per quick run; every input position (fact, rule, pattern, query, event, id, parents) receives well-formed JSON of unusual shape: wrong types in the reserved keys '
                '(rule/when/pattern/condition/action/schedule/expires/ttl/deleteWith/id/!props/policies), variable-looking strings as data, keys and ids, empty and 40-deep containers, heterogeneous arrays, long strings, '
                'each followed by canary traffic (add, get, search) on the same location; both state kinds; non-trivial = at least 3 distinct (op, outcome) kinds; distinct by hash of inputs',
        'refuted': ['nonground_data_diverges_counterexample, search_over_stored_rule_diverges_counterexample (D12 reached through the API: D54)'],
        'level_text': 'Coq theorems over the executable model (whose Panic outcomes are the unchecked assertions / nil writes / out-of-range indexes of the Go code and whose OutOfFuel outcome is unbounded recursion): '
                      'no_panic_constructor (no operation ever panics: any input, state, fuel), core_match_total_ground (the matcher terminates within the stated fuel for EVERY pattern on ground data), parse_query_total, '
                      'state_ops_total(_sharp), sys_step_total (all twelve Location operations through gates and ancestor walk), sys_query_total, process_event_total, history_total (every request of every history of ground requests is answered and the invariants persist), '
                      'rejected_input_keeps_state (a rejected input leaves the location exactly as it was). Tie to the code: fuzzed histories with canaries in child processes replayed through the extracted model; crash/hang oracle.',
        'level_note': 'PARTIAL: the theorems are about the model; that the Go code has no panic point the model lacks is checked by the crash oracle of the harness (a test), and "within bounded time" is the fuel bound of the model plus a wall-clock limit in the harness. '
                      'Found by this check and repaired in /repo: D2/D3 (panics on {"rule":{"when":5}} inside the state lock), D53 (an accepted fact with an ill-typed rule body failed every later dispatch that reached it). '
                      'Open finding D54: outside the ground fragment the matcher (dependency) recurses without bound; stored rules are such data, so a rule search that repeats a variable kills the process.',
        'technique': 'Coq totality proofs (fuel sufficiency by a size measure, no-panic by case analysis, invariants over histories) + fuzzing with crash/hang/canary oracle in child processes',
        'assumptions': ['inputs are well-formed JSON documents (the model\'s json type)', 'request payloads are ground for the history theorem (non-ground data: D12/D54)'],
        'partial': 'absence of panic points in the Go code beyond those of the model is tested, not proved',
    },
    'C18': {
        'props_file': 'props/C18.v',
        'domains': [{'name': 'service', 'quick': 300, 'thorough': 20000, 'thorough_shards': 10}],
        'spec_ops': ['service'],
        'corr': 'corr.service (CorrService.check_service: Service.serve - the model of GetHTTPRequest / ServeHTTP / ProcessRequest - on the abstract request of every operation, against the intended logical request, the planned System call and the observed status class; Service.dwim_uri against service.DWIMURI) + gen/DispatchTable.v regenerated from the Go source',
        'rule': 'service: twin sys.System worlds (one behind service.HTTPService.ServeHTTP via httptest, one called directly), histories of 10-25 operations over 3 locations and 8 fact / 3 rule ids '
                '(ids and values with spaces, quotes, &, =, %, +, unicode, YAML-looking text): facts add/get/rem/search/take/replace/query, rules add/list/rem/enable/disable/enabled, events/ingest, parents get/set, '
                'admin size/stats/create/clear/delete, util/js; each rendered in an encoding drawn per operation (query string, form, JSON body, YAML body, query + JSON body, /api/json and /api/yaml envelopes; typed parameters as JSON or YAML text; '
                'path as is / without /api / behind /v1.0 / behind /0.9 without /api; booleans as true/TRUE/True), 8% batches of 1-3 requests, 22% malformed (missing required parameter, ill-typed value, empty body, non-string uri, unknown uri, '
                'empty typed value, repeated parameter, junk typed value, envelope without uri / with GET / empty, bad body syntax, batch element with non-string uri); '
                '6 DWIMURI probe strings per case; non-trivial = at least 6 distinct features; distinct by hash of inputs',
        'refuted': [],
        'level_text': 'Coq theorems over the executable model of service/httpd.go and service/service.go: dwim_idempotent and dwim_prefix_variants (DWIMURI character by character, all strings); decode_render / decode_encoding_independent '
                      '(every supported rendering of a well-typed logical request - seven encodings x four prefix variants x JSON/YAML parameter text - decodes to the same uri and the getters see the same parameters); '
                      'service_performs_direct_call and batch_performs_direct_calls (whatever the encoding the service plans exactly the System call of the logical request, same method and arguments); by reflection over the dispatch table regenerated from the Go source: '
                      'model_tables_match_source, getter_types_consistent, required_are_checked, optional_ids_are_checked, missing_or_illtyped_is_error/_is_400 (every required parameter of every /api/loc/* case, no exception), composite_reports_inner_errors and replace_add_not_rejected (take / replace return the errors of their inner requests and replace rejects before it takes anything), unknown_uri_is_error/_is_400; '
                      'serve_never_panics (ServeHTTP never panics up to the System calls), empty_inputs_are_400. Tie to the code: twin-world differential over generated histories (status class and canonical JSON against the direct System call) and op-by-op replay of the abstract requests through the extracted model.',
        'level_note': 'partial: the lexical layers (net/url escaping, encoding/json and yaml.v2 lexers) are not modelled - abstract requests carry the texts as lexed by the real lexers (the harness runs url.ParseQuery, json.Unmarshal, service.UnmarshalYAML, strconv.ParseInt on the real bytes), '
                      'the first-byte / newline sniffing IS modelled; lexical round trips are the explicit hypothesis lexical_ok of the rendering theorems, exercised by the harness with url.Values.Encode, json.Marshal and yaml.Marshal. '
                      'Paths are plain (no %-escapes). The System behind the service is not modelled here (C01-C10): the model predicts the status class from the plan and the direct call\'s failure flag. '
                      'Not covered: /api/loc/events/retry, /api/loc/admin/updatedmem, the encoding= and libraries= parameters of util/js, the /api/sys/* and health cases. D24, D25, D61 (panics instead of 400), D62 (take / replace swallowed the errors of their inner requests), D63 (unchecked getter errors), D64 and D65 (answers assembled with Sprintf that were not JSON) were found by this check and are repaired in /repo; the check has no open finding.',
        'technique': 'Coq proofs over an executable model of request decoding and dispatch + reflection over a source-derived dispatch table + twin-world differential testing through httptest',
        'assumptions': ['lexical_ok: json.Marshal output starts with "{", yaml.Marshal output contains a newline, url.Values.Encode output is non-empty for a non-empty form and contains neither a leading "{" nor a newline; texts lex back to the values they were printed from',
                        'paths carry no %-escapes and no "?"', 'JSON numbers are integers', 'sequential requests'],
    },
    'C12': {
        'props_file': 'props/C12.v',
        'domains': [{'name': 'conc-one', 'ok_is_spec': True, 'quick': 400, 'thorough': 20000, 'thorough_shards': 10, 'race': 150, 'race_thorough': 3000},
                    {'name': 'conc-steer', 'ok_is_spec': True, 'quick': 600, 'thorough': 30000, 'thorough_shards': 10}],
        'spec_ops': ['linearizable', 'no-crash'],
        'corr': 'corr.conc (CorrConc.check_conc): linearizability of observed concurrent histories w.r.t. the extracted sequential location model (depth-first search over real-time-respecting orders, final memory and storage included) + race-detector runs of the same harness',
        'rule': 'conc-steer: ONE operation A runs with every log record enabled and is held at its k-th record (k sweeps all of them) while 1-2 operations B of another client run to completion or block on A\'s lock; histories judged by the same oracle; conc-one: 2-3 client goroutines, 2-4 operations each (AddFact on 3 shared ids, RemFact, GetFact, SearchFacts, AddRule/RemRule on 3 shared rule ids, some rules with an expiration, FindRules dispatch) on one location (either state kind), '
                '1 case in 6 with a fact and a rule that expire just before the clients are released (their first reads purge concurrently); released together; every operation records invocation/response instants; after quiescence every id is read through the live location and through a location rebuilt from storage; each case in a child process; '
                'race runs: the same cases under the Go race detector; non-trivial = two operations of different clients overlap in time; distinct by hash of inputs',
        'refuted': [],
        'level_text': 'Coq theorems: lin_sound (the linearizability oracle is sound: when the extracted checker accepts a history there is a real-time-respecting sequential order under which the sequential model returns every observed result and ends in the observed final memory and storage), '
                      'disjoint ids commute in the sequential model, and by reflection over gen/LockTable.v (regenerated from the source): every access to the fact maps and indexes happens under the state lock, every mutation and every storage write under the WRITE lock (store_writes_hold_write_lock), an Add is ONE critical section around its memory and storage phases (add_is_one_critical_section; Clear, Delete and the sections of Rem likewise); '
                      'over a model of the exclusive lock: locked_writers_never_diverge (ANY two writers whose actions lie in critical sections that preserve memory/storage agreement, EVERY lock-respecting schedule) and its instances for the writers read off the table, same_id_adds_never_diverge (two Adds, Add and Rem, Add and Clear on ONE id) and same_id_adds_are_serial. '
                      'Tie to the code: concurrent histories of the real location judged by the extracted oracle; race detector on the same harness (a report whose access pair no known finding lists is a violation).',
        'level_note': 'PARTIAL: Go data races, "concurrent map writes" crashes and deadlocks are runtime facts; the theorems cover the sequential specification, the oracle and the lock-granularity table, the race detector and the child-process watchdog are tests. '
                      'Found by this check and repaired in /repo (fix: commits): unsynchronised parsed-rule cache (data races, possible crash, stale rule), ExtractRule writing into the shared rule body under a read lock, purge of expired items by readers without the write lock, memory update and storage write of a write in two critical sections. '
                      'D44 (overlapping writes to ONE id were applied to memory and to storage in different orders, because the memory update and the storage write were not one critical section: memory and storage diverged) was found by conc-one, made deterministic by conc-steer and is repaired in /repo: both happen under the write lock now, at the price of storage I/O under the location lock (as Rem already did); the former counterexample same_id_adds_can_diverge is replaced by the theorem same_id_adds_never_diverge, and overlapping same-id writes must be linearizable like every other history. '
                      'D52 (readers purged expired items without the write lock: data races, "lost rule" errors, a crash) first surfaced as the exception lists the lock-table theorems needed, was then reproduced (race detector, non-linearizable history, crash) and is repaired in /repo; the lock-table theorems now hold without exceptions.',
        'technique': 'Coq soundness proof of a linearizability oracle over the sequential model + reflection over a source-derived lock table; stress with linearizability checking and the Go race detector',
        'assumptions': ['the recorded invocation/response instants bracket the operation', 'search budget of the oracle: 20000 nodes (exhaustion is counted as ambiguous, never as failure)',
                        'lock model of the critical-section theorems: sync.RWMutex.Lock is exclusive; two writers; the ids a Rem cascades to or purges are parameters'],
        'partial': 'runtime concurrency facts are tested, not proved',
    },
    'C11': {
        'props_file': 'props/C11.v',
        'domains': [{'name': 'conc-loc', 'ok_is_spec': True, 'quick': 400, 'thorough': 20000, 'thorough_shards': 10, 'race': 150, 'race_thorough': 3000},
                    {'name': 'conc-http', 'ok_is_spec': True, 'quick': 150, 'thorough': 6000, 'thorough_shards': 10}],
        'spec_ops': ['linearizable', 'no-crash', 'non-interference'],
        'corr': 'corr.http (CorrHttp.check_http: K clients, one location each, concurrent requests to ONE service.HTTPService; a non-interference oracle on the final contents of every location and on the values the events returned) and corr.conc (CorrConc.check_conc) on histories through ONE sys.System from a cold start, one location per client + race-detector runs',
        'rule': 'conc-loc: 2-3 client goroutines, each with its own location, 2-4 operations each through the sys.System API of one System, released together from process start (storage, cache entries and locations are created by the concurrent first requests); '
                'per-location results and final states are judged against the sequential model of each location; race runs under the Go race detector; non-trivial = two operations overlap in time; distinct by hash of inputs',
        'level_text': 'Coq theorems over the system model: interleave_equiv_sequential (for ANY interleaving of request histories addressed to different, unrelated locations, every location ends in the state - and every request returns the result - of its own sequential history: by the frame theorems of C09), '
                      'and the cache-layer theorem single_load_with_reuse (C17). Tie to the code: concurrent cold-start histories through one real System judged per location by the extracted sequential model; Go race detector on the same harness.',
        'level_note': 'PARTIAL: data races, crashes and deadlocks are runtime facts (tested by the race detector and a watchdog, not proved). Found by this check and repaired in /repo (fix: commits): unlocked lazy creation of the System\'s storage (concurrent first requests each made a Storage; all but the last were orphaned), '
                      'and the cache-entry replacement that let concurrent first requests load a location twice (D41).',
        'technique': 'Coq proof that interleavings of requests to unrelated locations are equivalent to the per-location sequential runs (frame + induction on the merged history) + concurrent stress with per-location linearizability checking and the Go race detector',
        'assumptions': ['requests are atomic steps of the system model (the granularity of the frame theorems)'],
        'partial': 'runtime concurrency facts are tested, not proved',
    },
 'C16': {
        'props_file': 'props/C16.v',
        'domains': [
            {'name': 'cron', 'quick': 120, 'thorough': 2400, 'thorough_shards': 10},
            {'name': 'crolt', 'quick': 120, 'thorough': 2400, 'thorough_shards': 10},
        ],
        'spec_ops': [],
        'corr': 'corr.cron (CorrCron.check_cron: timed scripts on a started cron.Cron replayed through Cron.step with the ticks and callback returns derived from the model\'s own timer; '
                'Add/Rem results, every Timeline snapshot and the per-id fire counts compared) and corr.crolt (CorrCrolt.check_crolt: the crolt binary built with -tags verif and driven as a child '
                'process; after every Add/Delete/DeleteAccount/work/reopen all buckets are scanned and compared key for key, in Bolt order, with Crolt.bstep)',
        'rule': 'cron: scripts on the grid S+125+50k ms (S = wall-clock fraction 0.100) with one-shot jobs due on S+150+50k ms, far jobs, every-second jobs, replaced and removed ids over 6 ids, '
                'limit 100 or 1-4; scenarios (i mod 6): plain, removal of the head (was D38), suspend/resume/pause with and without an Add meanwhile (was D49), Rem/Add while the callback runs (was D26) and '
                'Add at capacity (was D50), small limits, recurring; crolt: 3-8 Add (durations, cron expressions, client once/evict, malformed ids and schedules) / Delete / DeleteAccount / reopen over '
                '5 accounts x 3 ids and 1-4 partitions, work on every partition after sleeps past the due instants and past TTL (300 ms), 12 due entries for the limit of 10, an Add carrying a '
                'foreign TId (was D40); non-trivial = something fired (cron) / fired or was evicted (crolt); distinct by hash of inputs and observations',
        'refuted': [],
        'level_text': 'Coq theorems over the executable models of cron.Cron (timeline, running callbacks, timer target; Add/Rem/tick/callback return/suspend/resume/pause) and of the crolt buckets '
                      '(jobs and time maps with Bolt\'s key order, Add/Delete/DeleteAccount/work/reopen), for ALL operation sequences, no size bound: timeline_sorted, unique_ids, no_early_fire, '
                      'oneshot_fires_at_most_once, recurring_once_per_occurrence, removed_never_fires (pending or running), rem_found_iff, suspend_keeps_jobs, suspended_quiet (unconditional), suspended_timer_stopped, '
                      'resume_rearms, timer_armed_invariant / never_stalled (all histories), rem_rearms_timer, refused_add_no_effect, add_ok_iff; '
                      'buckets_consistent (every op, every history, restart; no hypothesis on the requests), client_tid_ignored, one_time_entry_per_job, delete_removes_both, work_fires_due_only (exactly: instant earlier than now), key_order_is_time_order, time_bucket_in_time_order, due_entry_is_served, oneshot_becomes_evict, evict_entry_removed. '
                      'Tie to the code: timed scripts on the real cron.Cron and op-by-op bucket scans of the real crolt service replayed through the extracted models; the specification judged on the observations.',
        'level_note': 'Repaired in /repo (fix commits; the model is the model of the repaired code and the former refutations are now theorems): D26 (recurring job removed/replaced while its callback runs came back), '
                      'D38 (Rem of the head left the timer un-armed), D49 (an Add, a callback return or a pause while suspended re-armed the timer: jobs fired while suspended), D50 (Add of a pending id at capacity removed the job). '
                      'D40 (crolt Add accepted a client TId and deleted that time entry: Add clears it now) and D39 (crolt time keys were RFC3339Nano strings with trimmed zeros, so that inside one second key order was not time order and whole-second keys waited one more second: keys and the bound of work use a fixed-width layout now; entries written by an older binary are still found by work, at the latest one second after their instant as before, and are re-keyed when they fire). Trusted: Bolt transaction atomicity/durability (reopen is the identity in the model; checked on the real file by the harness), '
                      'time.Timer semantics (a stopped or expired timer delivers nothing more), goroutine start latency below the margins (operations nearer than 10 ms to a simulated event, or later than 15 ms, are counted ambiguous).',
        'technique': 'Coq proofs by invariant over operation sequences (fold_left) + event-driven differential replay of timed scripts (cron) and bucket-by-bucket differential replay of a child process (crolt)',
        'assumptions': ['every critical section of cron.Cron runs under its mutex (one model op per section)',
                        'recurring jobs: the next occurrence supplied by cronexpr is an input of the trace',
                        'crolt: operations are sequential (one Bolt write transaction at a time); years 0000-9999 in UTC (fixed-width date-time prefix of the keys)'],
    },
}

# a property is only offered (bin/check, MANIFEST) once its theorem file exists
import os as _os
_COQ = _os.path.join(_os.path.dirname(_os.path.dirname(_os.path.abspath(__file__))), 'coq')
PROPS = {k: v for k, v in PROPS.items() if _os.path.exists(_os.path.join(_COQ, v['props_file']))}
