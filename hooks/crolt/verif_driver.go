//go:build verif
// +build verif

// Verification hook (add-only, compiled only with -tags verif).
//
// crolt is package main, so the verification harness cannot import it.  With
// the environment variable VERIF_CROLT_DRIVER=1 the binary becomes a line
// driver: it reads one JSON operation per line on stdin, applies it to a
// Cron over the Bolt file named by VERIF_CROLT_DB, prints one JSON result per
// line on stdout and exits before main() runs.  Without the variable this
// file does nothing.

package main

import (
	"bufio"
	"encoding/json"
	"io/ioutil"
	"log"
	"os"
	"strings"
	"time"

	"github.com/boltdb/bolt"
)

func init() {
	if os.Getenv("VERIF_CROLT_DRIVER") != "1" {
		return
	}
	log.SetOutput(ioutil.Discard)
	verifCroltDriver()
	os.Exit(0)
}

type verifCroltOp struct {
	Op         string `json:"op"`
	Partitions int    `json:"partitions"`
	TTLms      int64  `json:"ttl_ms"`
	JitterMs   int64  `json:"jitter_ms"`
	Account    string `json:"account"`
	Id         string `json:"id"`
	Schedule   string `json:"schedule"`
	URL        string `json:"url"`
	Once       bool   `json:"once"`
	Evict      bool   `json:"evict"`
	TId        string `json:"tid"`
	Part       string `json:"part"`
	SleepMs    int64  `json:"sleep_ms"`
}

func verifErrClass(err error) string {
	switch {
	case err == nil:
		return ""
	case err == Exists:
		return "exists"
	case err == NotFound:
		return "notfound"
	case strings.HasPrefix(err.Error(), "need a non-zero") || strings.HasPrefix(err.Error(), "no '"):
		return "init"
	default:
		return "other:" + err.Error()
	}
}

// verifTidAt parses the instant of a tid ("<RFC3339Nano>,<aid>"): unix ns.
func verifTidAt(tid string) (int64, string, bool) {
	i := strings.Index(tid, ",")
	if i < 0 {
		return 0, "", false
	}
	t, err := time.Parse(time.RFC3339Nano, tid[:i])
	if err != nil {
		return 0, "", false
	}
	return t.UnixNano(), tid[i+1:], true
}

func verifJobView(k, v string) map[string]interface{} {
	m := map[string]interface{}{"key": k}
	var j Job
	if err := json.Unmarshal([]byte(v), &j); err != nil {
		m["bad"] = true
		return m
	}
	m["account"], m["id"], m["schedule"] = j.Account, j.Id, j.Expression
	m["once"], m["evict"], m["tid"] = j.Once, j.Evict, j.TId
	m["worked"] = j.Work != nil
	if j.Work != nil {
		m["work_error"] = j.Work.Error != ""
		m["work_code"] = j.Work.Code
	}
	if at, aid, ok := verifTidAt(j.TId); ok {
		m["tid_at"], m["tid_aid"] = at, aid
	}
	if at, aid, ok := verifTidAt(k); ok {
		m["key_at"], m["key_aid"] = at, aid
	}
	return m
}

func verifCroltDriver() {
	path := os.Getenv("VERIF_CROLT_DB")
	var db *bolt.DB
	var cr *Cron
	var last verifCroltOp
	open := func(o verifCroltOp) error {
		var err error
		db, err = bolt.Open(path, 0600, &bolt.Options{Timeout: 2 * time.Second})
		if err != nil {
			return err
		}
		cr, err = NewCron(db, o.Partitions, time.Duration(o.JitterMs)*time.Millisecond, time.Duration(o.TTLms)*time.Millisecond)
		return err
	}
	in := bufio.NewScanner(os.Stdin)
	in.Buffer(make([]byte, 1<<20), 1<<26)
	out := bufio.NewWriter(os.Stdout)
	defer out.Flush()
	for in.Scan() {
		line := in.Bytes()
		if len(line) == 0 {
			continue
		}
		var o verifCroltOp
		res := map[string]interface{}{}
		if err := json.Unmarshal(line, &o); err != nil {
			res["fatal"] = err.Error()
		} else {
			func() {
				defer func() {
					if r := recover(); r != nil {
						res["panic"] = true
					}
				}()
				switch o.Op {
				case "open":
					last = o
					res["err"] = verifErrClass(open(o))
				case "reopen":
					// a restart of the service: close the file, open it again
					err := db.Close()
					if err == nil {
						err = open(last)
					}
					res["err"] = verifErrClass(err)
				case "close":
					res["err"] = verifErrClass(db.Close())
				case "add":
					j := &Job{Account: o.Account, Id: o.Id, Expression: o.Schedule, URL: o.URL,
						Once: o.Once, Evict: o.Evict, TId: o.TId}
					t0 := time.Now().UnixNano()
					err := cr.Add(j)
					t1 := time.Now().UnixNano()
					res["t0"], res["t1"] = t0, t1
					cls := verifErrClass(err)
					if strings.HasPrefix(cls, "other:") {
						cls = "schedule"
					}
					res["err"] = cls
					res["tid"], res["once"], res["evict"] = j.TId, j.Once, j.Evict
					if err == nil {
						res["at"] = j.at.UnixNano()
					}
				case "delete":
					res["err"] = verifErrClass(cr.Delete(o.Account, o.Id))
				case "deleteAccount":
					res["err"] = verifErrClass(cr.DeleteAccount(o.Account))
				case "get":
					j, err := cr.Get(o.Account, o.Id)
					res["err"] = verifErrClass(err)
					if err == nil {
						res["tid"], res["once"], res["evict"] = j.TId, j.Once, j.Evict
					}
				case "partition":
					res["part"] = cr.Partition(o.Account)
				case "work":
					if o.SleepMs > 0 {
						time.Sleep(time.Duration(o.SleepMs) * time.Millisecond)
					}
					t0 := time.Now().UnixNano()
					err := db.Update(cr.work(o.Part))
					t1 := time.Now().UnixNano()
					res["t0"], res["t1"] = t0, t1
					res["err"] = verifErrClass(err)
				case "scan":
					buckets := map[string]interface{}{}
					cr.DoBuckets(func(bucket string) error {
						entries := []interface{}{}
						err := cr.Scan(bucket, func(b, k, v string) (bool, error) {
							entries = append(entries, verifJobView(k, v))
							return false, nil
						})
						if err != nil {
							res["err"] = verifErrClass(err)
						}
						buckets[bucket] = entries
						return nil
					})
					res["buckets"] = buckets
					res["now"] = time.Now().UnixNano()
				default:
					res["fatal"] = "unknown op " + o.Op
				}
			}()
		}
		js, _ := json.Marshal(res)
		out.Write(js)
		out.WriteByte('\n')
		out.Flush()
	}
	if db != nil {
		db.Close()
	}
}
