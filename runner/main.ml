(* Driver for the extracted model (Model = coq/extract/Extract.v output).
   Reads one JSON object per line on stdin: {"domain": d, "id": i, "case": c}
   and prints one JSON object per line: {"id": i, "verdict": <check_case d c>}.
   Hand-written glue (trusted): a small JSON reader/printer over bytes and the
   conversions between OCaml values and the extracted inductives. *)

module S = Stdlib.String
module L = Stdlib.List
module B = Stdlib.Buffer

exception Parse_error of string

(* ---- conversions ---- *)

let rec pos_of_int (n : int) : Model.positive =
  if n <= 1 then Model.XH
  else if n land 1 = 0 then Model.XO (pos_of_int (n lsr 1))
  else Model.XI (pos_of_int (n lsr 1))

let z_of_int (n : int) : Model.z =
  if n = 0 then Model.Z0 else if n > 0 then Model.Zpos (pos_of_int n)
  else Model.Zneg (pos_of_int (- n))

let z_of_decimal (s : S.t) : Model.z =
  (* s: optional '-', digits *)
  let neg = S.length s > 0 && s.[0] = '-' in
  let digits = if neg then S.sub s 1 (S.length s - 1) else s in
  if S.length digits = 0 then raise (Parse_error "empty number");
  let v =
    if S.length digits <= 17 then z_of_int (int_of_string digits)
    else begin
      let ten = z_of_int 10 in
      let acc = ref Model.Z0 in
      S.iter (fun c ->
          acc := Model.Z.add (Model.Z.mul !acc ten) (z_of_int (Char.code c - 48))) digits;
      !acc
    end in
  if neg then Model.Z.opp v else v

let rec pos_bits (p : Model.positive) : int =
  match p with Model.XH -> 1 | Model.XO q | Model.XI q -> 1 + pos_bits q

let rec int_of_pos (p : Model.positive) : int =
  match p with
  | Model.XH -> 1
  | Model.XO q -> 2 * int_of_pos q
  | Model.XI q -> 2 * int_of_pos q + 1

let rec decimal_of_pos_big (z : Model.z) (acc : S.t) : S.t =
  (* z > 0 *)
  let ten = z_of_int 10 in
  match z with
  | Model.Z0 -> if acc = "" then "0" else acc
  | _ ->
     let d = Model.Z.modulo z ten and q = Model.Z.div z ten in
     let di = (match d with Model.Z0 -> 0 | Model.Zpos p -> int_of_pos p | Model.Zneg _ -> 0) in
     decimal_of_pos_big q (S.make 1 (Char.chr (48 + di)) ^ acc)

let decimal_of_z (z : Model.z) : S.t =
  match z with
  | Model.Z0 -> "0"
  | Model.Zpos p ->
     if pos_bits p <= 61 then string_of_int (int_of_pos p) else decimal_of_pos_big z ""
  | Model.Zneg p ->
     if pos_bits p <= 61 then "-" ^ string_of_int (int_of_pos p)
     else "-" ^ decimal_of_pos_big (Model.Zpos p) ""

let ascii_of_char (c : char) : Model.ascii =
  let n = Char.code c in
  let b i = (n lsr i) land 1 = 1 in
  Model.Ascii (b 0, b 1, b 2, b 3, b 4, b 5, b 6, b 7)

let char_of_ascii (a : Model.ascii) : char =
  match a with
  | Model.Ascii (b0, b1, b2, b3, b4, b5, b6, b7) ->
     let v b i = if b then 1 lsl i else 0 in
     Char.chr (v b0 0 + v b1 1 + v b2 2 + v b3 3 + v b4 4 + v b5 5 + v b6 6 + v b7 7)

let cstring_of (s : S.t) : Model.string =
  let r = ref Model.EmptyString in
  for i = S.length s - 1 downto 0 do
    r := Model.String (ascii_of_char s.[i], !r)
  done;
  !r

let ostring_of (s : Model.string) : S.t =
  let b = B.create 16 in
  let rec go = function
    | Model.EmptyString -> ()
    | Model.String (a, r) -> B.add_char b (char_of_ascii a); go r in
  go s; B.contents b

(* ---- JSON reader ---- *)

let parse (s : S.t) : Model.json =
  let n = S.length s in
  let pos = ref 0 in
  let peek () = if !pos < n then s.[!pos] else '\000' in
  let adv () = incr pos in
  let rec ws () =
    if !pos < n then match s.[!pos] with
      | ' ' | '\t' | '\n' | '\r' -> adv (); ws ()
      | _ -> () in
  let expect c = if peek () = c then adv () else raise (Parse_error (Printf.sprintf "expected %c at %d" c !pos)) in
  let add_utf8 b cp =
    if cp < 0x80 then B.add_char b (Char.chr cp)
    else if cp < 0x800 then begin
      B.add_char b (Char.chr (0xC0 lor (cp lsr 6)));
      B.add_char b (Char.chr (0x80 lor (cp land 0x3F))) end
    else if cp < 0x10000 then begin
      B.add_char b (Char.chr (0xE0 lor (cp lsr 12)));
      B.add_char b (Char.chr (0x80 lor ((cp lsr 6) land 0x3F)));
      B.add_char b (Char.chr (0x80 lor (cp land 0x3F))) end
    else begin
      B.add_char b (Char.chr (0xF0 lor (cp lsr 18)));
      B.add_char b (Char.chr (0x80 lor ((cp lsr 12) land 0x3F)));
      B.add_char b (Char.chr (0x80 lor ((cp lsr 6) land 0x3F)));
      B.add_char b (Char.chr (0x80 lor (cp land 0x3F))) end in
  let hex4 () =
    let v = int_of_string ("0x" ^ S.sub s !pos 4) in pos := !pos + 4; v in
  let str () : S.t =
    expect '"';
    let b = B.create 16 in
    let rec go () =
      if !pos >= n then raise (Parse_error "unterminated string");
      let c = s.[!pos] in adv ();
      if c = '"' then ()
      else if c = '\\' then begin
        let e = s.[!pos] in adv ();
        (match e with
         | 'n' -> B.add_char b '\n' | 't' -> B.add_char b '\t' | 'r' -> B.add_char b '\r'
         | 'b' -> B.add_char b '\b' | 'f' -> B.add_char b '\012'
         | '/' -> B.add_char b '/' | '\\' -> B.add_char b '\\' | '"' -> B.add_char b '"'
         | 'u' ->
            let cp = hex4 () in
            if cp >= 0xD800 && cp < 0xDC00 && !pos + 6 <= n && s.[!pos] = '\\' && s.[!pos+1] = 'u' then begin
              pos := !pos + 2;
              let lo = hex4 () in
              add_utf8 b (0x10000 + ((cp - 0xD800) lsl 10) + (lo - 0xDC00)) end
            else add_utf8 b cp
         | _ -> raise (Parse_error "bad escape"));
        go () end
      else begin B.add_char b c; go () end in
    go (); B.contents b in
  let rec value () : Model.json =
    ws ();
    match peek () with
    | '{' ->
       adv (); ws ();
       if peek () = '}' then (adv (); Model.JObj [])
       else begin
         let acc = ref [] in
         let rec loop () =
           ws (); let k = str () in ws (); expect ':';
           let v = value () in
           acc := (cstring_of k, v) :: !acc;
           ws ();
           if peek () = ',' then (adv (); loop ()) else expect '}' in
         loop (); Model.JObj (L.rev !acc) end
    | '[' ->
       adv (); ws ();
       if peek () = ']' then (adv (); Model.JArr [])
       else begin
         let acc = ref [] in
         let rec loop () =
           let v = value () in acc := v :: !acc; ws ();
           if peek () = ',' then (adv (); loop ()) else expect ']' in
         loop (); Model.JArr (L.rev !acc) end
    | '"' -> Model.JStr (cstring_of (str ()))
    | 't' -> pos := !pos + 4; Model.JBool true
    | 'f' -> pos := !pos + 5; Model.JBool false
    | 'n' -> pos := !pos + 4; Model.JNull
    | _ ->
       let st = !pos in
       while !pos < n && (match s.[!pos] with '0'..'9' | '-' | '+' | '.' | 'e' | 'E' -> true | _ -> false) do adv () done;
       let t = S.sub s st (!pos - st) in
       if t = "" then raise (Parse_error (Printf.sprintf "unexpected char at %d" st));
       if S.contains t '.' || S.contains t 'e' || S.contains t 'E' then begin
         (* accept integral floats such as 1e+06 or 2.0 *)
         let f = float_of_string t in
         if Float.is_integer f && Float.abs f < 9.0e15 then Model.JNum (z_of_int (int_of_float f))
         else raise (Parse_error ("non-integer number " ^ t)) end
       else Model.JNum (z_of_decimal t) in
  let v = value () in ws ();
  if !pos <> n then raise (Parse_error "trailing input");
  v

(* ---- JSON printer ---- *)

let escape_into b (s : S.t) =
  B.add_char b '"';
  S.iter (fun c ->
      match c with
      | '"' -> B.add_string b "\\\""
      | '\\' -> B.add_string b "\\\\"
      | '\n' -> B.add_string b "\\n"
      | '\r' -> B.add_string b "\\r"
      | '\t' -> B.add_string b "\\t"
      | c when Char.code c < 0x20 -> B.add_string b (Printf.sprintf "\\u%04x" (Char.code c))
      | c -> B.add_char b c) s;
  B.add_char b '"'

let rec print_into b (j : Model.json) =
  match j with
  | Model.JNull -> B.add_string b "null"
  | Model.JBool true -> B.add_string b "true"
  | Model.JBool false -> B.add_string b "false"
  | Model.JNum z -> B.add_string b (decimal_of_z z)
  | Model.JStr s -> escape_into b (ostring_of s)
  | Model.JArr l ->
     B.add_char b '[';
     L.iteri (fun i x -> if i > 0 then B.add_char b ','; print_into b x) l;
     B.add_char b ']'
  | Model.JObj kvs ->
     B.add_char b '{';
     L.iteri (fun i (k, v) ->
         if i > 0 then B.add_char b ',';
         escape_into b (ostring_of k); B.add_char b ':'; print_into b v) kvs;
     B.add_char b '}'

let to_string j = let b = B.create 256 in print_into b j; B.contents b

let get (k : S.t) (j : Model.json) : Model.json =
  match j with
  | Model.JObj kvs ->
     (try L.assoc (cstring_of k) kvs with Not_found -> Model.JNull)
  | _ -> Model.JNull

let () =
  let selftest = Array.length Sys.argv > 1 && Sys.argv.(1) = "--echo" in
  (try
     while true do
       let line = input_line stdin in
       if S.length line > 0 then begin
         let out =
           try
             let j = parse line in
             if selftest then to_string (Model.jnorm j)
             else begin
               let dom = (match get "domain" j with Model.JStr s -> s | _ -> cstring_of "") in
               let id = get "id" j in
               let c = get "case" j in
               let v = Model.check_case dom c in
               to_string (Model.JObj [ (cstring_of "id", id); (cstring_of "verdict", v) ])
             end
           with
           | Parse_error m -> Printf.sprintf "{\"id\":null,\"error\":%s}" (let b = B.create 16 in escape_into b m; B.contents b)
           | Stack_overflow -> "{\"id\":null,\"error\":\"stack overflow in model\"}"
         in
         print_string out; print_newline ()
       end
     done
   with End_of_file -> ())
