// Copyright 2015 Comcast Cable Communications Management, LLC
//
// Licensed under the Apache License, Version 2.0 (the "License");
// you may not use this file except in compliance with the License.
// You may obtain a copy of the License at
//
//     http://www.apache.org/licenses/LICENSE-2.0
//
// Unless required by applicable law or agreed to in writing, software
// distributed under the License is distributed on an "AS IS" BASIS,
// WITHOUT WARRANTIES OR CONDITIONS OF ANY KIND, either express or implied.
// See the License for the specific language governing permissions and
// limitations under the License.
//
// End Copyright

package cron

import (
	"fmt"
	"reflect"
	"sort"
	"sync"
	"testing"
	"time"

	"github.com/Comcast/rulio/core"
)

// jobsCronner is a Cronner that just keeps the registered jobs.
type jobsCronner struct {
	sync.Mutex
	persistent bool
	jobs       map[string]string
	calls      []string
}

func (c *jobsCronner) ScheduleEvent(ctx *core.Context, se *ScheduledEvent) error {
	c.Lock()
	c.jobs[se.Id] = se.Schedule
	c.calls = append(c.calls, "sched "+se.Id)
	c.Unlock()
	return nil
}

func (c *jobsCronner) Schedule(ctx *core.Context, sw *ScheduledWork) error {
	return nil
}

func (c *jobsCronner) Rem(ctx *core.Context, id string) (bool, error) {
	c.Lock()
	_, have := c.jobs[id]
	delete(c.jobs, id)
	c.calls = append(c.calls, "rem "+id)
	c.Unlock()
	return have, nil
}

func (c *jobsCronner) Persistent() bool {
	return c.persistent
}

func (c *jobsCronner) ids() []string {
	c.Lock()
	acc := make([]string, 0, len(c.jobs))
	for id := range c.jobs {
		acc = append(acc, id)
	}
	c.Unlock()
	sort.Strings(acc)
	return acc
}

func (c *jobsCronner) takeCalls() []string {
	c.Lock()
	calls := c.calls
	c.calls = nil
	c.Unlock()
	return calls
}

func hookedLocation(t *testing.T, linear bool, store core.Storage, cronner Cronner) (*core.Context, *core.Location) {
	ctx := core.NewContext("test")
	var state core.State
	var err error
	if linear {
		state, err = core.NewLinearState(ctx, "test", store)
	} else {
		state, err = core.NewIndexedState(ctx, "test", store)
	}
	if err != nil {
		t.Fatal(err)
	}
	if err = AddHooks(ctx, cronner, state); err != nil {
		t.Fatal(err)
	}
	loc, err := core.NewLocation(ctx, "test", state, nil)
	if err != nil {
		t.Fatal(err)
	}
	ctx.SetLoc(loc)
	return ctx, loc
}

func addFact(t *testing.T, ctx *core.Context, loc *core.Location, id string, js string) {
	if _, err := loc.AddFact(ctx, id, mapJS(t, js)); err != nil {
		t.Fatal(err)
	}
}

func mapJS(t *testing.T, js string) core.Map {
	m, err := core.ParseJSONString(nil, js)
	if err != nil {
		t.Fatal(err)
	}
	return core.Map(m)
}

func wantJobs(t *testing.T, when string, c *jobsCronner, ids ...string) {
	if ids == nil {
		ids = []string{}
	}
	if got := c.ids(); !reflect.DeepEqual(got, ids) {
		t.Fatalf("%s: jobs %v, expected %v", when, got, ids)
	}
}

const scheduledRule = `{"rule":{"schedule":"+1h","action":{"code":"1"}}}`

// TestHooksFollowState checks that the jobs that the hooks keep
// registered are the stored scheduled rules however a rule comes or
// goes: added, replaced, removed, removed as a dependent
// ('deleteWith'), expired, cleared, loaded.
func TestHooksFollowState(t *testing.T) {
	for _, linear := range []bool{false, true} {
		name := fmt.Sprintf("linear=%v", linear)
		store, err := core.NewMemStorage(core.NewContext("test"))
		if err != nil {
			t.Fatal(err)
		}
		c := &jobsCronner{jobs: make(map[string]string)}
		ctx, loc := hookedLocation(t, linear, store, c)

		addFact(t, ctx, loc, "r1", scheduledRule)
		addFact(t, ctx, loc, "r2", scheduledRule)
		wantJobs(t, name+" added", c, "r1", "r2")

		// Replaced by another scheduled rule: one job.
		addFact(t, ctx, loc, "r1", `{"rule":{"schedule":"+2h","action":{"code":"1"}}}`)
		wantJobs(t, name+" rescheduled", c, "r1", "r2")
		if c.jobs["r1"] != "+2h" {
			t.Fatalf("%s: schedule %s", name, c.jobs["r1"])
		}

		// Replaced by a rule without a schedule and by a plain fact.
		addFact(t, ctx, loc, "r1", `{"rule":{"when":{"pattern":{"a":"?x"}},"action":{"code":"1"}}}`)
		wantJobs(t, name+" replaced by a rule", c, "r2")
		addFact(t, ctx, loc, "r2", `{"likes":"tacos"}`)
		wantJobs(t, name+" replaced by a fact", c)

		// A plain fact replaced by a scheduled rule.
		addFact(t, ctx, loc, "r2", scheduledRule)
		wantJobs(t, name+" fact replaced", c, "r2")

		// Removed.
		c.takeCalls()
		if _, err := loc.RemFact(ctx, "r2"); err != nil {
			t.Fatal(err)
		}
		wantJobs(t, name+" removed", c)
		if calls := c.takeCalls(); !reflect.DeepEqual(calls, []string{"rem r2"}) {
			t.Fatalf("%s: calls %v", name, calls)
		}

		// Removed as dependents (of a fact, and of a dependent).
		addFact(t, ctx, loc, "f", `{"likes":"chips"}`)
		addFact(t, ctx, loc, "d1", `{"deleteWith":["f"],"rule":{"schedule":"+1h","action":{"code":"1"}}}`)
		addFact(t, ctx, loc, "d2", `{"deleteWith":["d1"],"rule":{"schedule":"+1h","action":{"code":"1"}}}`)
		addFact(t, ctx, loc, "r3", scheduledRule)
		wantJobs(t, name+" dependents", c, "d1", "d2", "r3")
		if _, err := loc.RemFact(ctx, "f"); err != nil {
			t.Fatal(err)
		}
		wantJobs(t, name+" dependents removed", c, "r3")

		// Expired: the job goes when the rule is purged.
		addFact(t, ctx, loc, "e", `{"ttl":"1s","rule":{"schedule":"+1h","action":{"code":"1"}}}`)
		wantJobs(t, name+" expiring", c, "e", "r3")
		time.Sleep(2100 * time.Millisecond)
		if _, err := loc.GetFact(ctx, "e"); err == nil {
			t.Fatalf("%s: expired rule found", name)
		}
		wantJobs(t, name+" expired", c, "r3")

		// Loaded again, with a cron service that has forgotten.
		c2 := &jobsCronner{jobs: make(map[string]string)}
		ctx2, loc2 := hookedLocation(t, linear, store, c2)
		wantJobs(t, name+" loaded", c2, "r3")

		// ... and with one that has not.
		c3 := &jobsCronner{jobs: make(map[string]string), persistent: true}
		hookedLocation(t, linear, store, c3)
		if calls := c3.takeCalls(); len(calls) != 0 {
			t.Fatalf("%s: calls %v while loading", name, calls)
		}

		// Loaded after a rule has expired, with a cron service
		// that still has the rule's job.
		c4 := &jobsCronner{jobs: make(map[string]string), persistent: true}
		ctx4, loc4 := hookedLocation(t, linear, store, c4)
		addFact(t, ctx4, loc4, "e", `{"ttl":"1s","rule":{"schedule":"+1h","action":{"code":"1"}}}`)
		wantJobs(t, name+" before reload", c4, "e")
		time.Sleep(2100 * time.Millisecond)
		ctx4, loc4 = hookedLocation(t, linear, store, c4)
		// (IndexedState drops the rule when it loads, LinearState
		// when it first sees it.)
		if !linear {
			wantJobs(t, name+" dropped", c4)
		}
		loc4.GetFact(ctx4, "e")
		wantJobs(t, name+" reloaded", c4)

		// Cleared (with an expired rule in it).
		addFact(t, ctx2, loc2, "e", `{"ttl":"1s","rule":{"schedule":"+1h","action":{"code":"1"}}}`)
		wantJobs(t, name+" before clear", c2, "e", "r3")
		time.Sleep(2100 * time.Millisecond)
		if err := loc2.Clear(ctx2); err != nil {
			t.Fatal(err)
		}
		wantJobs(t, name+" cleared", c2)
	}
}
