// Copyright 2015 Comcast Cable Communications Management, LLC
//
// Licensed under the Apache License, Version 2.0 (the "License");
// you may not use this file except in compliance with the License.
// You may obtain a copy of the License at
//
//     http://www.apache.org/licenses/LICENSE-2.0
//
// Unless required by applicable law or agreed to in writing, software
// distributed under the License is distributed on an "AS IS" BASIS,
// WITHOUT WARRANTIES OR CONDITIONS OF ANY KIND, either express or implied.
// See the License for the specific language governing permissions and
// limitations under the License.
//
// End Copyright

package core

import (
	"encoding/json"
	"sync"
	"testing"
	"time"
)

// heldStorage holds the first Add inside the storage call (before or
// after the write) until it is released.
type heldStorage struct {
	*MemStorage
	mu      sync.Mutex
	calls   int
	after   bool
	entered chan struct{}
	release chan struct{}
}

func (s *heldStorage) Add(ctx *Context, loc string, m *Pair) error {
	s.mu.Lock()
	s.calls++
	first := s.calls == 1
	s.mu.Unlock()
	if first && !s.after {
		close(s.entered)
		<-s.release
	}
	err := s.MemStorage.Add(ctx, loc, m)
	if first && s.after {
		close(s.entered)
		<-s.release
	}
	return err
}

// testStateOverlappingAdds starts a second Add of an id while a first
// one is inside its storage call.  Whatever the order, the state and
// its storage must end with the same fact.
func testStateOverlappingAdds(t *testing.T, after bool, newState func(ctx *Context, store Storage, loc string) (State, error)) {
	ctx := BenchContext("test")
	mem, _ := NewMemStorage(ctx)
	store := &heldStorage{MemStorage: mem, after: after,
		entered: make(chan struct{}), release: make(chan struct{})}
	s, err := newState(ctx, store, "test")
	if err != nil {
		t.Fatal(err)
	}
	if err = s.Load(ctx); err != nil {
		t.Fatal(err)
	}

	add := func(app string, js string, done chan error) {
		_, err := s.Add(BenchContext(app), "i1", mapJS(js))
		done <- err
	}
	done1, done2 := make(chan error, 1), make(chan error, 1)
	go add("one", `{"n":"one"}`, done1)
	<-store.entered
	go add("two", `{"n":"two"}`, done2)
	// Time for the second Add to overtake the first (it should not).
	select {
	case err := <-done2:
		done2 <- err
	case <-time.After(200 * time.Millisecond):
	}
	close(store.release)
	if err = <-done1; err != nil {
		t.Fatal(err)
	}
	if err = <-done2; err != nil {
		t.Fatal(err)
	}

	fact, err := s.Get(ctx, "i1")
	if err != nil {
		t.Fatal(err)
	}
	pairs, err := mem.Load(ctx, "test")
	if err != nil {
		t.Fatal(err)
	}
	if len(pairs) != 1 {
		t.Fatalf("%d records stored", len(pairs))
	}
	var stored Map
	if err = json.Unmarshal(pairs[0].V, &stored); err != nil {
		t.Fatal(err)
	}
	if fact["n"] != stored["n"] {
		t.Fatalf("memory has %v, storage has %v", fact["n"], stored["n"])
	}
}

func TestIndexedStateOverlappingAdds(t *testing.T) {
	for _, after := range []bool{false, true} {
		testStateOverlappingAdds(t, after, func(ctx *Context, store Storage, loc string) (State, error) {
			return NewIndexedState(ctx, loc, store)
		})
	}
}

func TestLinearStateOverlappingAdds(t *testing.T) {
	for _, after := range []bool{false, true} {
		testStateOverlappingAdds(t, after, func(ctx *Context, store Storage, loc string) (State, error) {
			return NewLinearState(ctx, loc, store)
		})
	}
}
