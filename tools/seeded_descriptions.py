#!/usr/bin/env python3
"""One-line descriptions of the seeded changes (from the agents' READMEs, kept beside each patch as
README.agent.md) and which strengthening of the checks each one caused; merged into seeded/*/meta.json."""
import json, os
ROOT = os.path.dirname(os.path.dirname(os.path.abspath(__file__)))
W = {
'C01-1':("PatternIndex.mod prunes 'empty' key nodes on removal but its emptiness test ignores Var/Map children","indexed state; a key with a constant-valued AND a variable/map-valued rule; removal of the last constant one; then a matching event",""),
'C01-2':("IndexedState.add: on add-hook rejection the index undo re-indexes the old rule BEFORE un-indexing the new one","a hook that rejects the replacement of a stored rule by a rule with the same when","validating (veto) add hook composed with the cron hooks in the dispatch profile; model clause State.vetoed"),
'C02-1':("TermIndex.Search prunes candidates in the index's own id set (no copy): searches are destructive","indexed state; a multi-term search with a false candidate, then a LATER search that needs the pruned term","the judges run also when model and code differ (failing input instead of a bare correspondence break)"),
'C02-2':("extractTermsAux adds property names to the term set directly (variables are no longer skipped)","a pattern with a property variable ({\"?p\":v})","D9's predicate narrowed so that this class is not excused"),
'C03-1':("a code term returning an object extends the SHARED incoming binding","object-returning code under or / not",""),
'C03-2':("PatternQuery.Exec caches the search of the pattern 'as written' across incoming bindings","an `or` whose branches bind different variables followed by a pattern using them, branches in the 'wrong' order","targeted or-then-pattern query template"),
'C04-1':("CodeQuery.Exec extends the incoming bindings instead of a copy","or of code terms returning objects","targeted rule conditions: or of object-returning code terms"),
'C04-2':("concurrent actions report into per-child slots: failed actions contribute nil to values","a rule with several concurrent actions one of which fails",""),
'C04-3':("ExecAction builds the action closure before copying the bindings: actions share the event","an action that writes to its event + another execution looking at it","script family: actions that write to `event`"),
'C05-1':("ISlice: 'nothing to convert' shortcut for empty slices (empty typed slices reach the matcher uncast)","Go-typed inputs with empty typed slices ([]string{}, []core.Map{})","Go-typed twin stream in the match harness"),
'C05-2':("SheensMatcher.Match de-duplicates bindings with a fmt.Sprint key (\"1\" and 1 collide)","two genuine binding sets that print alike",""),
'C05-3':("cast converts maps in place: the caller's typed pattern/data are rewritten","Go-typed inputs inspected (type-sensitively) after the call","typed twin + type-sensitive unmodified-input judge"),
'C06-1':("IndexedState.deleteDependencies logs and continues when removing a dependent fails","deleteWith cascade + storage fault on a dependent's Remove","scripted cascade-fault opening (chain p0<-d0<-d1, fault aimed at calls 3..5) in the durable profile; raw storage listing"),
'C06-2':("BoltStorage.Load hands out value slices aliasing Bolt's mmap","bolt + linear state + reload + later writes + search of reloaded facts",""),
'C06-3':("IndexedState.Add skips Store.Add when the prepared fact equals the one in memory","failed storage Add, then an identical retry, then reload",""),
'C07-1':("IndexedState.expire returns (false, err) when the purge's storage Remove fails: the expired item is returned once","storage fault exactly on the purge","storage faults in the expiry profile + scripted purge-fault opening"),
'C07-2':("IndexedState.Load purges an expired stored record with s.rem (memory only)","write with ttl, no observation until after expiry, reload, inspect STORAGE","raw storage listing op (storeids)"),
'C07-3':("notAfter treats secs <= 0 as 'no expiration'","an expiry instant at or before the UNIX epoch","pre-epoch expiry encodings; observation-only judge 'an accepted write was already expired'"),
'C08-1':("deleteDependencies removes every id the term index returns, without the re-match","a dependent that also MENTIONS another id in an ordinary field / property facts whose value is an id","cascade profile: dependents that mention ids in ordinary fields; harness-death retry in child processes (the change also recurses without bound)"),
'C08-2':("Location.AddRule lifts deleteWith to the wrapper only when the rule has no expiry","a dependent RULE with deleteWith and a ttl/expires of its own","cascade profile: expiring dependent rules"),
'C09-1':("doAncestors calls fn(loc) before walking the parents: the context is left on the last ancestor","parent + rule with a pattern condition + action writing through Env.*",""),
'C09-2':("parents loop: break instead of continue for an already visited parent","device -> [house, region, tenant], house -> [region]",""),
'C10-1':("FindRules.Do consults RuleEnabled only for rules with a when: disabled scheduled rules fire on trigger!","a disabled when-less rule + a trigger! event","lifecycle profile: scheduled rules, trigger! events; model keeps GetRule's error class on the trigger path"),
'C10-2':("doFindRules skips expired rules without removing them: the disabled flag of an expired rule survives its re-add","add with expiry, disable, expire, event, re-add, event","scripted expire-while-disabled opening in the expiry profile; C10 also runs that profile"),
'C11-1':("ensureStorage: lock-free fast path, re-check under the lock dropped","concurrent first requests to a fresh System",""),
'C11-2':("HTTPService.ServeHTTP uses the shared s.Ctx instead of a per-request sub-context","two in-flight HTTP requests for different locations, the victim evaluating a second script that uses Env.*","new domain conc-http (non-interference oracle through the service layer)"),
'C12-1':("ruleCache.get no longer re-checks that the cached entry was parsed from the stored body","a dispatch between the writer's cache drop and its install, then a later event","new domain conc-steer (deterministic interleavings at log-record granularity); final events in the observation"),
'C12-2':("FindCachedRules takes the read lock around doFindRules (nested RLock): deadlock with a writer in between","a writer's Lock between the two RLocks",""),
'C13-1':("IndexedState.Search returns on a matcher error without releasing the read lock","a rejected search (two array variables) with a stored fact sharing the key; the NEXT write hangs",""),
'C13-2':("searchFactsAncestors returns nil results with its error; ListRules dereferences before checking","a fact {\"!parents\":[own location]} + ListRules inherited","listrules op (harness + model); self-parent property facts in the fuzz profile; panic class judged"),
'C13-3':("IndexedState.add revokes the hook privilege explicitly and returns before it on hook error: the write lock stays held","System hooks + a rejected add + a DIFFERENT context for the next request","hooks in one third of the fuzz cases"),
'C14-1':("Env.sleep wakes on the Interrupt channel and swallows the halt closure","a script inside Env.sleep when the limit expires that evaluates something afterwards","Env.sleep script families in the js domain"),
'C14-2':("timeout <= 0 falls back to the default (a negative control means 'no limit')","negative location timeout + non-negative default + a script longer than the default",""),
'C15-1':("FindRules.Do keeps the body's own id member on the trigger path: RuleDone removes by the wrong id","a stored scheduled rule whose body carries another id + a one-shot schedule + the tick","cronhooks profile: rule bodies with an id member, more one-shot schedules"),
'C15-2':("System.newLocation installs the cron hooks after NewLocation (after the load)","ephemeral cron + a location reloaded from storage","cron-sys: restart scenario (second System + fresh cron over the same Bolt file); this also exposed D55"),
'C16-1':("Cron.insert re-arms the timer only when the job became the head","re-Add of the head's id with a later due time than another pending job",""),
'C16-2':("crolt Cron.delete computes the partition from the job id instead of the account","account names shorter than 4 bytes",""),
'C17-1':("NewSystem forces CachePending after SetControl (on the by-value copy)","TTL never + two overlapping requests on one location","cache stress: overlapping requests under TTL never must share one load; bin/check's read-only spec_ops filter (single-load had been filtered out)"),
'C17-2':("Open passes check=false for a waiter of an entry another request is loading","existence checking on, never-created location, a second request during the first's (failing) load","cache stress: overlapping first requests to a never-created location"),
'C18-1':("MaybeYAML: newline < len(bs)-1","a single-line YAML body",""),
'C18-2':("facts/add renders {\"id\":\"%s\"} with Sprintf","ids containing quotes/backslashes/control characters",""),
'C19-1':("Location.searchRules drops its CheckRead (the exported SearchRules checks)","inherited rule search / event on a read-protected (parent) location",""),
'C19-2':("RuleDone.Do retires a one-shot rule with state.Rem instead of RemRule","one-shot scheduled rule + protection + a keyless trigger event",""),
'C20-1':("AddFact/AddRule at capacity allow a 'replacement' judged by the caller's id","location exactly full + existing id + a property-shaped fact (stored under a derived id)",""),
'C20-2':("OutboundBreaker.Do updates `updated` only on the first hit of a tick","limit >= 2, two admissions in one tick, a caller just before the late hit's true expiry",""),
}
for k, (what, needs, st) in W.items():
    p = os.path.join(ROOT, 'seeded', k, 'meta.json')
    if not os.path.exists(p):
        print('missing', k)
        continue
    m = json.load(open(p))
    m['what'], m['needs'] = what, needs
    if st:
        m['strengthened'] = st
    m.setdefault('property', k.split('-')[0])
    json.dump(m, open(p, 'w'), indent=1)
