#!/bin/bash
# tools/verify_seed.sh <patch.diff> <demo file or dir> [suite]
# Confirms a seeded change in a scratch worktree of /repo (outside /repo and /verif):
#   1. the demonstration passes on the unchanged tree,
#   2. the patch applies and the project builds,
#   3. (with "suite") the existing test suite passes with the patch (TestHTTPRequestBasic
#      and crolt's TestCron are the baseline's always-failing / flaky tests),
#   4. the demonstration fails with the patch.
# Prints one line per step; removes the worktree afterwards.
set -u
PATCH=$(readlink -f "$1"); DEMO=$(readlink -f "$2"); SUITE=${3:-}
export GOFLAGS=-mod=mod GOPROXY=off GOSUMDB=off GOTOOLCHAIN=local
WT=$(mktemp -d /tmp/seedwt.XXXXXX)
git -C /repo worktree add --detach "$WT/repo" >/dev/null 2>&1 || { echo "cannot create worktree"; exit 2; }
cleanup() { git -C /repo worktree remove --force "$WT/repo" >/dev/null 2>&1; rm -rf "$WT"; }
trap cleanup EXIT
cd "$WT/repo"
rundemo() {
  if [ -d "$DEMO" ]; then
    rm -rf "$WT/demo"; cp -r "$DEMO" "$WT/demo"; cd "$WT/demo"
    sed -i "s#=> /tmp/mut/[A-Za-z0-9]*/repo#=> $WT/repo#; s#=> /repo#=> $WT/repo#" go.mod 2>/dev/null
    cp "$WT/repo/go.sum" . 2>/dev/null
    timeout 600 go run . >"$WT/demo.out" 2>&1; rc=$?
    cd "$WT/repo"; return $rc
  else
    pkg=$(grep -m1 '^package ' "$DEMO" | awk '{print $2}')
    pkg=${pkg%_test}
    dir=core; case "$pkg" in sys) dir=sys;; service) dir=service;; cron) dir=cron;; bolt) dir=storage/bolt;; main) dir=crolt;; esac
    [ -n "${DEMO_DIR:-}" ] && dir=$DEMO_DIR
    cp "$DEMO" "$dir/zz_seed_demo_test.go"
    names=$(grep -o '^func Test[A-Za-z0-9_]*' "$dir/zz_seed_demo_test.go" | sed 's/func //' | paste -sd'|')
    timeout 900 go test -vet=off -count=1 -run "^($names)\$" "./$dir/" >"$WT/demo.out" 2>&1; rc=$?
    rm -f "$dir/zz_seed_demo_test.go"; return $rc
  fi
}
rundemo; r0=$?
echo "demo on unchanged tree: rc=$r0 (expected 0)"; [ $r0 -ne 0 ] && tail -5 "$WT/demo.out"
git apply "$PATCH" || { echo "patch does not apply"; exit 1; }
go build ./... >"$WT/build.out" 2>&1; echo "build with patch: rc=$?"
if [ "$SUITE" = suite ]; then
  timeout 1500 go test -vet=off -count=1 ./... 2>&1 | grep -v '^{' | grep '^--- FAIL\|^FAIL\|^ok\|^panic' | grep -v 'TestHTTPRequestBasic\|TestCron$' > "$WT/suite.out"
  bad=$(grep '^--- FAIL' "$WT/suite.out" | wc -l)
  echo "suite with patch: unexpected failing tests=$bad"; grep '^--- FAIL' "$WT/suite.out"
fi
rundemo; r1=$?
echo "demo with patch: rc=$r1 (expected non-zero)"; tail -4 "$WT/demo.out" | cut -c1-200
