#!/bin/bash
# tools/run_seed.sh <patch.diff> <prop> [<prop> ...]
# Applies a seeded change to /repo, runs the quick checks of the given properties
# (seed 1 and seed 2), and undoes the change straight afterwards.
PATCH=$(readlink -f "$1"); shift
cd "${SEED_VERIF:-/verif}"
REPO="${VERIF_REPO:-/repo}"
git -C "$REPO" apply "$PATCH" || { echo "patch does not apply to /repo"; exit 2; }
trap 'git -C "$REPO" checkout -- . ; git -C "$REPO" clean -fdq' EXIT
for p in "$@"; do
  for seed in 1 2; do
    out=$(bin/check $p --seed $seed 2>&1); rc=$?
    echo "$p seed=$seed rc=$rc $(echo "$out" | grep -c '^VIOLATION') violation line(s): $(echo "$out" | grep '^VIOLATION' | head -2 | tr '\n' ' ' | cut -c1-260)"
    echo "$out" | tail -1 | cut -c1-200
    [ $rc -eq 1 ] && break
  done
done
