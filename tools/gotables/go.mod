module verif/gotables

go 1.14
