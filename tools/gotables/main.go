// gotables regenerates Gallina tables from Comcast/rulio's Go source
// (syntactically, with go/parser; standard library only):
//
//	GateTable.v     for every method of core.Location: the source-order
//	                sequence of gate calls (Enabled, CheckWrite, CheckRead,
//	                AtCapacity), state accesses and calls to other Location
//	                methods; and for every JavaScript location function the
//	                Location methods it calls.
//	DispatchTable.v for every `case "/api/..."` of Service.ProcessRequest:
//	                parameter getters used and System methods called; plus
//	                parameterTypes of httpd.go; plus (dispatch_getters,
//	                dispatch_calls, dispatch_effects) for every case: each
//	                getter with "is the parameter required" and "is the
//	                getter's error returned to the caller by the very next
//	                statement", each System call with "is its error
//	                returned", and the source-order re-dispatch effects
//	                (m["k"] = literal, recursive s.ProcessRequest calls
//	                and whether their result is used / their error
//	                returned).
//	LockTable.v     for every method of IndexedState / LinearState: the
//	                source-order sequence of lock, unlock, cache, map/index
//	                and Store events.
//
// Usage: gotables -repo /repo -out DIR
package main

import (
	"flag"
	"fmt"
	"go/ast"
	"go/parser"
	"go/token"
	"os"
	"path/filepath"
	"sort"
	"strconv"
	"strings"
)

func die(f string, a ...interface{}) {
	fmt.Fprintf(os.Stderr, "gotables: "+f+"\n", a...)
	os.Exit(1)
}

func parseDir(fset *token.FileSet, dir string) []*ast.File {
	ents, err := os.ReadDir(dir)
	if err != nil {
		die("%v", err)
	}
	var files []*ast.File
	for _, e := range ents {
		n := e.Name()
		if !strings.HasSuffix(n, ".go") || strings.HasSuffix(n, "_test.go") || strings.HasPrefix(n, "verif") {
			continue
		}
		f, err := parser.ParseFile(fset, filepath.Join(dir, n), nil, 0)
		if err != nil {
			die("parse %s: %v", n, err)
		}
		files = append(files, f)
	}
	return files
}

func exprString(e ast.Expr) string {
	switch x := e.(type) {
	case *ast.Ident:
		return x.Name
	case *ast.SelectorExpr:
		return exprString(x.X) + "." + x.Sel.Name
	case *ast.CallExpr:
		return exprString(x.Fun) + "()"
	case *ast.StarExpr:
		return "*" + exprString(x.X)
	case *ast.ParenExpr:
		return exprString(x.X)
	case *ast.IndexExpr:
		return exprString(x.X) + "[]"
	case *ast.UnaryExpr:
		return x.Op.String() + exprString(x.X)
	}
	return "?"
}

func recvName(fd *ast.FuncDecl) (string, string) {
	if fd.Recv == nil || len(fd.Recv.List) == 0 {
		return "", ""
	}
	r := fd.Recv.List[0]
	t := exprString(r.Type)
	t = strings.TrimPrefix(t, "*")
	name := ""
	if len(r.Names) > 0 {
		name = r.Names[0].Name
	}
	return name, t
}

func coqStr(s string) string { return `"` + strings.ReplaceAll(s, `"`, `""`) + `"` }

func coqList(xs []string) string {
	q := make([]string, len(xs))
	for i, x := range xs {
		q[i] = coqStr(x)
	}
	return "[" + strings.Join(q, "; ") + "]"
}

// ---------------------------------------------------------------- GateTable

var propFuncs = map[string]string{
	"SetProp": "write", "RemProp": "write", "GetProp": "read", "GetPropString": "read", "getProp": "read",
}

// events of a Location method body, in source order
func locEvents(recv string, body *ast.BlockStmt) []string {
	var evs []string
	ast.Inspect(body, func(n ast.Node) bool {
		call, ok := n.(*ast.CallExpr)
		if !ok {
			return true
		}
		f := exprString(call.Fun)
		switch {
		case f == recv+".Enabled":
			evs = append(evs, "gate:Enabled")
		case f == recv+".CheckWrite":
			evs = append(evs, "gate:CheckWrite")
		case f == recv+".CheckRead":
			evs = append(evs, "gate:CheckRead")
		case f == recv+".AtCapacity":
			evs = append(evs, "gate:AtCapacity")
		case strings.HasPrefix(f, recv+".state."):
			evs = append(evs, "state:"+strings.TrimPrefix(f, recv+".state."))
		case propFuncs[f] != "" && len(call.Args) >= 2 && exprString(call.Args[1]) == recv+".state":
			evs = append(evs, "state:"+f)
		case strings.HasPrefix(f, recv+".") && strings.Count(f, ".") == 1:
			evs = append(evs, "call:"+strings.TrimPrefix(f, recv+"."))
		case strings.HasPrefix(f, "parent.") && strings.Count(f, ".") == 1:
			// the callback handed to DoAncestors runs on each ancestor
			evs = append(evs, "call:"+strings.TrimPrefix(f, "parent."))
		case f == "ExecQuery":
			evs = append(evs, "call:SearchLocations")
		case f == recv+".WorkWalk" || f == "WorkWalk":
			evs = append(evs, "call:WorkWalk")
		}
		return true
	})
	return evs
}

func genGateTable(repo, out string) {
	fset := token.NewFileSet()
	files := parseDir(fset, filepath.Join(repo, "core"))
	type entry struct {
		name string
		evs  []string
	}
	var entries []entry
	var jsFuncs []entry
	for _, f := range files {
		for _, d := range f.Decls {
			fd, ok := d.(*ast.FuncDecl)
			if !ok || fd.Body == nil {
				continue
			}
			rn, rt := recvName(fd)
			if rt == "Location" && rn != "" {
				evs := locEvents(rn, fd.Body)
				if fd.Name.Name == "WorkWalk" {
					// the walk calls the Do method of every node of the work tree
					evs = append(evs, "call:FindRules.Do", "call:EvalRuleCondition.Do", "call:ExecRuleAction.Do", "call:RuleDone.Do")
				}
				entries = append(entries, entry{fd.Name.Name, evs})
			} else if fd.Type.Params != nil {
				// functions and methods that take the location as a parameter named loc
				for _, prm := range fd.Type.Params.List {
					if exprString(prm.Type) == "*Location" && len(prm.Names) == 1 && prm.Names[0].Name == "loc" {
						name := fd.Name.Name
						if rt != "" {
							name = rt + "." + name
						}
						if name != "LocationFunctions" {
							entries = append(entries, entry{name, locEvents("loc", fd.Body)})
						}
					}
				}
			}
			if fd.Recv == nil && fd.Name.Name == "LocationFunctions" {
				// env["name"] = func(...) {... loc.X(ctx, ...) ...}
				ast.Inspect(fd.Body, func(n ast.Node) bool {
					as, ok := n.(*ast.AssignStmt)
					if !ok || len(as.Lhs) != 1 || len(as.Rhs) != 1 {
						return true
					}
					ix, ok := as.Lhs[0].(*ast.IndexExpr)
					if !ok || exprString(ix.X) != "env" {
						return true
					}
					lit, ok := ix.Index.(*ast.BasicLit)
					if !ok {
						return true
					}
					name, _ := strconv.Unquote(lit.Value)
					fl, ok := as.Rhs[0].(*ast.FuncLit)
					if !ok {
						return true
					}
					var calls []string
					ast.Inspect(fl.Body, func(m ast.Node) bool {
						c, ok := m.(*ast.CallExpr)
						if !ok {
							return true
						}
						fn := exprString(c.Fun)
						if strings.HasPrefix(fn, "loc.") && strings.Count(fn, ".") == 1 {
							// does it pass the caller's ctx?
							arg0 := ""
							if len(c.Args) > 0 {
								arg0 = exprString(c.Args[0])
							}
							calls = append(calls, strings.TrimPrefix(fn, "loc.")+"@"+arg0)
						}
						return true
					})
					jsFuncs = append(jsFuncs, entry{name, calls})
					return false
				})
			}
		}
	}
	sort.Slice(entries, func(i, j int) bool { return entries[i].name < entries[j].name })
	sort.Slice(jsFuncs, func(i, j int) bool { return jsFuncs[i].name < jsFuncs[j].name })
	var b strings.Builder
	b.WriteString("(* GENERATED by tools/gotables from /repo/core/*.go on every run. Do not edit. *)\n")
	b.WriteString("From Coq Require Import String List.\nImport ListNotations.\nOpen Scope string_scope.\n\n")
	b.WriteString("(** method of core.Location -> source-order events: gate:X, state:X (state access), call:X (other Location method) *)\n")
	b.WriteString("Definition location_methods : list (string * list string) := [\n")
	for i, e := range entries {
		sep := ";"
		if i == len(entries)-1 {
			sep = ""
		}
		fmt.Fprintf(&b, "  (%s, %s)%s\n", coqStr(e.name), coqList(e.evs), sep)
	}
	b.WriteString("].\n\n")
	b.WriteString("(** JavaScript location function -> Location methods it calls (method@first-argument) *)\n")
	b.WriteString("Definition js_location_functions : list (string * list string) := [\n")
	for i, e := range jsFuncs {
		sep := ";"
		if i == len(jsFuncs)-1 {
			sep = ""
		}
		fmt.Fprintf(&b, "  (%s, %s)%s\n", coqStr(e.name), coqList(e.evs), sep)
	}
	b.WriteString("].\n")
	write(filepath.Join(out, "GateTable.v"), b.String())
}

// ---------------------------------------------------------------- DispatchTable

type getterFact struct {
	getter, param     string
	required, checked bool
}

var getterNames = map[string]bool{"GetStringParam": true, "getBoolParam": true, "getMapParam": true, "GetMapParam": true, "getStringParam": true}

// errReturnedBy: is st `if err != nil { ...; return ..., err }` (or `nil != err`)
// with the return directly in the if body?
func errReturnedBy(st ast.Stmt) bool {
	is, ok := st.(*ast.IfStmt)
	if !ok || is.Init != nil {
		return false
	}
	return condIsErrNotNil(is.Cond) && bodyReturnsErr(is.Body)
}

func condIsErrNotNil(c ast.Expr) bool {
	be, ok := c.(*ast.BinaryExpr)
	if !ok || be.Op != token.NEQ {
		return false
	}
	a, b := exprString(be.X), exprString(be.Y)
	return (a == "err" && b == "nil") || (a == "nil" && b == "err")
}

func bodyReturnsErr(b *ast.BlockStmt) bool {
	for _, st := range b.List {
		if rs, ok := st.(*ast.ReturnStmt); ok && len(rs.Results) > 0 {
			return exprString(rs.Results[len(rs.Results)-1]) == "err"
		}
	}
	return false
}

// lhsHasErr: does the assignment bind an identifier named err (last position)?
func lhsHasErr(as *ast.AssignStmt) bool {
	if len(as.Lhs) == 0 {
		return false
	}
	return exprString(as.Lhs[len(as.Lhs)-1]) == "err"
}

// refineCase walks the statement lists of one case body (nested blocks
// included, in source order) and classifies getter calls, System calls and
// re-dispatch effects.
func refineCase(body []ast.Stmt) (gs []getterFact, calls []string, effects []string) {
	var walkList func(list []ast.Stmt)
	classifyCall := func(c *ast.CallExpr, as *ast.AssignStmt, next ast.Stmt, selfChecked bool) {
		fn := exprString(c.Fun)
		checked := selfChecked
		hasErr := as != nil && lhsHasErr(as)
		if !checked && hasErr && next != nil && errReturnedBy(next) {
			checked = true
		}
		switch {
		case getterNames[fn] && len(c.Args) >= 3:
			p := "?"
			if l, ok := c.Args[1].(*ast.BasicLit); ok {
				p, _ = strconv.Unquote(l.Value)
			}
			gs = append(gs, getterFact{fn, p, exprString(c.Args[2]) == "true", checked})
		case strings.HasPrefix(fn, "s.System."):
			m := strings.TrimPrefix(fn, "s.System.")
			switch {
			case !hasErr && !selfChecked:
				calls = append(calls, m+":noerr")
			case checked:
				calls = append(calls, m+":checked")
			default:
				calls = append(calls, m+":unchecked")
			}
		case fn == "s.ProcessRequest":
			used := "ignored"
			if as != nil {
				for _, l := range as.Lhs {
					if exprString(l) != "_" {
						used = "used"
					}
				}
			}
			if checked {
				used = "checked" // the error of the inner request is returned
			}
			out := "out"
			if len(c.Args) >= 3 && exprString(c.Args[2]) != "out" {
				out = "discard"
			}
			effects = append(effects, "redispatch:"+used+":"+out)
		}
	}
	var walkStmt func(st ast.Stmt, next ast.Stmt)
	walkStmt = func(st ast.Stmt, next ast.Stmt) {
		switch x := st.(type) {
		case *ast.AssignStmt:
			// m["key"] = literal
			if len(x.Lhs) == 1 && len(x.Rhs) == 1 {
				if ix, ok := x.Lhs[0].(*ast.IndexExpr); ok && exprString(ix.X) == "m" {
					if k, ok := ix.Index.(*ast.BasicLit); ok {
						ks, _ := strconv.Unquote(k.Value)
						vs := exprString(x.Rhs[0])
						if l, ok := x.Rhs[0].(*ast.BasicLit); ok && l.Kind == token.STRING {
							vs, _ = strconv.Unquote(l.Value)
						}
						effects = append(effects, "set:"+ks+"="+vs)
					}
				}
			}
			for _, r := range x.Rhs {
				if c, ok := r.(*ast.CallExpr); ok {
					classifyCall(c, x, next, false)
				}
			}
		case *ast.ExprStmt:
			if c, ok := x.X.(*ast.CallExpr); ok {
				classifyCall(c, nil, next, false)
			}
		case *ast.IfStmt:
			if as, ok := x.Init.(*ast.AssignStmt); ok {
				self := condIsErrNotNil(x.Cond) && bodyReturnsErr(x.Body)
				for _, r := range as.Rhs {
					if c, ok := r.(*ast.CallExpr); ok {
						classifyCall(c, as, nil, self)
					}
				}
			}
			walkList(x.Body.List)
			if x.Else != nil {
				walkStmt(x.Else, nil)
			}
		case *ast.BlockStmt:
			walkList(x.List)
		case *ast.ForStmt:
			walkList(x.Body.List)
		case *ast.RangeStmt:
			walkList(x.Body.List)
		case *ast.SwitchStmt:
			walkList(x.Body.List)
		case *ast.TypeSwitchStmt:
			walkList(x.Body.List)
		case *ast.CaseClause:
			walkList(x.Body)
		case *ast.GoStmt, *ast.DeferStmt:
			// asynchronous / deferred work is not part of the dispatch result
		}
	}
	walkList = func(list []ast.Stmt) {
		for i, st := range list {
			var next ast.Stmt
			if i+1 < len(list) {
				next = list[i+1]
			}
			walkStmt(st, next)
		}
	}
	walkList(body)
	return
}

func genDispatchTable(repo, out string) {
	fset := token.NewFileSet()
	files := parseDir(fset, filepath.Join(repo, "service"))
	type entry struct {
		uri     string
		getters []string
		calls   []string
		// refined facts (C18)
		getters4 []getterFact
		calls2   []string
		effects  []string
		fn       string // enclosing function
	}
	var entries []entry
	var ptypes [][2]string
	for _, f := range files {
		curFn := ""
		ast.Inspect(f, func(n ast.Node) bool {
			switch x := n.(type) {
			case *ast.FuncDecl:
				curFn = x.Name.Name
			case *ast.CaseClause:
				for _, e := range x.List {
					lit, ok := e.(*ast.BasicLit)
					if !ok || lit.Kind != token.STRING {
						continue
					}
					uri, _ := strconv.Unquote(lit.Value)
					if !strings.HasPrefix(uri, "/api/") {
						continue
					}
					en := entry{uri: uri, fn: curFn}
					for _, st := range x.Body {
						ast.Inspect(st, func(m ast.Node) bool {
							c, ok := m.(*ast.CallExpr)
							if !ok {
								return true
							}
							fn := exprString(c.Fun)
							switch {
							case fn == "GetStringParam" || fn == "getBoolParam" || fn == "getMapParam" || fn == "GetMapParam" || fn == "getStringParam":
								if len(c.Args) >= 2 {
									p := "?"
									req := "?"
									if l, ok := c.Args[1].(*ast.BasicLit); ok {
										p, _ = strconv.Unquote(l.Value)
									}
									if len(c.Args) >= 3 {
										req = exprString(c.Args[2])
									}
									en.getters = append(en.getters, fn+":"+p+":"+req)
								}
							case strings.HasPrefix(fn, "s.System."):
								en.calls = append(en.calls, strings.TrimPrefix(fn, "s.System."))
							}
							return true
						})
					}
					en.getters4, en.calls2, en.effects = refineCase(x.Body)
					entries = append(entries, en)
				}
			case *ast.ValueSpec:
				if len(x.Names) == 1 && x.Names[0].Name == "parameterTypes" && len(x.Values) == 1 {
					if cl, ok := x.Values[0].(*ast.CompositeLit); ok {
						for _, el := range cl.Elts {
							kv, ok := el.(*ast.KeyValueExpr)
							if !ok {
								continue
							}
							k, ok := kv.Key.(*ast.BasicLit)
							if !ok {
								continue
							}
							ks, _ := strconv.Unquote(k.Value)
							vs := exprString(kv.Value)
							if l, ok := kv.Value.(*ast.BasicLit); ok {
								vs, _ = strconv.Unquote(l.Value)
							}
							ptypes = append(ptypes, [2]string{ks, vs})
						}
					}
				}
			}
			return true
		})
	}
	sort.Slice(entries, func(i, j int) bool { return entries[i].uri < entries[j].uri })
	sort.Slice(ptypes, func(i, j int) bool { return ptypes[i][0] < ptypes[j][0] })
	var b strings.Builder
	b.WriteString("(* GENERATED by tools/gotables from /repo/service/*.go on every run. Do not edit. *)\n")
	b.WriteString("From Coq Require Import String List.\nImport ListNotations.\nOpen Scope string_scope.\n\n")
	b.WriteString("(** uri -> (parameter getters \"getter:param:required\", System methods called) *)\n")
	b.WriteString("Definition dispatch_table : list (string * (list string * list string)) := [\n")
	for i, e := range entries {
		sep := ";"
		if i == len(entries)-1 {
			sep = ""
		}
		fmt.Fprintf(&b, "  (%s, (%s, %s))%s\n", coqStr(e.uri), coqList(e.getters), coqList(e.calls), sep)
	}
	b.WriteString("].\n\n")
	// refined tables (only for the cases of Service.ProcessRequest and ServeHTTP; duplicates kept)
	b.WriteString("(** uri -> getters in source order: (getter, parameter, required, checked) where\n")
	b.WriteString("    checked = the statement right after the call is `if err != nil { return ..., err }`\n")
	b.WriteString("    (the getter's error reaches the caller) *)\n")
	b.WriteString("Definition dispatch_getters : list (string * list (string * string * bool * bool)) := [\n")
	for i, e := range entries {
		sep := ";"
		if i == len(entries)-1 {
			sep = ""
		}
		var gs []string
		for _, g := range e.getters4 {
			gs = append(gs, fmt.Sprintf("(%s, %s, %v, %v)", coqStr(g.getter), coqStr(g.param), g.required, g.checked))
		}
		fmt.Fprintf(&b, "  (%s, [%s])%s\n", coqStr(e.uri), strings.Join(gs, "; "), sep)
	}
	b.WriteString("].\n\n")
	b.WriteString("(** uri -> System calls in source order, \"Method:checked\" (error returned by the next statement),\n")
	b.WriteString("    \"Method:unchecked\" (an error result exists and is not returned) or \"Method:noerr\" *)\n")
	b.WriteString("Definition dispatch_calls : list (string * list string) := [\n")
	for i, e := range entries {
		sep := ";"
		if i == len(entries)-1 {
			sep = ""
		}
		fmt.Fprintf(&b, "  (%s, %s)%s\n", coqStr(e.uri), coqList(e.calls2), sep)
	}
	b.WriteString("].\n\n")
	b.WriteString("(** uri -> re-dispatch effects in source order: \"set:key=literal\" for m[\"key\"] = literal,\n")
	b.WriteString("    \"redispatch:checked|used|ignored:out|discard\" for a recursive s.ProcessRequest(ctx, m, out|ioutil.Discard)\n")
	b.WriteString("    whose error is returned / whose results are used / thrown away *)\n")
	b.WriteString("Definition dispatch_effects : list (string * list string) := [\n")
	for i, e := range entries {
		sep := ";"
		if i == len(entries)-1 {
			sep = ""
		}
		fmt.Fprintf(&b, "  (%s, %s)%s\n", coqStr(e.uri), coqList(e.effects), sep)
	}
	b.WriteString("].\n\n")
	b.WriteString("(** (case label, enclosing Go function), duplicates removed *)\n")
	b.WriteString("Definition dispatch_sites : list (string * string) := [\n")
	{
		var sites []string
		seen := map[string]bool{}
		for _, e := range entries {
			k := fmt.Sprintf("(%s, %s)", coqStr(e.uri), coqStr(e.fn))
			if !seen[k] {
				seen[k] = true
				sites = append(sites, k)
			}
		}
		b.WriteString("  " + strings.Join(sites, ";\n  ") + "\n")
	}
	b.WriteString("].\n\n")
	b.WriteString("Definition parameter_types : list (string * string) := [\n")
	for i, p := range ptypes {
		sep := ";"
		if i == len(ptypes)-1 {
			sep = ""
		}
		fmt.Fprintf(&b, "  (%s, %s)%s\n", coqStr(p[0]), coqStr(p[1]), sep)
	}
	b.WriteString("].\n")
	write(filepath.Join(out, "DispatchTable.v"), b.String())
}

// ---------------------------------------------------------------- LockTable

func genLockTable(repo, out string) {
	fset := token.NewFileSet()
	files := parseDir(fset, filepath.Join(repo, "core"))
	type entry struct {
		typ, name string
		evs       []string
	}
	var entries []entry
	hookHelpers := map[string]bool{}
	for _, f := range files {
		for _, d := range f.Decls {
			if fd, ok := d.(*ast.FuncDecl); ok && fd.Recv == nil && fd.Body != nil {
				for _, fld := range fd.Type.Params.List {
					if t := exprString(fld.Type); t == "RemHookFn" || t == "AddHookFn" {
						hookHelpers[fd.Name.Name] = true
					}
				}
			}
		}
	}
	for _, f := range files {
		for _, d := range f.Decls {
			fd, ok := d.(*ast.FuncDecl)
			if !ok || fd.Body == nil {
				continue
			}
			rn, rt := recvName(fd)
			hookParam := ""
			if fd.Recv == nil {
				// a package-level helper that is handed one of the state's hooks (runRemHook): its
				// body is listed under both state types, the call of the parameter as the hook call
				for _, fld := range fd.Type.Params.List {
					t := exprString(fld.Type)
					if (t == "RemHookFn" || t == "AddHookFn") && len(fld.Names) == 1 {
						hookParam = fld.Names[0].Name
						rt = map[string]string{"RemHookFn": "remHook", "AddHookFn": "addHook"}[t]
					}
				}
				if hookParam == "" {
					continue
				}
				rn = "\x00"
			} else if (rt != "IndexedState" && rt != "LinearState") || rn == "" {
				continue
			}
			if fd.Name.Name == "slock" || fd.Name.Name == "sunlock" {
				continue
			}
			var evs []string
			ast.Inspect(fd.Body, func(n ast.Node) bool {
				switch x := n.(type) {
				case *ast.DeferStmt:
					fn := exprString(x.Call.Fun)
					if fn == rn+".sunlock" {
						mode := "w"
						if len(x.Call.Args) == 2 && exprString(x.Call.Args[1]) == "true" {
							mode = "r"
						}
						evs = append(evs, "defer-unlock:"+mode)
						return false
					}
					// a deferred call of a method of the same receiver
					// (say `defer s.purge(ctx)`) runs when the method
					// returns, in LIFO order with the deferred unlocks
					if strings.HasPrefix(fn, rn+".") && strings.Count(fn, ".") == 1 {
						evs = append(evs, "defer-call:"+strings.TrimPrefix(fn, rn+"."))
						return false
					}
					if fn == "ctx.revokePrivilege" {
						evs = append(evs, "defer-call:revokePrivilege")
						return false
					}
				case *ast.CallExpr:
					fn := exprString(x.Fun)
					switch {
					case fn == rn+".slock" || fn == rn+".sunlock":
						mode := "w"
						if len(x.Args) == 2 && exprString(x.Args[1]) == "true" {
							mode = "r"
						}
						if len(x.Args) == 2 && exprString(x.Args[1]) != "true" && exprString(x.Args[1]) != "false" {
							mode = "?"
						}
						kind := "lock:"
						if fn == rn+".sunlock" {
							kind = "unlock:"
						}
						evs = append(evs, kind+mode)
					case fn == "ctx.grantPrivilege" || fn == "ctx.revokePrivilege":
						// the "hook" privilege: with it slock/sunlock do nothing (a hook can use the state
						// although its caller holds the lock)
						evs = append(evs, "call:"+strings.TrimPrefix(fn, "ctx."))
					case hookParam != "" && fn == hookParam:
						evs = append(evs, "call:"+rt)
					case fd.Recv != nil && hookHelpers[fn]:
						evs = append(evs, "call:"+fn)
					case strings.HasPrefix(fn, rn+".Store.") || strings.HasPrefix(fn, rn+".store."):
						evs = append(evs, "store:"+fn[strings.LastIndex(fn, ".")+1:])
					case fn == "delete" && len(x.Args) == 2:
						evs = append(evs, "delete:"+strings.TrimPrefix(exprString(x.Args[0]), rn+"."))
					case strings.HasPrefix(fn, rn+".") && strings.Count(fn, ".") == 1:
						evs = append(evs, "call:"+strings.TrimPrefix(fn, rn+"."))
					case strings.HasPrefix(fn, rn+".FactIndex.") || strings.HasPrefix(fn, rn+".RuleIndex."):
						evs = append(evs, "index:"+fn[strings.LastIndex(fn, ".")+1:])
					}
				case *ast.AssignStmt:
					for _, l := range x.Lhs {
						if ix, ok := l.(*ast.IndexExpr); ok {
							t := exprString(ix.X)
							if strings.HasPrefix(t, rn+".") {
								evs = append(evs, "write:"+strings.TrimPrefix(t, rn+"."))
							}
						} else if se, ok := l.(*ast.SelectorExpr); ok && exprString(se.X) == rn {
							evs = append(evs, "write:"+se.Sel.Name)
						}
					}
					for _, r := range x.Rhs {
						if ix, ok := r.(*ast.IndexExpr); ok {
							t := exprString(ix.X)
							if strings.HasPrefix(t, rn+".") {
								evs = append(evs, "read:"+strings.TrimPrefix(t, rn+"."))
							}
						}
					}
				case *ast.RangeStmt:
					t := exprString(x.X)
					if strings.HasPrefix(t, rn+".") {
						evs = append(evs, "range:"+strings.TrimPrefix(t, rn+"."))
					}
				}
				return true
			})
			if hookParam != "" {
				entries = append(entries, entry{"IndexedState", fd.Name.Name, evs}, entry{"LinearState", fd.Name.Name, evs})
				continue
			}
			entries = append(entries, entry{rt, fd.Name.Name, evs})
		}
	}
	sort.Slice(entries, func(i, j int) bool {
		if entries[i].typ != entries[j].typ {
			return entries[i].typ < entries[j].typ
		}
		return entries[i].name < entries[j].name
	})
	var b strings.Builder
	b.WriteString("(* GENERATED by tools/gotables from /repo/core/state_*.go on every run. Do not edit. *)\n")
	b.WriteString("From Coq Require Import String List.\nImport ListNotations.\nOpen Scope string_scope.\n\n")
	b.WriteString("(** Type.method -> source-order events: lock:r|w, unlock:r|w, defer-unlock:r|w, defer-call:X, store:X, read:X, write:X, range:X, delete:X, index:X, call:X *)\n")
	b.WriteString("Definition lock_table : list (string * list string) := [\n")
	for i, e := range entries {
		sep := ";"
		if i == len(entries)-1 {
			sep = ""
		}
		fmt.Fprintf(&b, "  (%s, %s)%s\n", coqStr(e.typ+"."+e.name), coqList(e.evs), sep)
	}
	b.WriteString("].\n")
	write(filepath.Join(out, "LockTable.v"), b.String())
}

func write(path, s string) {
	if err := os.WriteFile(path, []byte(s), 0644); err != nil {
		die("%v", err)
	}
}

func main() {
	repo := flag.String("repo", "/repo", "path of the Comcast/rulio checkout")
	out := flag.String("out", ".", "output directory")
	flag.Parse()
	genGateTable(*repo, *out)
	genDispatchTable(*repo, *out)
	genLockTable(*repo, *out)
}
