#!/usr/bin/env python3
"""tools/process_seed.py verify <ID> ...   : confirm the seeded changes under /tmp/mut/<ID>/out in scratch worktrees
                                           (demo passes without / fails with the patch, build, full suite), in parallel;
   tools/process_seed.py run <ID> <props>  : apply each confirmed patch to /repo, run the quick checks, undo;
                                           store /verif/seeded/<ID>-<n>/{patch.diff, demo*, meta.json}."""
import sys, os, re, json, glob, subprocess, shutil, concurrent.futures
ROOT = os.environ.get('SEED_VERIF', '/verif')   # a private copy of /verif may be used (with VERIF_REPO = a scratch worktree)
REPO = os.environ.get('VERIF_REPO', '/repo')

def patches(ID, root='/tmp/mut'):
    out = []
    for p in sorted(glob.glob('%s/%s/out/patch*.diff' % (root, ID))):
        n = re.search(r'patch(\d+)\.diff', p).group(1)
        demo = None
        for cand in ('demo%s_test.go' % n, 'demo%s' % n, 'demo%s/' % n):
            q = '%s/%s/out/%s' % (root, ID, cand)
            if os.path.exists(q):
                demo = q.rstrip('/')
                break
        out.append((n, p, demo))
    return out

def verify(ID, n, patch, demo, root='/tmp/mut', tag=''):
    r = subprocess.run([ROOT + '/tools/verify_seed.sh', patch, demo, 'suite'], stdout=subprocess.PIPE, stderr=subprocess.STDOUT, timeout=3000)
    txt = r.stdout.decode(errors='replace')
    ok = ('demo on unchanged tree: rc=0' in txt and 'build with patch: rc=0' in txt and
          'unexpected failing tests=0' in txt and re.search(r'demo with patch: rc=[1-9]', txt) is not None)
    d = os.path.join(ROOT, 'seeded', '%s-%s%s' % (ID, tag, n))
    os.makedirs(d, exist_ok=True)
    shutil.copy(patch, os.path.join(d, 'patch.diff'))
    if os.path.isdir(demo):
        shutil.rmtree(os.path.join(d, 'demo'), ignore_errors=True)
        shutil.copytree(demo, os.path.join(d, 'demo'))
    else:
        shutil.copy(demo, os.path.join(d, 'demo_test.go.txt'))
    readme = '%s/%s/out/README.md' % (root, ID)
    if os.path.exists(readme):
        shutil.copy(readme, os.path.join(d, 'README.agent.md'))
    meta = {'property': ID, 'patch': 'patch.diff', 'confirmed': ok, 'verify_output': txt[-1500:]}
    if tag:
        meta['round'] = 2
    json.dump(meta, open(os.path.join(d, 'meta.json'), 'w'), indent=1)
    return ID, tag + n, ok, txt

if sys.argv[1] in ('verify', 'verify2'):
    root, tag = ('/tmp/mut2', 'r2-') if sys.argv[1] == 'verify2' else ('/tmp/mut', '')
    jobs = []
    with concurrent.futures.ThreadPoolExecutor(max_workers=4) as ex:
        for ID in sys.argv[2:]:
            for n, p, demo in patches(ID, root):
                if demo is None:
                    print(ID, n, 'NO DEMO')
                    continue
                jobs.append(ex.submit(verify, ID, n, p, demo, root, tag))
        for j in jobs:
            ID, n, ok, txt = j.result()
            print('%s-%s confirmed=%s' % (ID, n, ok))
            if not ok:
                print(txt[-800:])
elif sys.argv[1] == 'run':
    ID = sys.argv[2]
    props = sys.argv[3:]
    exact = os.path.join(ROOT, 'seeded', ID)
    for d in ([exact] if os.path.isdir(exact) else sorted(glob.glob(os.path.join(ROOT, 'seeded', ID + '-*')))):
        meta = json.load(open(os.path.join(d, 'meta.json')))
        if not meta.get('confirmed'):
            print(d, 'not confirmed, skipped')
            continue
        if subprocess.run(['git', '-C', REPO, 'apply', '--check', os.path.join(d, 'patch.diff')], stderr=subprocess.DEVNULL).returncode != 0:
            meta['applies_to_current_repo'] = False
            json.dump(meta, open(os.path.join(d, 'meta.json'), 'w'), indent=1)
            print(os.path.basename(d), 'does not apply to the current /repo (superseded by a repair); earlier result kept')
            continue
        meta['applies_to_current_repo'] = True
        r = subprocess.run([ROOT + '/tools/run_seed.sh', os.path.join(d, 'patch.diff')] + props, stdout=subprocess.PIPE, stderr=subprocess.STDOUT, timeout=9000)
        txt = r.stdout.decode(errors='replace')
        caught = {}
        for p in props:
            m = re.findall(r'^%s seed=\d+ rc=(\d+) (\d+) violation line\(s\): (.*)$' % p, txt, flags=re.M)
            caught[p] = {'detected': any(x[0] == '1' for x in m),
                         'with_failing_input': any(x[0] == '1' and 'no-failing-input-found' not in x[2].split('VIOLATION')[1] for x in m if 'VIOLATION' in x[2]),
                         'lines': [x[2][:300] for x in m]}
        meta['checks_run'] = sorted(set((meta.get('checks_run') or []) + props))
        res = meta.get('result') or {}
        res.update(caught)
        meta['result'] = res
        meta['repo_commit'] = subprocess.check_output(['git', '-C', REPO, 'log', '--format=%h', '-1']).decode().strip()
        meta['verif_commit'] = os.environ.get('SEED_VERIF_COMMIT') or subprocess.check_output(['git', '-C', ROOT, 'log', '--format=%h', '-1']).decode().strip()
        meta['ran'] = 'tools/run_seed.sh patch.diff ' + ' '.join(props) + ' (git -C /repo apply; bin/check <prop> --seed 1, then --seed 2 if not detected; git -C /repo checkout -- .)'
        json.dump(meta, open(os.path.join(d, 'meta.json'), 'w'), indent=1)
        print(os.path.basename(d), {p: (c['detected'], c['with_failing_input']) for p, c in caught.items()})
