#!/usr/bin/env python3
"""tools/seeded_table.py: the table of seeded changes (Appendix B of DESIGN.md) from seeded/*/meta.json."""
import json, glob, os, re
ROOT = os.path.dirname(os.path.dirname(os.path.abspath(__file__)))
rows = []
for d in sorted(glob.glob(os.path.join(ROOT, 'seeded', '*'))):
    m = json.load(open(os.path.join(d, 'meta.json')))
    name = os.path.basename(d)
    res = m.get('result') or {}
    caught = []
    for p, r in sorted(res.items()):
        if r.get('detected'):
            caught.append('%s (%s)' % (p, 'failing input' if r.get('with_failing_input') else 'broken obligation/correspondence, no-failing-input-found'))
    what = m.get('what') or ''
    needs = m.get('needs') or ''
    rows.append((name, m.get('property'), what, needs, ', '.join(caught) or 'NOT DETECTED', m.get('strengthened') or '', m.get('note') or ''))
print('| Seed | Change | Needs to manifest | Caught by (quick tier) | Check strengthened for it |')
print('|------|--------|-------------------|------------------------|---------------------------|')
for r in rows:
    print('| %s | %s | %s | %s | %s |' % (r[0], r[2].replace('|', '/'), r[3].replace('|', '/'), r[4], (r[5] + (' ' + r[6] if r[6] else '')).replace('|', '/')))
