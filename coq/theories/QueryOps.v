(** Location.Query over the system model: Enabled gate, ParseQuery, Exec with
    one empty incoming binding, fact search = inherited search of the location
    (SearchLocations: the location itself; other names are external fact
    services, which are not modelled).  Definitions only. *)
From Verif Require Import Json Outcome Match PatIndex State Location Query.

Definition flatten_found (found : list (string * list (string * list bindings))) : list bindings :=
  flat_map (fun g => flat_map (fun r => snd r) (snd g)) found.

(** SearchLocations as the search parameter of [exec]. *)
Definition sys_search_locs (name : string) (c : ctx) (e : env)
           (sy : system) (locs : list string) (pattern : json) : system * outcome (list bindings) :=
  let locs := match locs with [] => [name] | _ => locs end in
  (fix go (locs : list string) (sy : system) (acc : list bindings) : system * outcome (list bindings) :=
     match locs with
     | [] => (sy, Ok acc)
     | l :: r =>
         if String.eqb l name then
           match sys_search sy name c e pattern true with
           | (sy', Ok found) => go r sy' (acc ++ flatten_found found)%list
           | (sy', Err x) => (sy', Err x)
           | (sy', Panic w) => (sy', Panic w)
           | (sy', OutOfFuel) => (sy', OutOfFuel)
           end
         else (sy, Err "external fact service")
     end) locs sy [].

Definition sys_query (sy : system) (name : string) (c : ctx) (e : env) (sem : string -> option code) (q : json)
  : system * outcome (list bindings) :=
  match sys_get sy name with
  | None => (sy, Err E_noloc)
  | Some l =>
      let '(l1, en) := enabled l (e_now e) in
      let sy1 := sys_set sy name l1 in
      if negb en then (sy1, Err E_disabled) else
      match parse_query sem (parse_fuel q) q with
      | Ok pq => exec system (sys_search_locs name c e) sem pq sy1 [[]]
      | Err x => (sy1, Err x)
      | Panic w => (sy1, Panic w)
      | OutOfFuel => (sy1, OutOfFuel)
      end
  end.
