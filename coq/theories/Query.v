(** Model of core/query.go: Bindings.Bind, ParseQuery and the Exec methods of
    the Empty / Code / Pattern / And / Or / Not queries, written loop by loop
    after the Go code.  Scripts are not interpreted: a `code` string is looked
    up in a table [sem] that gives its meaning in a small template family (the
    harness renders each template to JavaScript and ships the table with the
    case; the theorems quantify over an arbitrary [sem]).  Fact search is a
    parameter (a state-passing function), instantiated with the inherited
    search of the location model.  Definitions only. *)
From Verif Require Import Json Outcome Match.

(** ** Template family for scripts *)

Inductive cexpr :=
| XConst (v : json)                (* a literal: true, false, null, a number, a string *)
| XVar (x : string)                (* the variable x, i.e. the binding of ?x; ReferenceError if unbound *)
| XSeq (x : string) (v : json)     (* x === v for a scalar literal v *)
| XOpt (x : string)                (* (typeof x === "undefined" ? "__unbound" : x) *)
| XObj (fields : list (string * cexpr)).   (* ({"f": e, ...}) *)

Inductive code :=
| CExpr (e : cexpr)                (* the value of the last expression is the result *)
| CThrow                           (* throw "boom" *)
| CSyntax                          (* does not compile *)
| CLoop (polls : bool)             (* never terminates; [polls] = evaluates a statement per iteration *)
| CSleep (ms : Z) (e : cexpr).     (* busy for ms milliseconds, then e *)

(** Value of a variable as a script sees it (StripQuestionMarks: ?x -> x). *)
Definition script_var (bs : bindings) (x : string) : option json :=
  match alookup (String.append "?" x) bs with
  | Some v => Some v
  | None => alookup x bs
  end.

Fixpoint eval_cexpr (bs : bindings) (e : cexpr) : outcome json :=
  match e with
  | XConst v => Ok v
  | XVar x => match script_var bs x with Some v => Ok v | None => Err "ReferenceError" end
  | XOpt x => (* a Go nil handed to otto is `undefined` *)
      match script_var bs x with
      | Some JNull | None => Ok (JStr "__unbound")
      | Some v => Ok v
      end
  | XSeq x v => match script_var bs x with
                | Some w => Ok (JBool (is_scalar w && json_eqb w v))
                | None => Err "ReferenceError"
                end
  | XObj fields =>
      (fix go (l : list (string * cexpr)) : outcome json :=
         match l with
         | [] => Ok (JObj [])
         | (k, x) :: r =>
             do v <- eval_cexpr bs x;
             do rest <- go r;
             (* otto's Export of an object built by the script leaves out
                properties whose value is null/undefined (a Go map handed in
                and returned as is keeps them) *)
             Ok (match v with JNull => rest | _ => JObj (ainsert k v (jO rest)) end)
         end) fields
  end.

(** Result of running a script without a timeout (C14 adds the watchdog). *)
Definition run_code (c : code) (bs : bindings) : outcome json :=
  match c with
  | CExpr e => eval_cexpr bs e
  | CThrow => Err "throw"
  | CSyntax => Err "syntax"
  | CLoop _ => Err "timeout"
  | CSleep _ e => eval_cexpr bs e
  end.

(** Decode a template descriptor (harness side table). *)
Fixpoint dec_cexpr (fuel : nat) (d : json) : cexpr :=
  match fuel with
  | O => XConst JNull
  | S f =>
      let t := jfS "t" d in
      if String.eqb t "var" then XVar (jfS "x" d)
      else if String.eqb t "opt" then XOpt (jfS "x" d)
      else if String.eqb t "seq" then XSeq (jfS "x" d) (jget_d "v" d)
      else if String.eqb t "obj" then XObj (map (fun kv => (fst kv, dec_cexpr f (snd kv))) (jO (jget_d "f" d)))
      else XConst (jget_d "v" d)
  end.

Definition dec_code (d : json) : code :=
  let t := jfS "t" d in
  if String.eqb t "throw" then CThrow
  else if String.eqb t "syntax" then CSyntax
  else if String.eqb t "loop" then CLoop (jfB "polls" d)
  else if String.eqb t "sleep" then CSleep (jfZ "ms" d) (dec_cexpr (jsize d) (jget_d "e" d))
  else CExpr (dec_cexpr (jsize d) d).

Definition sem_of_table (table : json) (js : string) : option code :=
  match jget js table with Some d => Some (dec_code d) | None => None end.

(** ** Queries *)

Inductive query :=
| QEmpty
| QCode (js : string)
| QPattern (p : json) (locs : list string)
| QAnd (qs : list query)
| QOr (qs : list query) (sc : bool)
| QNot (q : query).

(** Bindings.Bind: substitute bound variables in a pattern (values only). *)
Fixpoint bind_pat (bs : bindings) (p : json) : json :=
  match p with
  | JStr s => if is_var s then match alookup s bs with Some v => v | None => p end else p
  | JArr l => JArr (map (bind_pat bs) l)
  | JObj kvs => JObj (map (fun kv => (fst kv, bind_pat bs (snd kv))) kvs)
  | _ => p
  end.

(** ExtendBindings: the second argument wins. *)
Definition extend_bindings (x y : bindings) : bindings :=
  fold_left (fun acc kv => ainsert (fst kv) (snd kv) acc) y x.

(** CodeQuery.Exec's interpretation of a script value for one binding. *)
Definition code_keep (bs : bindings) (v : json) : list bindings :=
  match v with
  | JBool true => [bs]
  | JBool false => []
  | JObj fields => [fold_left (fun acc kv => ainsert (String.append "?" (fst kv)) (snd kv) acc) fields bs]
  | JNull => []
  | _ => [bs]
  end.

(** getLocationsFromMap *)
Definition locations_of (m : list (string * json)) : outcome (list string) :=
  do l1 <- match alookup "location" m with
           | None => Ok []
           | Some (JStr s) => Ok [s]
           | Some _ => Err "location is not a string"
           end;
  match alookup "locations" m with
  | None => Ok l1
  | Some (JArr ls) =>
      if forallb (fun x => match x with JStr _ => true | _ => false end) ls
      then Ok (l1 ++ map jS ls)%list else Err "location should be a string"
  | Some _ => Err "locations should be an array of strings"
  end.

Section Parse.
  Variable sem : string -> option code.

  Definition code_text (c : json) : option string :=
    match c with
    | JStr s => Some s
    | JArr l =>
        if forallb (fun x => match x with JStr _ => true | _ => false end) l
        then Some (fold_left (fun acc x => String.append acc (String.append (jS x) (String (ascii_of_nat 10) ""))) l "")
        else None
    | _ => None
    end.

  Definition short_circuit_of (m : list (string * json)) : outcome bool :=
    let fix go (cands : list string) : outcome bool :=
      match cands with
      | [] => Ok false
      | c :: r => match alookup c m with
                  | Some (JBool b) => Ok b
                  | Some _ => Err "isn't a bool"
                  | None => go r
                  end
      end in
    go ["shortCircuit"; "ShortCircuit"; "short_circuit"; "shortcircuit"].

  (** ParseQuery.  Each XFromMap returns (query, applicable, err); a
      non-applicable error falls through to the next form, as in the code. *)
  Fixpoint parse_query (fuel : nat) (j : json) : outcome query :=
    match fuel with
    | O => OutOfFuel
    | S f =>
        match j with
        | JObj [] => Ok QEmpty
        | JObj m =>
            let subs (xs : list json) : option (outcome (list query)) :=
              if forallb (fun x => match x with JObj _ => true | _ => false end) xs
              then Some ((fix go (l : list json) : outcome (list query) :=
                            match l with
                            | [] => Ok []
                            | x :: r => do q <- parse_query f x; do qs <- go r; Ok (q :: qs)
                            end) xs)
              else None in
            (* code *)
            let try_code : option (outcome query) :=
              match alookup "code" m with
              | None => None
              | Some c =>
                  match code_text c with
                  | None => None
                  | Some js =>
                      match alookup "libraries" m with
                      | Some (JArr []) | None =>
                          Some (match sem js with
                                | Some CSyntax => Err "syntax"
                                | Some _ => Ok (QCode js)
                                | None => Err "unknown script"
                                end)
                      | Some (JArr _) => Some (Err "libraries not modelled")
                      | Some _ => Some (Err "libraries should be an array of strings")
                      end
                  end
              end in
            match try_code with
            | Some r => r
            | None =>
            let try_pattern : option (outcome query) :=
              match alookup "pattern" m with
              | Some (JObj p) =>
                  match locations_of m with
                  | Ok locs => Some (Ok (QPattern (JObj p) locs))
                  | _ => None
                  end
              | _ => None
              end in
            match try_pattern with
            | Some r => r
            | None =>
            let try_and : option (outcome query) :=
              match alookup "and" m with
              | Some (JArr xs) => match subs xs with
                                  | Some r => Some (omap QAnd r)
                                  | None => None
                                  end
              | _ => None
              end in
            match try_and with
            | Some r => r
            | None =>
            let try_or : option (outcome query) :=
              match alookup "or" m with
              | Some (JArr xs) =>
                  match subs xs with
                  | Some (Ok qs) => match short_circuit_of m with
                                    | Ok sc => Some (Ok (QOr qs sc))
                                    | _ => None
                                    end
                  | Some e => Some (omap QAnd e)
                  | None => None
                  end
              | _ => None
              end in
            match try_or with
            | Some r => r
            | None =>
            match alookup "not" m with
            | Some (JObj a) => omap QNot (parse_query f (JObj a))
            | Some _ => Err "not takes a single argument (a map)"
            | None => Err "syntax"
            end
            end end end end
        | _ => Err "not a map"
        end
    end.
End Parse.

Section Exec.
  Variable S : Type.
  (** SearchLocations for an already bound pattern: every `more` bindings of
      every found fact, in the order found. *)
  Variable search : S -> list string -> json -> S * outcome (list bindings).
  Variable sem : string -> option code.

  (** PatternQuery.Exec *)
  Fixpoint exec_pattern (p : json) (locs : list string) (s : S) (bss : list bindings) (acc : list bindings)
    : S * outcome (list bindings) :=
    match bss with
    | [] => (s, Ok acc)
    | bs :: r =>
        match bind_pat bs p with
        | JObj m =>
            match search s locs (JObj m) with
            | (s', Ok mores) => exec_pattern p locs s' r (acc ++ map (extend_bindings bs) mores)%list
            | (s', Err e) => (s', Err e)
            | (s', Panic w) => (s', Panic w)
            | (s', OutOfFuel) => (s', OutOfFuel)
            end
        | _ => (s, Err "isn't a map")
        end
    end.

  (** CodeQuery.Exec *)
  Fixpoint exec_code (c : code) (bss : list bindings) (acc : list bindings) : outcome (list bindings) :=
    match bss with
    | [] => Ok acc
    | bs :: r =>
        do v <- run_code c bs;
        exec_code c r (acc ++ code_keep bs v)%list
    end.

  Fixpoint exec (q : query) (s : S) (bss : list bindings) {struct q} : S * outcome (list bindings) :=
    match q with
    | QEmpty => (s, Ok bss)
    | QCode js =>
        match sem js with
        | Some c => (s, exec_code c bss [])
        | None => (s, Err "unknown script")
        end
    | QPattern p locs => exec_pattern p locs s bss []
    | QAnd qs =>
        (fix conj (qs : list query) (s : S) (bss : list bindings) : S * outcome (list bindings) :=
           match qs with
           | [] => (s, Ok bss)
           | q1 :: r =>
               match exec q1 s bss with
               | (s', Ok out) => conj r s' out
               | other => other
               end
           end) qs s bss
    | QOr qs sc =>
        (fix per_bs (bss : list bindings) (s : S) (acc : list bindings) : S * outcome (list bindings) :=
           match bss with
           | [] => (s, Ok acc)
           | bs :: r =>
               let '(s', res) :=
                 (fix disj (qs : list query) (s : S) (acc : list bindings) : S * outcome (list bindings) :=
                    match qs with
                    | [] => (s, Ok acc)
                    | q1 :: qr =>
                        match exec q1 s [bs] with
                        | (s', Ok more) =>
                            if sc && negb (match more with [] => true | _ => false end)
                            then (s', Ok (acc ++ more)%list)
                            else disj qr s' (acc ++ more)%list
                        | other => other
                        end
                    end) qs s acc in
               match res with
               | Ok acc' => per_bs r s' acc'
               | _ => (s', res)
               end
           end) bss s []
    | QNot q1 =>
        (fix per_bs (bss : list bindings) (s : S) (acc : list bindings) : S * outcome (list bindings) :=
           match bss with
           | [] => (s, Ok acc)
           | bs :: r =>
               match exec q1 s [bs] with
               | (s', Ok []) => per_bs r s' (acc ++ [bs])%list
               | (s', Ok _) => per_bs r s' acc
               | other => other
               end
           end) bss s []
    end.
End Exec.

Definition parse_fuel (j : json) : nat := (jsize j + 2)%nat.
