(** Model of cron/corehooks.go (AddHooks) on top of the state model: which
    calls a state operation makes to the cron service (ScheduleEvent / Rem),
    i.e. where the states invoke their add/rem hooks, as the code is in /repo
    after the repair of D28 (both kinds of state alike):
      Add:    the add hook (ScheduleEvent for a rule with a schedule); when the
              add replaces a record and the new one is not scheduled, the rem
              hook for the replaced record (runRemHook: the hook is given the
              record that leaves, it does not ask the state for it);
      Rem:    the rem hook for the named id, through State.Get (so a missing or
              expired id is "not found" and nothing is removed); then, inside
              the internal rem, the rem hook for every dependent that the
              deleteWith cascade deletes, before it is deleted;
      purge:  the same internal rem, with the hook for the expired item too
              (every public read ends with a purge);
      Clear:  the rem hook for every record, expired or not;
      Load:   the add hook with loading = true for every record that is loaded
              (a persistent cron ignores it); the indexed state drops the
              expired records it finds in the storage: rem hook for them.
    The state functions themselves (State.v) are not touched by the hooks: the
    functions below replay them and collect the calls.  Then the registry and
    the specification of C15's registry clause.  Definitions only. *)
From Verif Require Import Json Outcome Match PatIndex State Location.

Inductive ccall := CSched (id schedule : string) | CRemJ (id : string).

(** getSchedule: the schedule of a stored fact ("" / absent = not scheduled). *)
Definition fact_schedule (fact : json) : option string :=
  match jget "rule" fact with
  | Some (JObj r) => match alookup "schedule" r with
                     | Some (JStr s) => if String.eqb s "" then None else Some s
                     | _ => None
                     end
  | _ => None
  end.

(** ** The rem hook for a record that leaves the state (core.runRemHook with
    the hook of cron.AddHooks): the hook looks at the record it is handed. *)
Definition unhook_calls (s : state) (id : string) (fact : json) : list ccall :=
  if st_hooks s then match fact_schedule fact with Some _ => [CRemJ id] | None => [] end else [].

(** ** The internal rem (IndexedState.rem / LinearState.rem) *)

(** the part of a removal before the dependents are looked for; the boolean
    says whether the removal goes on (false: the storage call failed) *)
Definition crem_head (s : state) (id : string) : state * bool :=
  match st_kind s with
  | Indexed =>
      match alookup id (st_facts s) with
      | Some fact =>
          let s1 := match extract_rule fact false with
                    | Ok (Some rule) => unindex_rule s id rule
                    | _ => s
                    end in
          let s2 := set_facts s1 (aremove id (st_facts s1)) in
          let s3 := set_tindex s2 (fold_left (fun idx t => ti_rem t id idx) (extract_terms fact) (st_tindex s2)) in
          let '(s4, failed) := store_call s3 in
          if failed then (s4, false) else (set_store s4 (aremove id (st_store s4)), true)
      | None => (s, true)
      end
  | Linear =>
      let '(s1, failed) := store_call s in
      if failed then (s1, false)
      else let s2 := set_store s1 (aremove id (st_store s1)) in
           (set_facts s2 (aremove id (st_facts s2)), true)
  end.

(** `if unhook { s.unhook(ctx, id, fact) }` right before the record is deleted
    from the fact map: the indexed state deletes from memory first, the linear
    state from the storage first (and gives up if that fails) *)
Definition crem_head_calls (s : state) (id : string) : list ccall :=
  match alookup id (st_facts s) with
  | Some fact =>
      match st_kind s with
      | Indexed => unhook_calls s id fact
      | Linear => if snd (store_call s) then [] else unhook_calls s id fact
      end
  | None => []
  end.

Section WithRemC.
  (** [rem_rec]: the recursive removal (State.rem_fuel); [rem_rec_c]: the
      calls it makes, when it runs the hook for the id it is given. *)
  Variable rem_rec : state -> string -> Z -> state * outcome bool.
  Variable rem_rec_c : state -> string -> Z -> list ccall.

  Fixpoint crem_list (s : state) (ids : list string) (skip : option string) (now : Z) : list ccall :=
    match ids with
    | [] => []
    | j :: r =>
        if skipped skip j then crem_list s r skip now
        else (rem_rec_c s j now ++
              match rem_rec s j now with
              | (s1, Ok _) => crem_list s1 r skip now
              | _ => []
              end)%list
    end.

  Definition cdelete_dependencies (s : state) (id : string) (now : Z) : list ccall :=
    match search_state s (dw_pattern id) now with
    | (s1, Ok found) =>
        crem_list s1 (dw_targets s1 id (map fst found))
                  (match st_kind s with Linear => Some id | Indexed => None end) now
    | _ => []
    end.

  (** [unhook]: false for the id that the public Rem was given (its hook has
      run), true for dependents and expired items *)
  Definition crem_body (unhook : bool) (s : state) (id : string) (now : Z) : list ccall :=
    ((if unhook then crem_head_calls s id else []) ++
     (if snd (crem_head s id) then cdelete_dependencies (fst (crem_head s id)) id now else []))%list.
End WithRemC.

Fixpoint crem_fuel (fuel : nat) (unhook : bool) (s : state) (id : string) (now : Z) : list ccall :=
  match fuel with
  | O => []
  | S f => crem_body (rem_fuel f) (crem_fuel f true) unhook s id now
  end.

(** the calls of [st_rem s id now] *)
Definition calls_rem_rec (unhook : bool) (s : state) (id : string) (now : Z) : list ccall :=
  crem_fuel (cascade_fuel s) unhook s id now.

(** ** purge: every noted item that is still there and still expired is removed
    by the internal rem, hook included *)
Fixpoint cpurge_ids (s : state) (ids : list string) (now : Z) : list ccall :=
  match ids with
  | [] => []
  | id :: r =>
      match alookup id (st_facts s) with
      | None => cpurge_ids s r now
      | Some fact =>
          if fact_expired fact now then
            (calls_rem_rec true s id now ++
             match st_rem s id now with
             | (s1, Ok _) => cpurge_ids s1 r now
             | (s1, Err _) => cpurge_ids s1 r now
             | _ => []
             end)%list
          else cpurge_ids s r now
      end
  end.

Fixpoint cpurge_fuel (fuel : nat) (s : state) (now : Z) : list ccall :=
  match st_pending s with
  | [] => []
  | ids =>
      match fuel with
      | O => []
      | S f =>
          (cpurge_ids (set_pending s []) ids now ++
           match purge_ids (set_pending s []) ids now with
           | (s1, Ok _) => cpurge_fuel f s1 now
           | _ => []
           end)%list
      end
  end.

Definition calls_purge (s : state) (now : Z) : list ccall := cpurge_fuel (purge_rounds s) s now.

(** ** The public reads: the read proper calls nothing, the purge that ends it does *)
Definition calls_get (s : state) (id : string) (now : Z) : list ccall :=
  calls_purge (fst (get_body s id now)) now.

Definition calls_search (s : state) (pattern : json) (now : Z) : list ccall :=
  calls_purge (fst (search_state s pattern now)) now.

(** the read of doFindRules, before its deferred purge *)
Definition find_body (s : state) (event : json) (now : Z) : state * outcome (list (string * json)) :=
  match st_kind s with
  | Indexed =>
      match pi_search (st_pindex s) event with
      | Ok ids => find_ids_idx s ids now []
      | Err e => (s, Err e)
      | Panic w => (s, Panic w)
      | OutOfFuel => (s, OutOfFuel)
      end
  | Linear => find_ids_lin s (map fst (st_facts s)) event now []
  end.

Definition calls_find (s : state) (event : json) (now : Z) : list ccall :=
  calls_purge (fst (find_body s event now)) now.

(** ** The public Rem: the rem hook fetches the fact (State.Get, with its own
    purge) and unschedules the id if the fact is a scheduled rule; then the
    internal rem (no hook for the id itself), then the purge. *)
Definition calls_Rem (s : state) (id : string) (now : Z) : list ccall :=
  if negb (st_hooks s) then [] else
  (calls_get s id now ++
   match st_get s id now with
   | (s1, Ok fact) =>
       (match fact_schedule fact with Some _ => [CRemJ id] | None => [] end ++
        calls_rem_rec false s1 id now ++
        calls_purge (fst (st_rem s1 id now)) now)
   | (s1, _) => calls_purge s1 now
   end)%list.

(** ** Add ([s]: before, [s']: after, [r]: the answer).  The add hook schedules
    a rule with a schedule (the cron replaces a job with the same id); an
    unscheduled fact that replaces a record unschedules the replaced record.
    (A storage failure after the hook is not modelled here: the harness's
    hooked locations have no fault injection.) *)
Definition calls_add (persistent loading : bool) (s s' : state) (r : outcome string) : list ccall :=
  if negb (st_hooks s') then [] else
  match r with
  | Ok id => match alookup id (st_facts s') with
             | Some fact =>
                 match fact_schedule fact with
                 | Some sch => if persistent && loading then [] else [CSched id sch]
                 | None => match alookup id (st_facts s) with
                           | Some old => unhook_calls s id old
                           | None => []
                           end
                 end
             | None => []
             end
  | _ => []
  end.

(** ** Clear: the rem hook for every record (remHooks), expired or not *)
Definition calls_clear (s : state) : list ccall :=
  flat_map (fun kv => unhook_calls s (fst kv) (snd kv)) (st_facts s).

(** ** Load ([s']: the loaded state).  The indexed state drops the expired
    records of the storage (rem hook); both kinds hand what they load to the
    add hook with loading = true. *)
Definition load_expired (now : Z) (kv : string * json) : bool :=
  match prepare_fact (fst kv) (snd kv) now (fst kv) None with
  | Err e => String.eqb e "expired"
  | _ => false
  end.

Definition calls_load (persistent : bool) (store : list (string * json)) (now : Z) (s' : state) : list ccall :=
  if negb (st_hooks s') then [] else
  ((match st_kind s' with
    | Indexed => flat_map (fun kv => if load_expired now kv then unhook_calls s' (fst kv) (snd kv) else []) store
    | Linear => []
    end) ++
   (if persistent then [] else
    flat_map (fun kv => match fact_schedule (snd kv) with Some sch => [CSched (fst kv) sch] | None => [] end)
             (st_facts s')))%list.

(** The cron registry of one location: job id -> schedule. *)
Definition registry := list (string * string).

Definition apply_call (reg : registry) (c : ccall) : registry :=
  match c with
  | CSched id sch => ainsert id sch reg
  | CRemJ id => aremove id reg
  end.

(** Specification: the registry holds exactly the stored scheduled rules. *)
Definition scheduled_rules (s : state) : registry :=
  fold_left (fun acc kv => match fact_schedule (snd kv) with
                           | Some sch => ainsert (fst kv) sch acc
                           | None => acc
                           end) (st_facts s) [].

Definition registry_exact (reg : registry) (s : state) : bool :=
  list_eqb (fun a b => String.eqb (fst a) (fst b) && String.eqb (snd a) (snd b)) reg (scheduled_rules s).

(** ** What the calls of an operation must amount to, from the states before
    and after it alone: a Rem for every scheduled rule of [s0] whose id no
    longer holds a scheduled rule in [s1]; a ScheduleEvent for the rule that an
    add stored ([added]) and, after a reload with a cron that forgets, for
    every stored scheduled rule.  (The correspondence checker uses it for the
    compound operations of a location and when expired items are around.) *)
Definition sched_of (s : state) (id : string) : option string :=
  match alookup id (st_facts s) with Some f => fact_schedule f | None => None end.

Definition diff_calls (persistent : bool) (s0 s1 : state) (added : option string) (reload : bool) : list ccall :=
  if negb (st_hooks s0) then [] else
  (flat_map (fun js => match sched_of s1 (fst js) with None => [CRemJ (fst js)] | Some _ => [] end)
            (scheduled_rules s0) ++
   (match added with
    | Some id => match sched_of s1 id with Some sch => [CSched id sch] | None => [] end
    | None => []
    end) ++
   (if reload && negb persistent
    then flat_map (fun kv => match fact_schedule (snd kv) with Some sch => [CSched (fst kv) sch] | None => [] end)
                  (st_facts s1)
    else []))%list.
