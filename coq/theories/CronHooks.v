(** Model of cron/corehooks.go (AddHooks) on top of the state model: which
    calls a state operation makes to the cron service (ScheduleEvent / Rem),
    i.e. where the states invoke their add/rem hooks:
      indexed: add (also while loading), public Rem, Clear (rem hook for every fact);
      linear:  Add, public Rem; NOT Load, NOT Clear;
      neither: cascaded removals, expiry purges, overwrites.
    and the specification of C15's registry clause.  Definitions only. *)
From Verif Require Import Json Outcome Match PatIndex State Location.

Inductive ccall := CSched (id schedule : string) | CRemJ (id : string).

(** getSchedule: the schedule of a stored fact ("" / absent = not scheduled). *)
Definition fact_schedule (fact : json) : option string :=
  match jget "rule" fact with
  | Some (JObj r) => match alookup "schedule" r with
                     | Some (JStr s) => if String.eqb s "" then None else Some s
                     | _ => None
                     end
  | _ => None
  end.

(** add hook, after a successful add of [id] *)
Definition calls_add (persistent loading : bool) (s' : state) (r : outcome string) : list ccall :=
  if negb (st_hooks s') || (persistent && loading) then [] else
  match r with
  | Ok id => match alookup id (st_facts s') with
             | Some fact => match fact_schedule fact with Some sch => [CSched id sch] | None => [] end
             | None => []
             end
  | _ => []
  end.

(** rem hook of the public Rem: fetches the fact first *)
Definition calls_rem (s : state) (id : string) (now : Z) : list ccall :=
  if negb (st_hooks s) then [] else
  match st_get s id now with
  | (_, Ok fact) => match fact_schedule fact with Some _ => [CRemJ id] | None => [] end
  | _ => []
  end.

Definition calls_clear (s : state) (now : Z) : list ccall :=
  if negb (st_hooks s) then [] else
  match st_kind s with
  | Indexed => flat_map (fun kv => if fact_expired (snd kv) now then [] else
                                   match fact_schedule (snd kv) with Some _ => [CRemJ (fst kv)] | None => [] end)
                        (st_facts s)
  | Linear => []
  end.

(** Load: the indexed state re-adds every record (hook with loading = true) *)
Definition calls_load (persistent : bool) (s' : state) : list ccall :=
  if negb (st_hooks s') || persistent then [] else
  match st_kind s' with
  | Indexed => flat_map (fun kv => match fact_schedule (snd kv) with Some sch => [CSched (fst kv) sch] | None => [] end)
                        (st_facts s')
  | Linear => []
  end.

(** The cron registry of one location: job id -> schedule. *)
Definition registry := list (string * string).

Definition apply_call (reg : registry) (c : ccall) : registry :=
  match c with
  | CSched id sch => ainsert id sch reg
  | CRemJ id => aremove id reg
  end.

(** Specification: the registry holds exactly the stored scheduled rules. *)
Definition scheduled_rules (s : state) : registry :=
  fold_left (fun acc kv => match fact_schedule (snd kv) with
                           | Some sch => ainsert (fst kv) sch acc
                           | None => acc
                           end) (st_facts s) [].

Definition registry_exact (reg : registry) (s : state) : bool :=
  list_eqb (fun a b => String.eqb (fst a) (fst b) && String.eqb (snd a) (snd b)) reg (scheduled_rules s).
