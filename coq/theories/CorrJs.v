(** Correspondence checker for domain "js" (C14: script execution is
    contained).  One case = one script of a family, one timeout setting, one
    position (direct RunJavascript / Location.RunJavascript / code term of a
    query / condition of a rule / action of a rule), run in a child process;
    observed: did the call return, did the process die, error class, value,
    wall time; plus which variant of RunJavascript the tree has ("tree": the
    capacity of watchdogCleanup and whether the recovered Halt is reported,
    found out by a probe).

    ok      : the observation is one that the watchdog protocol model
              (Watchdog.outcomes, all schedules) allows for the script's
              family under the timeout selection of the case, with the value
              given by the template semantics (Query.eval_cexpr), and a
              time-out is never reported before the limit.
    spec_ok : the property clause, judged on the observation alone. *)
From Verif Require Import Json Outcome Match Query Watchdog.

Definition ms (n : Z) : Z := n * 1000000.

(** margin around the limit inside which a slow script counts as "finishes
    at about the deadline", and the bound on the lateness of a time-out *)
Definition edge_margin : Z := ms 300.
Definition late_bound : Z := ms 1500.

Definition fam_name (f : family) : string :=
  match f with
  | FValue => "value" | FThrow => "throw" | FSyntax => "syntax" | FSlow => "slow" | FEdge => "edge"
  | FLoopPolls => "loop-polls" | FLoopNoPoll => "loop-nopoll"
  end.

(** natural outcome of the script when nobody stops it *)
Definition natural (cd : code) (bs : bindings) : outcome json :=
  match cd with
  | CExpr e | CSleep _ e => eval_cexpr bs e
  | CThrow => Err "throw"
  | CSyntax => Err "syntax"
  | CLoop _ => OutOfFuel
  end.

(** how a value shows at a position *)
Definition shown (pos : string) (bs : bindings) (echo : option code) (v : json) : json :=
  if String.eqb pos "query" then JArr (map JObj (code_keep bs v))
  else if String.eqb pos "condition" then
    match code_keep bs v with
    | [] => JObj [("kept", JBool false)]
    | bs2 :: _ =>
        JObj (("echo", match echo with
                       | Some (CExpr e) => match eval_cexpr bs2 e with Ok ev => ev | _ => JNull end
                       | _ => JNull
                       end) :: [("kept", JBool true)])
    end
  else v.

(** the error class the harness reports for a natural error *)
Definition err_class (e : string) : string :=
  if String.eqb e "throw" then "thrown"
  else if String.eqb e "syntax" then "syntax"
  else if String.eqb e "ReferenceError" then "reference"
  else "other".

Record jobs := {
  o_returned : bool; o_crashed : bool; o_err : string; o_val : json; o_wall : Z
}.

Definition is_natural (pos : string) (bs : bindings) (echo : option code) (natl : outcome json) (o : jobs) : bool :=
  o_returned o &&
  match natl with
  | Ok v => String.eqb (o_err o) "" && json_eqb (o_val o) (shown pos bs echo v)
  | Err e => String.eqb (o_err o) (err_class e)
  | _ => false
  end.

(** (nil, nil) at a position: success with no value *)
Definition is_nilnil (pos : string) (bs : bindings) (echo : option code) (o : jobs) : bool :=
  o_returned o && String.eqb (o_err o) "" && json_eqb (o_val o) (shown pos bs echo JNull).

Definition is_timeout (o : jobs) : bool := o_returned o && String.eqb (o_err o) "timeout".
Definition is_hang (o : jobs) : bool := negb (o_returned o) && negb (o_crashed o).

(** does the observation realise this outcome of the model? *)
Definition realises (pos : string) (bs : bindings) (echo : option code) (natl : outcome json) (o : jobs) (m : obs) : bool :=
  match m with
  | OReturn (AErr Timeout) => is_timeout o
  | OReturn ANilNil => is_nilnil pos bs echo o
  | OReturn _ => is_natural pos bs echo natl o     (* AOk, AErr Thrown, AErr Syntax: ran to its own end *)
  | OBlocked | ODiverge => is_hang o
  | OCrash => o_crashed o
  end.

Definition obs_name (m : obs) : string :=
  match m with
  | OReturn AOk => "finishes" | OReturn (AErr Timeout) => "timeout-error" | OReturn (AErr Thrown) => "throws"
  | OReturn (AErr Syntax) => "syntax-error" | OReturn ANilNil => "nilnil"
  | OBlocked => "caller-blocked" | ODiverge => "runs-forever" | OCrash => "crash"
  end.

Definition check_js (c : json) : json :=
  let script := jfS "script" c in
  let sem := jget_d "sem" c in
  let cd := match sem_of_table sem script with Some cd => cd | None => CSyntax end in
  let echo := sem_of_table sem (jfS "echo" c) in
  let bs : bindings := jO (jnorm (jget_d "bs" c)) in
  let pos := jfS "pos" c in
  let stg := jget_d "setting" c in
  let has_ctl := negb (String.eqb pos "direct-noloc") in
  let sel := timeout_selection (jfB "on" stg) has_ctl (jfZ "control" stg) (jfZ "sysdefault" stg) in
  let tree := jget_d "tree" c in
  let cap_ := Z.to_nat (jfZ "cap" tree) in
  let named_ := jfB "named" tree in
  let is_repaired := Nat.eqb cap_ 1 && named_ in
  let P := params_of cap_ named_ sel in
  let o := {| o_returned := jfB "returned" c; o_crashed := jfB "crashed" c; o_err := jfS "err" c;
              o_val := jnorm (jget_d "val" c); o_wall := jfZ "wall" c |} in
  let natl := natural cd bs in
  let limit := match sel with Some t => t | None => 0 end in
  (* a slow script that was observed to finish near the limit did not exceed
     it by enough to be of family Slow: judged as "at about the deadline" *)
  let edge := match cd, sel with
              | CSleep _ _, Some t => is_natural pos bs echo natl o && (o_wall o <=? t + edge_margin)
              | _, _ => false
              end in
  let fam := match cd with
             | CThrow => FThrow
             | CSyntax => FSyntax
             | CLoop true => FLoopPolls
             | CLoop false => FLoopNoPoll
             | CSleep _ _ => if edge then FEdge else FSlow
             | CExpr _ => match natl with Ok _ => FValue | _ => FThrow end
             end in
  let allowed := outcomes P fam in
  let hit := filter (realises pos bs echo natl o) allowed in
  let early := is_timeout o && (o_wall o <? limit) in
  let setup_bad := match jget "setup_error" c with Some _ => true | None => false end in
  let ok := match hit with [] => false | _ => negb early && negb setup_bad end in
  (* --- the property, on the observation --- *)
  let exceeds := watched P && match fam with FSlow | FLoopPolls | FLoopNoPoll => true | _ => false end in
  let stopped_in_time := is_timeout o && (limit <=? o_wall o) && (o_wall o <=? limit + late_bound) in
  let unwatched_loop := negb (watched P) && match fam with FLoopPolls | FLoopNoPoll => true | _ => false end in
  let spec_ok :=
    if exceeds then stopped_in_time
    else if unwatched_loop then true
    else match fam with
         | FEdge => is_natural pos bs echo natl o || stopped_in_time
         | _ => is_natural pos bs echo natl o
         end in
  let spec_op :=
    if exceeds then "timeout-stops-script"
    else if unwatched_loop then "unwatched-loop"
    else match natl with Ok _ => "in-time-value-unaffected" | _ => "error-is-error" end in
  let nilnil_seen := is_nilnil pos bs echo o && negb (is_natural pos bs echo natl o) in
  let kf :=
    if spec_ok then []
    else match fam with
         | FLoopNoPoll => if is_hang o then ["D27"] else []
         | _ => if negb is_repaired && watched P && (is_hang o || nilnil_seen) then ["D19"] else []
         end in
  let seen :=
    if o_crashed o then "crash"
    else if negb (o_returned o) then "hang"
    else if is_timeout o then "timeout-error"
    else if negb (String.eqb (o_err o) "") then String.append "error:" (o_err o)
    else "value" in
  JObj [("ok", JBool ok);
        ("at", JNull);
        ("why", JStr (if ok then ""
                      else if setup_bad then "the harness could not set the case up"
                      else if early then "a time-out was reported before the limit"
                      else String.append "the protocol model does not allow this observation: " seen));
        ("model", JObj [("allowed", jstrs_of (map obs_name allowed));
                        ("family", JStr (fam_name fam));
                        ("limit", match sel with Some t => JNum t | None => JNull end)]);
        ("spec_ok", JBool spec_ok);
        ("spec_why", JStr (if spec_ok then ""
                           else if exceeds then
                             (if is_hang o then "the script ran past the limit and the caller never got control back"
                              else if is_timeout o then "the time-out was reported outside [limit, limit + 1.5 s]"
                              else "a script that ran past the limit was not reported as a failed node")
                           else match natl with
                                | Ok _ => "a script that finishes in time did not yield the value of its last expression"
                                | _ => "a script that throws or does not compile was not reported as an error"
                                end));
        ("spec_op", JStr spec_op);
        ("kf", jstrs_of kf);
        ("features", jstrs_of [String.append "pos:" pos;
                               String.append "setting:" (jfS "kind" stg);
                               String.append "family:" (fam_name fam);
                               String.append "seen:" seen;
                               (if watched P then "watched" else "unwatched");
                               String.append "tree:" (if is_repaired then "repaired"
                                                      else if Nat.eqb cap_ 0 then "as-is" else "buffer-only")]);
        ("nontrivial", JBool (watched P || negb unwatched_loop));
        ("ambiguous", JNum (if edge then 1 else 0))].
