(** Specification checker for the conc-http domain (C11 through the service
    layer): a non-interference oracle that does not need the location model.
    K clients, one location each, send requests concurrently to ONE
    HTTPService.  Every acknowledged "addfact" writes one fact tagged with the
    client's own location; every acknowledged "event" fires the location's
    rule once, whose action writes one fact through the script environment
    (the location of the request's context) and returns that location's name.
    Requests to different locations do not interfere IFF, at the end, every
    location holds exactly the facts of its own client's acknowledged
    requests and every event returned its own location's name. *)
From Verif Require Import Json Outcome.

Definition expected_facts (cl : json) : list json :=
  let loc := jfS "loc" cl in
  flat_map (fun o => if jfB "ok" o
                     then [jnorm (JObj [("seq", jget_d "seq" o); ("tag", JStr loc);
                                        ("via", JStr (if String.eqb (jfS "op" o) "addfact" then "direct" else "action"))])]
                     else []) (jfL "ops" cl).

Definition client_facts_ok (cl : json) : bool :=
  json_eqb (JArr (canon_multiset (map jnorm (jfL "found" cl)))) (JArr (canon_multiset (expected_facts cl))).

Definition client_values_ok (cl : json) : bool :=
  let loc := jfS "loc" cl in
  forallb (fun o => negb (String.eqb (jfS "op" o) "event") || negb (jfB "ok" o) ||
                    json_eqb (JArr (jfL "values" o)) (JArr [JStr loc])) (jfL "ops" cl).

Definition client_acked (cl : json) : bool := forallb (fun o => jfB "ok" o) (jfL "ops" cl).

Definition check_http (c : json) : json :=
  let cls := jfL "clients" c in
  let setup_bad := match jget "setup_error" c with Some _ => true | None => false end in
  let facts_ok := forallb client_facts_ok cls in
  let values_ok := forallb client_values_ok cls in
  let acked := forallb client_acked cls in   (* a well-formed request to one's own location is never refused *)
  let crashed := negb (String.eqb (jfS "crashed" c) "") in   (* the process died or hung under the concurrent requests *)
  let good := negb crashed && negb setup_bad && facts_ok && values_ok && acked in
  JObj [("ok", JBool good); ("at", JNull);
        ("why", JStr (if good then "" else if crashed then "the process did not survive the concurrent requests"
                      else if setup_bad then "the harness could not set the case up"
                      else "requests to different locations interfered"));
        ("model", JNull);
        ("spec_ok", JBool good);
        ("spec_why", JStr (if good then ""
                           else if crashed then String.append "crash or hang under concurrent requests to different locations: " (jfS "crash_msg" c)
                           else if negb facts_ok then "a location does not hold exactly the facts its own client's acknowledged requests produced"
                           else if negb values_ok then "an event did not return its own location's name exactly once"
                           else "a well-formed request was refused"));
        ("spec_op", JStr "non-interference");
        ("kf", JArr []);
        ("features", jstrs_of ((if (2 <? length cls)%nat then ["three-or-more-clients"] else ["two-clients"]) ++
                               (if existsb (fun cl => existsb (fun o => String.eqb (jfS "op" o) "event") (jfL "ops" cl)) cls
                                then ["events"] else []))%list);
        ("nontrivial", JBool (1 <? length cls)%nat);
        ("ambiguous", JNum 0)].
