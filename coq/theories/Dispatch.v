(** Entry point of the extracted runner: one checker per domain. *)
From Verif Require Import Json Breaker CorrBreaker CorrMatch CorrLoc CorrPindex CorrJs CorrConc CorrCron CorrCrolt CorrCronSys CorrService CorrHttp CorrSysSteer CorrThrottle.

Definition check_case (domain : string) (c : json) : json :=
  if String.eqb domain "breaker" then check_breaker c
  else if String.eqb domain "throttle" then check_throttle c
  else if String.eqb domain "match" then check_match c
  else if has_prefix "loc" domain then check_loc c
  else if String.eqb domain "pindex" then check_pindex c
  else if String.eqb domain "js" then check_js c
  else if String.eqb domain "conc-http" then check_http c
  else if String.eqb domain "sys-steer" then check_syssteer c
  else if has_prefix "conc" domain then check_conc c
  else if String.eqb domain "cron-sys" then check_cronsys c
  else if String.eqb domain "cron" then check_cron c
  else if String.eqb domain "crolt" then check_crolt c
  else if String.eqb domain "service" then check_service c
  else JObj [("ok", JBool false); ("why", JStr ("unknown domain " ++ domain))].
