(** Entry point of the extracted runner: one checker per domain. *)
From Verif Require Import Json Breaker CorrBreaker.

Definition check_case (domain : string) (c : json) : json :=
  if String.eqb domain "breaker" then check_breaker c
  else JObj [("ok", JBool false); ("why", JStr ("unknown domain " ++ domain))].
