(** Correspondence checker for the service layer (domain "service", C18).

    One case = a history of operations sent through ServeHTTP (httptest) to
    one System and applied directly to a twin System.  For every operation
    the harness gives: the intended logical request and its encoding, the
    ABSTRACT request (the real bytes as lexed by the real lexers), the HTTP
    status class / canonical JSON body, and the canonical result(s) of the
    direct call(s).

    [ok]      : the model ([Service.serve] on the abstract request) decodes the
                uri and the parameters the harness intended, plans exactly the
                direct call, and predicts the observed status class (given
                whether the direct call failed); [Service.dwim_uri] agrees with
                service.DWIMURI on the probe strings.
    [spec_ok] : judged on the observation alone: (1) every well-formed
                operation got the status class and the canonical JSON of the
                direct call (rendered the way the API documents it);
                (2) every malformed request got 400 - never a success, never
                a panic. *)
From Verif Require Import Json Outcome Service.

(** * Reading a case *)

Definition opt_obj (j : json) : option obj :=
  match j with JObj _ => Some (jO (jnorm j)) | _ => None end.

Definition ptext_of_json (j : json) : ptext :=
  {| pt_text := jfS "text" j;
     pt_json := opt_obj (jget_d "json" j);
     pt_yaml := opt_obj (jget_d "yaml" j);
     pt_int := match jget_d "int" j with JNum z => Some z | _ => None end |}.

Definition pairs_of_json (j : json) : option (list (string * ptext)) :=
  match j with
  | JArr l => Some (map (fun e => match e with
                                   | JArr [JStr k; t] => (k, ptext_of_json t)
                                   | _ => ("", ptext_of_json JNull)
                                   end) l)
  | _ => None
  end.

Definition request_of_json (j : json) : request :=
  let b := jget_d "body" j in
  {| rq_method := jfS "method" j;
     rq_path := jfS "path" j;
     rq_query := pairs_of_json (jget_d "query" j);
     rq_body := {| bt_text := jfS "text" b;
                   bt_json := opt_obj (jget_d "json" b);
                   bt_yaml := opt_obj (jget_d "yaml" b);
                   bt_form := pairs_of_json (jget_d "form" b) |} |}.

Definition lval_of_json (j : json) : lval :=
  match j with
  | JStr s => LStr s
  | JBool b => LBool b
  | JObj _ => LMap (jO (jnorm j))
  | _ => LStr ""
  end.

Definition logical_of_json (j : json) : logical_request :=
  {| lr_uri := jfS "uri" j;
     lr_params := map (fun kv => (fst kv, lval_of_json (snd kv))) (jO (jnorm (jget_d "params" j))) |}.

(** * Equality of plans *)

Fixpoint plan_eqb (a b : plan) : bool :=
  match a, b with
  | PCall m1 a1 t1, PCall m2 a2 t2 =>
      String.eqb m1 m2 && list_eqb json_eqb (map jnorm a1) (map jnorm a2) && Bool.eqb t1 t2
  | PErr e1, PErr e2 => String.eqb e1 e2
  | PIgnore p, PIgnore q => plan_eqb p q
  | PSeq p1 q1, PSeq p2 q2 => plan_eqb p1 p2 && plan_eqb q1 q2
  | _, _ => false
  end.

Fixpoint forallb2 {A B} (f : A -> B -> bool) (a : list A) (b : list B) : bool :=
  match a, b with
  | [], [] => true
  | x :: a', y :: b' => f x y && forallb2 f a' b'
  | _, _ => false
  end.

(** * The model's prediction of the status class *)

Fixpoint eval_plan (p : plan) (ds : list json) : string * list json :=
  match p with
  | PCall _ _ _ =>
      match ds with
      | d :: r => (if jfB "ok" d then "ok" else "err", r)
      | [] => ("nodirect", [])
      end
  | PIgnore q => let '(c, r) := eval_plan q ds in (if String.eqb c "nodirect" then c else "ok", r)
  | PSeq a b =>
      let '(c1, r1) := eval_plan a ds in
      if String.eqb c1 "ok" then eval_plan b r1 else (c1, r1)
  | PErr _ => ("err", ds)
  end.

Definition class_of_plan (p : plan) (ds : list json) : string :=
  let '(c, rest) := eval_plan p ds in
  match rest with [] => c | _ :: _ => "extra direct results" end.

(** does the model expect batch element i to be rendered as an error? *)
Definition belem_is_error (e : belem) (ds : list json) : string :=
  match e with
  | BPlan p => class_of_plan p ds
  | BErr _ => "err"
  | BBadType => "badtype"
  end.

Definition has_error_key (j : json) : bool :=
  match jget "error" j with Some _ => true | None => false end.

(** * The specification on the observation *)

Definition d_ok (d : json) : bool := jfB "ok" d.
Definition d_res (d : json) : json := jnorm (jget_d "res" d).

(** The documented JSON rendering of the result of the direct call(s) of a
    logical request; None = the direct operation failed (an error response
    is expected). *)
Definition expected_body (lr : logical_request) (ds : list json) : option json :=
  let u := lr_uri lr in
  let id := lstr "id" lr in
  let is x := String.eqb u x in
  match ds with
  | [] => None
  | d :: rest =>
      if is "/api/loc/facts/replace" then
        match rest with
        | d2 :: _ => if d_ok d && d_ok d2 then Some (JObj [("id", d_res d2)]) else None
        | [] => None
        end
      else if negb (d_ok d) then None
      else
        let r := d_res d in
        Some (
          if is "/api/loc/facts/add" || is "/api/loc/rules/add" then JObj [("id", r)]
          else if is "/api/loc/facts/rem" || is "/api/loc/rules/rem" then JObj [("given", id); ("removed", r)]
          else if is "/api/loc/facts/get" then JObj [("fact", r); ("id", id)]
          else if is "/api/loc/rules/list" then JObj [("ids", r)]
          else if is "/api/loc/rules/disable" then JObj [("disabled", id)]
          else if is "/api/loc/rules/enable" then JObj [("enabled", id)]
          else if is "/api/loc/rules/enabled" then JObj [("enabled", r); ("ruleId", id)]
          else if is "/api/loc/events/ingest" || is "/api/loc/parents" || is "/api/loc/util/js" then JObj [("result", r)]
          else if is "/api/loc/admin/size" then JObj [("size", r)]
          else if is "/api/loc/admin/create" || is "/api/loc/admin/clear" || is "/api/loc/admin/delete"
               then JObj [("status", JStr "okay")]
          else r (* search, take, query, stats: the marshalled result itself *))
  end.

(** the context id of an ingest answer is generated: not compared *)
Definition observed_body (lr : logical_request) (b : json) : json :=
  if String.eqb (lr_uri lr) "/api/loc/events/ingest" then
    match jnorm b with JObj kvs => JObj (aremove "id" kvs) | x => x end
  else jnorm b.

Definition spec_wf (lr : logical_request) (http : json) (ds : list json) : bool :=
  match expected_body lr ds with
  | Some b => String.eqb (jfS "class" http) "ok" && jfB "parsed" http &&
              json_eqb (observed_body lr (jget_d "body" http)) b
  | None => String.eqb (jfS "class" http) "err"
  end.

Definition spec_batch_elem (lr : logical_request) (ds : list json) (got : json) : bool :=
  match expected_body lr ds with
  | Some b => json_eqb (observed_body lr got) b
  | None => has_error_key got
  end.

Fixpoint spec_batch_elems (lrs : list logical_request) (dss : list json) (got : list json) : bool :=
  match lrs, dss, got with
  | [], [], [] => true
  | lr :: lrs', ds :: dss', g :: got' => spec_batch_elem lr (jL ds) g && spec_batch_elems lrs' dss' got'
  | _, _, _ => false
  end.

(** * Known findings: decidable input classes (on the abstract request) *)

Definition is_envelope (rq : request) : bool :=
  let u := dwim_uri (rq_path rq) in String.eqb u "/api/json" || String.eqb u "/api/yaml".

(** D24: POST, not an envelope, zero-length body. *)
Definition in_D24 (rq : request) : bool :=
  is_post rq && negb (is_envelope rq) && String.eqb (bt_text (rq_body rq)) "".

Definition typed_json (p : string) : bool :=
  match alookup p svc_parameter_types with Some t => String.eqb t "json" | None => false end.
Definition has_empty_typed (l : option (list (string * ptext))) : bool :=
  match l with
  | Some l => existsb (fun kv => typed_json (fst kv) && String.eqb (pt_text (snd kv)) "") l
  | None => false
  end.
(** the body is read as a form: not empty, no leading brace, no newline *)
Definition form_sniffed (rq : request) : bool :=
  let t := bt_text (rq_body rq) in
  is_post rq && negb (is_envelope rq) && negb (String.eqb t "") && negb (starts_brace t) && negb (has_newline t).
(** D61: a json-typed parameter with an empty text in the query string or in a form body. *)
Definition in_D61 (rq : request) : bool :=
  has_empty_typed (rq_query rq) || (form_sniffed rq && has_empty_typed (bt_form (rq_body rq))).

Definition is_jstr (j : json) : bool := match j with JStr _ => true | _ => false end.
(** some "uri" member of the object is not a string *)
Definition nonstring_uri (o : option obj) : bool :=
  match o with
  | Some o => existsb (fun kv => String.eqb (fst kv) "uri" && negb (is_jstr (snd kv))) o
  | None => false
  end.
(** some "requests" member of the object is an array with an element object
    whose uri is not a string *)
Definition batch_nonstring_uri (o : option obj) : bool :=
  match o with
  | Some o => existsb (fun kv => String.eqb (fst kv) "requests" &&
                                 existsb (fun x => match x with JObj e => nonstring_uri (Some e) | _ => false end)
                                         (jL (snd kv))) o
  | None => false
  end.
(** D25: a uri member that is not a string, in a sniffed JSON/YAML body of a
    plain request or in an element of a batch. *)
Definition in_D25 (rq : request) : bool :=
  let b := rq_body rq in
  let t := bt_text b in
  (is_post rq && negb (is_envelope rq) &&
   ((starts_brace t && nonstring_uri (bt_json b)) ||
    (negb (starts_brace t) && has_newline t && nonstring_uri (bt_yaml b)))) ||
  (is_post rq && (batch_nonstring_uri (bt_json b) || batch_nonstring_uri (bt_yaml b))).

(** * One operation *)

Record opv := { v_ok : bool; v_why : string; v_model : json;
                v_spec : bool; v_spec_why : string; v_kf : list string; v_feat : list string }.

Definition class_of_outcome (o : outcome action) (ds : list json) : string :=
  match o with
  | Ok (ASingle p) => class_of_plan p ds
  | Ok (ABatch _) => "ok"
  | Err _ => "err"
  | Panic _ => "panic"
  | OutOfFuel => "outside the model"
  end.

Definition view_ok (m : params) (kv : string * lval) : bool :=
  let '(p, v) := kv in
  match v with
  | LStr s => match get_string_param m p true with (s', true, None) => String.eqb s s' | _ => false end
  | LBool b => match get_bool_param m p true with (b', true, None) => Bool.eqb b b' | _ => false end
  | LMap o => match get_map_param m p true with
              | (Some o', true, None) => json_eqb (jnorm (JObj o)) (jnorm (JObj o'))
              | _ => false
              end
  end.

Definition short_uri (u : string) : string := drop_chars 9 u.   (* without "/api/loc/" *)

Definition check_op (o : json) : opv :=
  let kind := jfS "kind" o in
  let rq := request_of_json (jget_d "req" o) in
  let http := jget_d "http" o in
  let hclass := jfS "class" http in
  let served := serve svc_parameter_types rq in
  let enc := jfS "enc" o in
  if String.eqb kind "batch" then
    let lrs := map logical_of_json (jfL "elems" o) in
    let dss := jfL "direct" o in
    let parsed := jfB "parsed" http in
    let model_ok :=
      match served with
      | Ok (ABatch es) =>
          String.eqb hclass "ok" &&
          forallb2 (fun e lr => match e, direct_call lr with
                                | BPlan p, Ok q => plan_eqb p q
                                | _, _ => false
                                end) es lrs &&
          Nat.eqb (length es) (length dss) &&
          parsed &&      (* ids and error texts are rendered with json.Marshal: the answer is JSON *)
          forallb2 (fun pr g => String.eqb (belem_is_error (fst pr) (jL (snd pr))) (if has_error_key g then "err" else "ok"))
                   (combine es dss) (jL (jget_d "body" http))
      | _ => false
      end in
    let spec := String.eqb hclass "ok" && parsed &&
                spec_batch_elems lrs dss (jL (jget_d "body" http)) in
    {| v_ok := model_ok; v_why := if model_ok then "" else "batch: the model's elements differ from the intended / observed ones";
       v_model := JStr (class_of_outcome served []);
       v_spec := spec; v_spec_why := if spec then "" else "a batch element differs from the direct call's result (or the answer is not JSON)";
       v_kf := []; v_feat := [String.append "batch:" hclass] |}
  else
    let lr := logical_of_json (jget_d "logical" o) in
    let ds := jfL "direct" o in
    let predicted := class_of_outcome served ds in
    let class_ok := String.eqb predicted hclass in
    if String.eqb kind "wf" then
      let intent_ok :=
        match decode svc_parameter_types rq, served, direct_call lr with
        | Ok (u, m), Ok (ASingle p), Ok q =>
            String.eqb u (lr_uri lr) && forallb (view_ok m) (lr_params lr) && plan_eqb p q
        | _, _, _ => false
        end in
      let spec := spec_wf lr http ds in
      {| v_ok := intent_ok && class_ok;
         v_why := if negb intent_ok then "the model does not decode the intended uri / parameters / call"
                  else if class_ok then "" else String.append "the model predicts status class " predicted;
         v_model := JStr predicted;
         v_spec := spec;
         v_spec_why := if spec then "" else
                       String.append (String.append (lr_uri lr) ": the HTTP answer differs from the direct call: class ") hclass;
         v_kf := [];
         v_feat := [String.append (String.append enc ":") hclass; short_uri (lr_uri lr);
                    String.append "prefix:" (jfS "prefix" o)] |}
    else
      (* an error response: 400 - or, for a batch, the batch's own rendering
         of a failing element: 200 with only {"error": ...} elements *)
      let spec := String.eqb hclass "err" ||
                  (String.eqb (dwim_uri (rq_path rq)) "/api/sys/util/batch" && String.eqb hclass "ok" &&
                   jfB "parsed" http &&
                   match jget_d "body" http with
                   | JArr (x :: xs) => forallb has_error_key (x :: xs)
                   | _ => false
                   end) in
      let kf :=
        if spec then []
        else if String.eqb hclass "panic" then
          (if in_D24 rq then ["D24"] else if in_D61 rq then ["D61"] else if in_D25 rq then ["D25"] else [])
        else [] in
      {| v_ok := class_ok;
         v_why := if class_ok then "" else String.append "malformed request: the model predicts status class " predicted;
         v_model := JStr predicted;
         v_spec := spec;
         v_spec_why := if spec then "" else
                       String.append (String.append "malformed request (" (jfS "mal" o)) (String.append ") answered with class " hclass);
         v_kf := kf;
         v_feat := [String.append (String.append "mal:" (jfS "mal" o)) (String.append ":" hclass)] |}.

(** * One case *)

Fixpoint first_bad {A} (f : A -> bool) (l : list A) (i : Z) : option (Z * A) :=
  match l with
  | [] => None
  | x :: r => if f x then first_bad f r (i + 1) else Some (i, x)
  end.

Definition check_service (c : json) : json :=
  let vs := map check_op (jfL "ops" c) in
  let dw_ok := forallb (fun d => String.eqb (dwim_uri (jfS "in" d)) (jfS "out" d)) (jfL "dwim" c) in
  let ok := forallb v_ok vs && dw_ok in
  let bad := first_bad v_ok vs 0 in
  let spec_bad := first_bad v_spec vs 0 in
  let failing := filter (fun v => negb (v_spec v)) vs in
  let explained := forallb (fun v => match v_kf v with [] => false | _ => true end) failing in
  let feats := dedup_str (flat_map v_feat vs) in
  JObj [("ok", JBool ok);
        ("at", match bad with Some (i, _) => JNum i | None => if dw_ok then JNull else JStr "dwim" end);
        ("why", JStr (match bad with
                      | Some (_, v) => v_why v
                      | None => if dw_ok then "" else "dwim_uri differs from service.DWIMURI on a probe string"
                      end));
        ("model", match bad with Some (_, v) => v_model v | None => JNull end);
        ("spec_ok", JBool (match spec_bad with None => true | Some _ => false end));
        ("spec_why", JStr (match spec_bad with Some (_, v) => v_spec_why v | None => "" end));
        ("spec_op", JStr "service");
        ("kf", jstrs_of (if explained then dedup_str (flat_map v_kf failing) else []));
        ("features", jstrs_of feats);
        ("nontrivial", JBool (Nat.leb 6 (length feats)));
        ("ambiguous", JNum 0)].
