(** Specification of condition queries (C03), written from the property text:
    the meaning of a query for ONE incoming binding, as the list (multiset) of
    outgoing bindings, over a pure fact search.  Definitions only; the
    theorems relating [Query.exec] to [den] are in proofs/QueryProofs.v. *)
From Verif Require Import Json Outcome Match Query.

(** Concatenate results; the first failure wins. *)
Fixpoint ocat {A} (l : list (outcome (list A))) : outcome (list A) :=
  match l with
  | [] => Ok []
  | o :: r => do xs <- o; do ys <- ocat r; Ok (xs ++ ys)%list
  end.

Section Den.
  (** every `more` bindings of every stored (local or inherited) fact that
      matches the given (already substituted) pattern *)
  Variable search : list string -> json -> outcome (list bindings).
  Variable sem : string -> option code.

  Fixpoint den (q : query) (b : bindings) {struct q} : outcome (list bindings) :=
    match q with
    | QEmpty => Ok [b]                                   (* the identity *)
    | QCode js =>
        match sem js with
        | Some c => do v <- run_code c b; Ok (code_keep b v)
        | None => Err "unknown script"
        end
    | QPattern p locs =>
        match bind_pat b p with
        | JObj m => do mores <- search locs (JObj m); Ok (map (extend_bindings b) mores)
        | _ => Err "isn't a map"
        end
    | QAnd qs =>                                         (* left-to-right composition *)
        (fix conj (qs : list query) (b : bindings) : outcome (list bindings) :=
           match qs with
           | [] => Ok [b]
           | q1 :: r => do xs <- den q1 b; ocat (map (conj r) xs)
           end) qs b
    | QOr qs sc =>                                       (* concatenation; first non-empty when short-circuit *)
        (fix disj (qs : list query) : outcome (list bindings) :=
           match qs with
           | [] => Ok []
           | q1 :: r =>
               do xs <- den q1 b;
               if sc && negb (match xs with [] => true | _ => false end) then Ok xs
               else do ys <- disj r; Ok (xs ++ ys)%list
           end) qs
    | QNot q1 =>                                         (* exactly the bindings for which q1 yields nothing *)
        do xs <- den q1 b;
        Ok (match xs with [] => [b] | _ => [] end)
    end.

  Definition den_all (q : query) (bss : list bindings) : outcome (list bindings) :=
    ocat (map (den q) bss).
End Den.
