(** Correspondence checker for the pattern index alone: a sequence of
    add / rem of patterns on a fresh index, then one search.  The model's trie
    must give the same candidate set (or an error exactly when the code does),
    and the candidate set is judged against the specification of C01's index
    clause: every pattern that is currently indexed and matches the event
    (by the model's matcher AND by the real matcher's observed verdict) is
    among the candidates. *)
From Verif Require Import Json Outcome Match PatIndex.

Fixpoint has_propvar_key (p : json) : bool :=
  match p with
  | JObj kvs => existsb (fun kv => is_var (fst kv) || has_propvar_key (snd kv)) kvs
  | JArr l => existsb has_propvar_key l
  | _ => false
  end.

Fixpoint multi_var_array (p : json) : bool :=
  match p with
  | JArr l => (1 <? length (filter is_var_json l))%nat || existsb multi_var_array l
  | JObj kvs => existsb (fun kv => multi_var_array (snd kv)) kvs
  | _ => false
  end.

(** state: trie and the list of live (id, pattern, really-matches) entries *)
Definition pstep (st : pnode * list (string * json * bool) * bool) (o : json)
  : pnode * list (string * json * bool) * bool :=
  let '(n, live, agree) := st in
  let id := jfS "id" o in
  let p := jnorm (jget_d "p" o) in
  if String.eqb (jfS "op" o) "add" then
    let '(n', e) := pi_add n p id in
    let ok := match e with None => true | Some _ => false end in
    (n', if ok then (id, p, jfB "matches" o) :: live else live, agree && Bool.eqb ok (jfB "ok" o))
  else
    let '(n', e) := pi_rem n p id in
    let ok := match e with None => true | Some _ => false end in
    (n', if ok then filter (fun t => negb (String.eqb (fst (fst t)) id && json_eqb (snd (fst t)) p)) live else live,
     agree && Bool.eqb ok (jfB "ok" o)).

Definition check_pindex (c : json) : json :=
  let ev := jnorm (jget_d "event" c) in
  let '(n, live0, agree) := fold_left pstep (jfL "ops" c) (pn_empty, [], true) in
  (* the engine keeps one pattern per id (the state unindexes the stored rule
     before indexing its replacement): only ids used by exactly one operation
     of the case are judged *)
  let uses id := length (filter (fun o => String.eqb (jfS "id" o) id) (jfL "ops" c)) in
  let live := filter (fun t => Nat.eqb (uses (fst (fst t))) 1) live0 in
  let obs := jget_d "res" c in
  let m := pi_search n ev in
  let same :=
    match m with
    | Ok ids => jfB "ok" obs && list_eqb String.eqb ids (map jS (jfL "ids" obs))
    | Err _ => negb (jfB "ok" obs) && negb (String.eqb (jfS "class" obs) "panic")
    | _ => false
    end in
  (* the specification, on the observed answer *)
  let missing :=
    if jfB "ok" obs then
      filter (fun t => let '(id, p, really) := t in
                       really &&
                       match core_match p ev [] with Ok (_ :: _) => true | _ => false end &&
                       negb (mem_str id (map jS (jfL "ids" obs)))) live
    else [] in
  let kf := dedup_str (flat_map (fun t => let '(_, p, _) := t in
                                           ((if has_propvar_key p then ["D6"] else []) ++
                                            (if multi_var_array p then ["outside-fragment"] else []))%list) missing) in
  let unexplained := filter (fun t => let '(_, p, _) := t in negb (has_propvar_key p || multi_var_array p)) missing in
  let nlive := length live in
  JObj [("ok", JBool (same && agree));
        ("at", JNull);
        ("why", JStr (if same && agree then "" else "the pattern index and its trie model differ"));
        ("model", match m with Ok ids => JObj [("ids", jstrs_of ids); ("ok", JBool true)] | _ => JObj [("ok", JBool false)] end);
        ("spec_ok", JBool (match filter (fun t => let '(_, p, _) := t in negb (multi_var_array p) || has_propvar_key p) missing with
                           | [] => true | _ => false end));
        ("spec_why", JStr (match unexplained with
                           | [] => match missing with [] => "" | _ => "known finding" end
                           | (id, _, _) :: _ => String.append "a matching indexed pattern is not among the candidates: " id
                           end));
        ("spec_op", JStr "pindex");
        ("kf", jstrs_of (match unexplained with [] => filter (fun k => String.eqb k "D6") kf | _ => [] end));
        ("features", jstrs_of ((if jfB "ok" obs then ["search+"] else ["search-err"]) ++
                               (match missing with [] => [] | _ => ["missing"] end) ++
                               (if (0 <? Z.of_nat nlive) then ["live"] else []) ++
                               (if existsb (fun t => snd t) live then ["live-match"] else []) ++
                               (if existsb (fun o => String.eqb (jfS "op" o) "rem") (jfL "ops" c) then ["rem"] else []))%list);
        ("nontrivial", JBool (existsb (fun t => snd t) live));
        ("ambiguous", JNum 0)].
