(** JSON values of the modelled fragment, and the helpers every model uses.
    Model file: definitions only, no proofs (proofs live in coq/proofs). *)
From Coq Require Export String Ascii ZArith List Bool.
Export ListNotations.
Open Scope string_scope.
Open Scope Z_scope.

Inductive json : Type :=
| JNull
| JBool (b : bool)
| JNum (z : Z)
| JStr (s : string)
| JArr (l : list json)
| JObj (kvs : list (string * json)).

(** Nested induction principle. *)
Section JsonInd.
  Variable P : json -> Prop.
  Hypothesis Hnull : P JNull.
  Hypothesis Hbool : forall b, P (JBool b).
  Hypothesis Hnum : forall z, P (JNum z).
  Hypothesis Hstr : forall s, P (JStr s).
  Hypothesis Harr : forall l, Forall P l -> P (JArr l).
  Hypothesis Hobj : forall kvs, Forall (fun kv => P (snd kv)) kvs -> P (JObj kvs).

  Fixpoint json_ind' (j : json) : P j :=
    match j with
    | JNull => Hnull
    | JBool b => Hbool b
    | JNum z => Hnum z
    | JStr s => Hstr s
    | JArr l =>
        Harr l ((fix go (l : list json) : Forall P l :=
                   match l with
                   | [] => Forall_nil _
                   | x :: xs => Forall_cons _ (json_ind' x) (go xs)
                   end) l)
    | JObj kvs =>
        Hobj kvs ((fix go (l : list (string * json)) : Forall (fun kv => P (snd kv)) l :=
                     match l with
                     | [] => Forall_nil _
                     | x :: xs => Forall_cons _ (json_ind' (snd x)) (go xs)
                     end) kvs)
    end.
End JsonInd.

(** Structural equality test. *)
Fixpoint json_eqb (a b : json) {struct a} : bool :=
  match a, b with
  | JNull, JNull => true
  | JBool x, JBool y => Bool.eqb x y
  | JNum x, JNum y => Z.eqb x y
  | JStr x, JStr y => String.eqb x y
  | JArr xs, JArr ys =>
      (fix go (xs ys : list json) {struct xs} : bool :=
         match xs, ys with
         | [], [] => true
         | x :: xs', y :: ys' => json_eqb x y && go xs' ys'
         | _, _ => false
         end) xs ys
  | JObj xs, JObj ys =>
      (fix go (xs ys : list (string * json)) {struct xs} : bool :=
         match xs, ys with
         | [], [] => true
         | (k, x) :: xs', (k', y) :: ys' => String.eqb k k' && json_eqb x y && go xs' ys'
         | _, _ => false
         end) xs ys
  | _, _ => false
  end.

(** Size (number of constructors), used for fuel bounds. *)
Fixpoint jsize (j : json) : nat :=
  match j with
  | JArr l => S (fold_right (fun x n => (jsize x + n)%nat) O l)
  | JObj kvs => S (fold_right (fun kv n => (S (jsize (snd kv)) + n)%nat) O kvs)
  | _ => 1%nat
  end.

(** * Strings *)

Definition str_ltb (a b : string) : bool :=
  match String.compare a b with Lt => true | _ => false end.
Definition str_leb (a b : string) : bool :=
  match String.compare a b with Gt => false | _ => true end.

Definition has_prefix (p s : string) : bool := String.prefix p s.

Fixpoint has_suffix_aux (n : nat) (suf s : string) : bool :=
  if String.eqb suf s then true else
  match n, s with
  | S n', String _ s' => has_suffix_aux n' suf s'
  | _, _ => false
  end.
Definition has_suffix (suf s : string) : bool := has_suffix_aux (String.length s) suf s.

Definition is_var (s : string) : bool := has_prefix "?" s.
Definition is_optvar (s : string) : bool := has_prefix "??" s.
Definition is_anon (s : string) : bool := String.eqb s "?".

(** * Association lists (JSON objects) *)

Fixpoint alookup {A} (k : string) (kvs : list (string * A)) : option A :=
  match kvs with
  | [] => None
  | (k', v) :: r => if String.eqb k k' then Some v else alookup k r
  end.

Fixpoint aremove {A} (k : string) (kvs : list (string * A)) : list (string * A) :=
  match kvs with
  | [] => []
  | (k', v) :: r => if String.eqb k k' then aremove k r else (k', v) :: aremove k r
  end.

(** Sorted insert (replacing an existing key): objects are kept sorted by key. *)
Fixpoint ainsert {A} (k : string) (v : A) (kvs : list (string * A)) : list (string * A) :=
  match kvs with
  | [] => [(k, v)]
  | (k', v') :: r =>
      match String.compare k k' with
      | Lt => (k, v) :: kvs
      | Eq => (k, v) :: r
      | Gt => (k', v') :: ainsert k v r
      end
  end.

Definition akeys {A} (kvs : list (string * A)) : list string := map fst kvs.

Fixpoint sorted_keys (ks : list string) : bool :=
  match ks with
  | [] => true
  | k :: r => match r with
              | [] => true
              | k' :: _ => str_ltb k k' && sorted_keys r
              end
  end.

(** Well-formed JSON: every object has strictly increasing keys. *)
Fixpoint wf_json (j : json) : bool :=
  match j with
  | JArr l => forallb wf_json l
  | JObj kvs => sorted_keys (map fst kvs) && forallb (fun kv => wf_json (snd kv)) kvs
  | _ => true
  end.

(** Normalise: sort every object by key (later duplicates win, as in Go maps). *)
Fixpoint jnorm (j : json) : json :=
  match j with
  | JArr l => JArr (map jnorm l)
  | JObj kvs => JObj (fold_left (fun acc kv => ainsert (fst kv) (jnorm (snd kv)) acc) kvs [])
  | _ => j
  end.

(** * Field access helpers used by the case decoders *)

Definition jget (k : string) (j : json) : option json :=
  match j with JObj kvs => alookup k kvs | _ => None end.
Definition jget_d (k : string) (j : json) : json :=
  match jget k j with Some v => v | None => JNull end.
Definition jZ (j : json) : Z := match j with JNum z => z | _ => 0 end.
Definition jS (j : json) : string := match j with JStr s => s | _ => "" end.
Definition jB (j : json) : bool := match j with JBool b => b | _ => false end.
Definition jL (j : json) : list json := match j with JArr l => l | _ => [] end.
Definition jO (j : json) : list (string * json) := match j with JObj l => l | _ => [] end.
Definition jfZ k j := jZ (jget_d k j).
Definition jfS k j := jS (jget_d k j).
Definition jfB k j := jB (jget_d k j).
Definition jfL k j := jL (jget_d k j).

Definition is_scalar (j : json) : bool :=
  match j with JArr _ | JObj _ => false | _ => true end.

(** Generic list helpers. *)
Fixpoint list_eqb {A} (eqb : A -> A -> bool) (a b : list A) : bool :=
  match a, b with
  | [], [] => true
  | x :: a', y :: b' => eqb x y && list_eqb eqb a' b'
  | _, _ => false
  end.

Fixpoint mem_str (s : string) (l : list string) : bool :=
  match l with [] => false | x :: r => String.eqb s x || mem_str s r end.

Fixpoint mem_json (j : json) (l : list json) : bool :=
  match l with [] => false | x :: r => json_eqb j x || mem_json j r end.

Fixpoint remove_first_json (j : json) (l : list json) : list json :=
  match l with [] => [] | x :: r => if json_eqb j x then r else x :: remove_first_json j r end.

Fixpoint dedup_str (l : list string) : list string :=
  match l with [] => [] | x :: r => if mem_str x r then dedup_str r else x :: dedup_str r end.

(** Insertion sort on strings (model of sort.Strings; bytewise order). *)
Fixpoint insert_str (s : string) (l : list string) : list string :=
  match l with
  | [] => [s]
  | x :: r => if str_leb s x then s :: l else x :: insert_str s r
  end.
Definition sort_str (l : list string) : list string := fold_right insert_str [] l.

(** Decimal rendering of integers (for ids, tokens). *)
Fixpoint pos_digits (fuel : nat) (n : Z) (acc : string) : string :=
  match fuel with
  | O => acc
  | S f =>
      let d := Z.modulo n 10 in
      let c := ascii_of_nat (48 + Z.to_nat d) in
      let acc' := String c acc in
      if Z.ltb n 10 then acc' else pos_digits f (Z.div n 10) acc'
  end.
Definition Z_to_string (z : Z) : string :=
  if Z.ltb z 0 then String "-" (pos_digits 80 (Z.opp z) "") else pos_digits 80 z "".

(** A total order on JSON values (for canonical sorting of result sets). *)
Definition lex (c : comparison) (k : comparison) : comparison :=
  match c with Eq => k | _ => c end.

Definition jrank (j : json) : Z :=
  match j with JNull => 0 | JBool _ => 1 | JNum _ => 2 | JStr _ => 3 | JArr _ => 4 | JObj _ => 5 end.

Fixpoint json_compare (a b : json) {struct a} : comparison :=
  match a, b with
  | JBool x, JBool y => Z.compare (if x then 1 else 0) (if y then 1 else 0)
  | JNum x, JNum y => Z.compare x y
  | JStr x, JStr y => String.compare x y
  | JArr xs, JArr ys =>
      (fix go (xs ys : list json) {struct xs} : comparison :=
         match xs, ys with
         | [], [] => Eq
         | [], _ => Lt
         | _, [] => Gt
         | x :: xs', y :: ys' => lex (json_compare x y) (go xs' ys')
         end) xs ys
  | JObj xs, JObj ys =>
      (fix go (xs ys : list (string * json)) {struct xs} : comparison :=
         match xs, ys with
         | [], [] => Eq
         | [], _ => Lt
         | _, [] => Gt
         | (k, x) :: xs', (k', y) :: ys' =>
             lex (String.compare k k') (lex (json_compare x y) (go xs' ys'))
         end) xs ys
  | _, _ => Z.compare (jrank a) (jrank b)
  end.

Definition json_leb (a b : json) : bool :=
  match json_compare a b with Gt => false | _ => true end.

Fixpoint insert_json (x : json) (l : list json) : list json :=
  match l with
  | [] => [x]
  | y :: r => if json_leb x y then x :: l else y :: insert_json x r
  end.
Definition sort_json (l : list json) : list json := fold_right insert_json [] l.

Fixpoint dedup_sorted_json (l : list json) : list json :=
  match l with
  | [] => []
  | x :: r => match r with
              | [] => [x]
              | y :: _ => if json_eqb x y then dedup_sorted_json r else x :: dedup_sorted_json r
              end
  end.

(** Canonical multiset / set of JSON values. *)
Definition canon_multiset (l : list json) : list json := sort_json l.
Definition canon_set (l : list json) : list json := dedup_sorted_json (sort_json l).

Definition jstrs_of (l : list string) : json := JArr (map JStr l).

(** Arrays are sets for the matcher: sort every array (deeply), so that two
    values that differ only in the order of array elements compare equal. *)
Fixpoint jsort_arrays (j : json) : json :=
  match j with
  | JArr l => JArr (sort_json (map jsort_arrays l))
  | JObj kvs => JObj (map (fun kv => (fst kv, jsort_arrays (snd kv))) kvs)
  | _ => j
  end.
