(** Model of the location cache of sys/system.go (CachedLocations.expire /
    Open / Release, CachedLocation.Get, the existence check) over abstract
    location instances: an instance is a number; loading an instance reads the
    storage "version" of its location (a counter bumped by every acknowledged
    write, which is write-through: it also bumps the instance's memory
    version).  An instance is STALE when its memory version differs from the
    storage version.  Time is a parameter (milliseconds).  Definitions only. *)
From Verif Require Import Json Outcome.

Record centry := mkEntry {
  ce_expires : option Z;      (* None = end of time *)
  ce_pending : nat;           (* CachedLocation.Pending: the number of requests that have opened the
                                 entry and not released it yet *)
  ce_inst : option nat;       (* the loaded instance, if any *)
}.

Record cconf := mkConf {
  cf_ttl : option Z;          (* None = Forever; Some 0 = Never; Some d = d ms *)
  cf_pending : bool;          (* Control.CachePending (NewSystem forces it on) *)
  cf_check : bool;            (* Config.CheckExistence *)
}.

Record csys := mkCsys {
  cs_cache : list (string * centry);
  cs_next : nat;                          (* next instance number *)
  cs_loads : list (string * nat);         (* load log, newest first: (location, instance) *)
  cs_ver : list (string * nat);           (* storage version per location *)
  cs_mem : list (nat * nat);              (* memory version per instance *)
  cs_created : list string;               (* locations carrying the created marker *)
  cs_cache_ttl : list (string * Z);       (* the !cacheTTL property (ms), if set *)
}.

Definition csys0 : csys := mkCsys [] O [] [] [] [] [].

Definition ver_of (s : csys) (name : string) : nat :=
  match alookup name (cs_ver s) with Some v => v | None => O end.

Fixpoint nlookup (i : nat) (l : list (nat * nat)) : option nat :=
  match l with
  | [] => None
  | (k, v) :: r => if Nat.eqb k i then Some v else nlookup i r
  end.

Definition mem_of (s : csys) (i : nat) : nat :=
  match nlookup i (cs_mem s) with Some v => v | None => O end.

Definition set_cache (s : csys) (c : list (string * centry)) : csys :=
  mkCsys c (cs_next s) (cs_loads s) (cs_ver s) (cs_mem s) (cs_created s) (cs_cache_ttl s).

(** expire: counts the caller in (Open) or out (Release; never below 0), then
    returns the live entry or drops the expired one.  An entry is live while
    some request uses it; an entry that nobody uses is live if it holds a
    location and its time is not up.  (The code's `dead` result is always false.) *)
Definition expire (s : csys) (name : string) (released : bool) (now : Z) : csys * option centry :=
  match alookup name (cs_cache s) with
  | None => (s, None)
  | Some e =>
      let e' := mkEntry (ce_expires e) (if released then Nat.pred (ce_pending e) else S (ce_pending e)) (ce_inst e) in
      let live := (0 <? ce_pending e')%nat ||
                  (match ce_inst e' with Some _ => true | None => false end &&
                   match ce_expires e' with None => true | Some t => now <? t end) in
      if live then (set_cache s (ainsert name e' (cs_cache s)), Some e')
      else (set_cache s (aremove name (cs_cache s)), None)
  end.

(** CachedLocation.Get on an entry: load once.  A failed load leaves the entry
    as it is (it is dropped by [expire] when its last user releases it). *)
Definition entry_get (cf : cconf) (s : csys) (name : string) (e : centry) (check : bool) (now : Z)
  : csys * centry * outcome nat :=
  match ce_inst e with
  | Some i => (s, e, Ok i)
  | None =>
      if check && cf_check cf && negb (mem_str name (cs_created s)) then (s, e, Err "notfound")
      else
        let i := cs_next s in
        let s1 := mkCsys (cs_cache s) (S i) ((name, i) :: cs_loads s) (cs_ver s)
                         ((i, ver_of s name) :: cs_mem s) (cs_created s) (cs_cache_ttl s) in
        let expires := match alookup name (cs_cache_ttl s) with
                       | Some ms => Some (now + ms)
                       | None => ce_expires e
                       end in
        (s1, mkEntry expires (ce_pending e) (Some i), Ok i)
  end.

(** CachedLocations.Open (sequential: both critical sections in one step). *)
Definition copen (cf : cconf) (s : csys) (name : string) (check : bool) (now : Z) : csys * outcome nat :=
  let '(s1, found) := expire s name false now in
  match found with
  | Some e =>
      (* the entry is there and the caller is counted *)
      match ce_inst e with
      | Some i => (s1, Ok i)
      | None =>
          (* made by a request whose load has not succeeded: Get on the SAME entry *)
          let '(s3, e', r) := entry_get cf s1 name e check now in
          (set_cache s3 (ainsert name e' (cs_cache s3)), r)
      end
  | None =>
      (* no entry: a new one, with the caller as its first user *)
      let expires := match cf_ttl cf with None => None | Some d => Some (now + d) end in
      let e := mkEntry expires 1 None in
      let cached := negb (match cf_ttl cf with Some 0 => true | _ => false end) || cf_pending cf in
      let s2 := if cached then set_cache s1 (ainsert name e (cs_cache s1)) else s1 in
      let '(s3, e', r) := entry_get cf s2 name e check now in
      (* also after a failed load the entry stays until the caller's Release *)
      (if cached then set_cache s3 (ainsert name e' (cs_cache s3)) else s3, r)
  end.

Definition crelease (s : csys) (name : string) (now : Z) : csys := fst (expire s name true now).

(** A request through the System: Open, use the instance (a write bumps the
    storage version and the instance's memory version), Release - also after
    a failed Open (the deferred releaseLocation), also CreateLocation. *)
Inductive ckind := KRead | KWrite | KCreate | KSetCacheTTL (ms : Z).

Record creq := mkCreq { cq_name : string; cq_kind : ckind; cq_now : Z }.

Record cobs := mkCobs {
  co_result : outcome nat;     (* the instance that served the request *)
  co_stale : bool;             (* it missed an acknowledged write *)
}.

Definition bump (s : csys) (name : string) (i : nat) : csys :=
  let v := S (ver_of s name) in
  mkCsys (cs_cache s) (cs_next s) (cs_loads s) (ainsert name v (cs_ver s)) ((i, v) :: cs_mem s)
         (cs_created s) (cs_cache_ttl s).

Definition crequest (cf : cconf) (s : csys) (q : creq) : csys * cobs :=
  let check := match cq_kind q with KCreate => false | _ => true end in
  match copen cf s (cq_name q) check (cq_now q) with
  | (s1, Ok i) =>
      let stale := negb (Nat.eqb (mem_of s1 i) (ver_of s1 (cq_name q))) in
      let s2 := match cq_kind q with
                | KRead => s1
                | KWrite => bump s1 (cq_name q) i
                | KCreate =>
                    let s' := bump s1 (cq_name q) i in
                    mkCsys (cs_cache s') (cs_next s') (cs_loads s') (cs_ver s') (cs_mem s')
                           (if mem_str (cq_name q) (cs_created s') then cs_created s' else cq_name q :: cs_created s')
                           (cs_cache_ttl s')
                | KSetCacheTTL ms =>
                    let s' := bump s1 (cq_name q) i in
                    mkCsys (cs_cache s') (cs_next s') (cs_loads s') (cs_ver s') (cs_mem s') (cs_created s')
                           (ainsert (cq_name q) ms (cs_cache_ttl s'))
                end in
      (crelease s2 (cq_name q) (cq_now q), mkCobs (Ok i) stale)
  | (s1, r) => (crelease s1 (cq_name q) (cq_now q), mkCobs r false)
  end.

Definition crun (cf : cconf) (h : list creq) : csys * list cobs :=
  fold_left (fun acc q => let '(s, out) := acc in
                          let '(s', o) := crequest cf s q in (s', (out ++ [o])%list))
            h (csys0, []).

(** ** Concurrent first requests for ONE location: the two critical sections of
    Open as separate atomic steps (system lock; then the entry's lock).
    Entries have identity (an index into [k_entries]): a client keeps the
    entry it found or made.  [reuse] = false is the code as it is: an entry
    that is in the map but not loaded yet (loc == nil) is REPLACED by a new
    one; [reuse] = true is the candidate repair (use the entry that is there). *)

Record cclient := mkClient { cc_pc : nat; cc_entry : option nat; cc_got : option nat }.

Record cconc := mkConc {
  k_entries : list (option nat);     (* per entry: the instance it holds, if loaded *)
  k_slot : option nat;               (* the entry the cache map holds for the location *)
  k_loads : nat;                     (* number of OpenLocation calls *)
  k_clients : list cclient;
}.

Definition set_client (k : cconc) (j : nat) (cl : cclient) : list cclient :=
  (firstn j (k_clients k) ++ [cl] ++ skipn (S j) (k_clients k))%list.

Definition set_entry (l : list (option nat)) (i : nat) (v : option nat) : list (option nat) :=
  (firstn i l ++ [v] ++ skipn (S i) l)%list.

(** first critical section (cached = the new entry is put into the map:
    TTL <> Never or CachePending) *)
Definition conc_stepA (reuse cached : bool) (k : cconc) (j : nat) : cconc :=
  let fresh_entry :=
    let ei := length (k_entries k) in
    mkConc (k_entries k ++ [None])%list (if cached then Some ei else k_slot k) (k_loads k)
           (set_client k j (mkClient 1 (Some ei) None)) in
  match k_slot k with
  | Some ei =>
      match nth ei (k_entries k) None with
      | Some inst => mkConc (k_entries k) (k_slot k) (k_loads k) (set_client k j (mkClient 2 (Some ei) (Some inst)))
      | None => if reuse
                then mkConc (k_entries k) (k_slot k) (k_loads k) (set_client k j (mkClient 1 (Some ei) None))
                else fresh_entry
      end
  | None => fresh_entry
  end.

(** second critical section: CachedLocation.Get on the client's entry *)
Definition conc_stepB (k : cconc) (j : nat) (ei : nat) : cconc :=
  match nth ei (k_entries k) None with
  | Some inst => mkConc (k_entries k) (k_slot k) (k_loads k) (set_client k j (mkClient 2 (Some ei) (Some inst)))
  | None =>
      let inst := k_loads k in
      mkConc (set_entry (k_entries k) ei (Some inst)) (k_slot k) (S (k_loads k))
             (set_client k j (mkClient 2 (Some ei) (Some inst)))
  end.

(** a schedule is a list of client indices; each occurrence advances that client by one section *)
Definition conc_step (reuse cached : bool) (k : cconc) (j : nat) : cconc :=
  match nth_error (k_clients k) j with
  | Some cl =>
      if Nat.eqb (cc_pc cl) 0 then conc_stepA reuse cached k j
      else if Nat.eqb (cc_pc cl) 1 then
        match cc_entry cl with Some ei => conc_stepB k j ei | None => k end
      else k
  | None => k
  end.

Definition conc_init (n : nat) : cconc := mkConc [] None O (repeat (mkClient 0 None None) n).

Definition conc_run (reuse cached : bool) (n : nat) (sched : list nat) : cconc :=
  fold_left (conc_step reuse cached) sched (conc_init n).

Definition all_done (k : cconc) : bool := forallb (fun cl => Nat.eqb (cc_pc cl) 2) (k_clients k).

(** ** The whole life of a cache entry under concurrent requests for ONE
    location: N clients, each again and again Open (its two critical sections:
    the system lock, then the entry's lock in CachedLocation.Get) -> use the
    instance it was given (reads and write-through writes) -> Release, in any
    interleaving, with clock ticks of any size in between, loads that fail, and
    a !cacheTTL property that changes at any moment.  Entries have identity (an
    index into [l_entries]); the cache map holds at most one of them
    ([l_slot]); Release looks the entry up by NAME, i.e. it works on whatever
    entry the map holds then.

    [lc_count] = true is the code as repaired: Pending counts the requests that
    use the entry (Open +1, a new entry starts at 1, Release -1, an entry
    nobody uses expires when its time is up or when it has no location).
    [lc_count] = false is the Pending BOOLEAN of the earlier code (Open of an
    existing entry: true; a new entry: false; Release: false, whoever else
    still uses the entry; expiry looks at the flag and the time only). *)

Record lconf := mkLconf {
  lc_ttl : option Z;          (* None = Forever; Some 0 = Never; Some d = d ms *)
  lc_pending : bool;          (* Control.CachePending *)
  lc_count : bool;
}.

Definition lcached (cf : lconf) : bool :=
  negb (match lc_ttl cf with Some 0 => true | _ => false end) || lc_pending cf.

Record lentry := mkLentry { le_expires : option Z; le_pending : nat; le_inst : option nat }.

Inductive lpc :=
| LIdle
| LOpening (ei : nat)         (* between the two critical sections of Open, on entry ei *)
| LHolding (ei i : nat)       (* Open returned instance i (of entry ei); not released yet *)
| LFailed (ei : nat).         (* Open returned an error; the deferred Release is still to come *)

Inductive levent :=
| LStep (j : nat)             (* client j's next critical section: Open 1, Open 2 (Get: load), Release *)
| LFail (j : nat)             (* client j's load fails (storage error, location does not exist) *)
| LRead (j : nat)             (* client j reads the instance it holds *)
| LWrite (j : nat)            (* client j writes through the instance it holds; the write is acknowledged *)
| LTick (d : Z)               (* the clock moves *)
| LSetProp (p : option Z).    (* the location's !cacheTTL property changes *)

Record lsys := mkLsys {
  l_entries : list lentry;
  l_slot : option nat;                          (* the entry the cache map holds for the location *)
  l_now : Z;
  l_prop : option Z;
  l_next : nat;                                 (* next instance = number of loads so far *)
  l_store : list nat;                           (* the acknowledged writes (all in storage), newest first *)
  l_mem : list (nat * list nat);                (* per instance: the writes its memory contains *)
  l_reads : list (nat * list nat * list nat);   (* read log: (client, what it saw, what was acknowledged then) *)
  l_clients : list lpc;
}.

Definition lset {A} (l : list A) (i : nat) (v : A) : list A :=
  (firstn i l ++ [v] ++ skipn (S i) l)%list.

Definition lentry0 : lentry := mkLentry None O None.
Definition lentry_at (k : lsys) (ei : nat) : lentry := nth ei (l_entries k) lentry0.

Fixpoint ilookup (i : nat) (l : list (nat * list nat)) : option (list nat) :=
  match l with
  | [] => None
  | (k, v) :: r => if Nat.eqb k i then Some v else ilookup i r
  end.

Definition lmem_of (k : lsys) (i : nat) : list nat :=
  match ilookup i (l_mem k) with Some m => m | None => [] end.

Definition lwith_clients (k : lsys) (c : list lpc) : lsys :=
  mkLsys (l_entries k) (l_slot k) (l_now k) (l_prop k) (l_next k) (l_store k) (l_mem k) (l_reads k) c.

Definition lwith_cache (k : lsys) (es : list lentry) (slot : option nat) : lsys :=
  mkLsys es slot (l_now k) (l_prop k) (l_next k) (l_store k) (l_mem k) (l_reads k) (l_clients k).

(** Open, first critical section (CachedLocations.Open under the system lock: expire, or a new entry) *)
Definition lopen1 (cf : lconf) (k : lsys) (j : nat) : lsys :=
  match l_slot k with
  | Some ei =>
      let e := lentry_at k ei in
      let e' := mkLentry (le_expires e) (if lc_count cf then S (le_pending e) else 1%nat) (le_inst e) in
      lwith_clients (lwith_cache k (lset (l_entries k) ei e') (Some ei))
                    (lset (l_clients k) j (match le_inst e with Some i => LHolding ei i | None => LOpening ei end))
  | None =>
      let ei := length (l_entries k) in
      let e := mkLentry (match lc_ttl cf with None => None | Some d => Some (l_now k + d) end)
                        (if lc_count cf then 1%nat else O) None in
      lwith_clients (lwith_cache k (l_entries k ++ [e])%list (if lcached cf then Some ei else None))
                    (lset (l_clients k) j (LOpening ei))
  end.

(** Open, second critical section (CachedLocation.Get under the entry's lock: load once) *)
Definition lopen2 (k : lsys) (j ei : nat) : lsys :=
  let e := lentry_at k ei in
  match le_inst e with
  | Some i => lwith_clients k (lset (l_clients k) j (LHolding ei i))
  | None =>
      let i := l_next k in
      let exp := match l_prop k with Some ms => Some (l_now k + ms) | None => le_expires e end in
      mkLsys (lset (l_entries k) ei (mkLentry exp (le_pending e) (Some i))) (l_slot k) (l_now k) (l_prop k)
             (S i) (l_store k) ((i, l_store k) :: l_mem k) (l_reads k)
             (lset (l_clients k) j (LHolding ei i))
  end.

(** Release (under the system lock), on the entry the map holds NOW *)
Definition lrelease (cf : lconf) (k : lsys) (j : nat) : lsys :=
  let k1 :=
    match l_slot k with
    | None => k
    | Some ei =>
        let e := lentry_at k ei in
        let p := if lc_count cf then Nat.pred (le_pending e) else O in
        let e' := mkLentry (le_expires e) p (le_inst e) in
        let live := (0 <? p)%nat ||
                    ((if lc_count cf then match le_inst e' with Some _ => true | None => false end else true) &&
                     match le_expires e' with None => true | Some t => l_now k <? t end) in
        lwith_cache k (lset (l_entries k) ei e') (if live then Some ei else None)
    end in
  lwith_clients k1 (lset (l_clients k1) j LIdle).

Definition lstep (cf : lconf) (k : lsys) (ev : levent) : lsys :=
  match ev with
  | LStep j =>
      match nth_error (l_clients k) j with
      | Some LIdle => lopen1 cf k j
      | Some (LOpening ei) => lopen2 k j ei
      | Some (LHolding _ _) => lrelease cf k j
      | Some (LFailed _) => lrelease cf k j
      | None => k
      end
  | LFail j =>
      match nth_error (l_clients k) j with
      | Some (LOpening ei) =>
          match le_inst (lentry_at k ei) with
          | None => lwith_clients k (lset (l_clients k) j (LFailed ei))
          | Some _ => k       (* the location is there: Get cannot fail *)
          end
      | _ => k
      end
  | LRead j =>
      match nth_error (l_clients k) j with
      | Some (LHolding _ i) =>
          mkLsys (l_entries k) (l_slot k) (l_now k) (l_prop k) (l_next k) (l_store k) (l_mem k)
                 ((j, lmem_of k i, l_store k) :: l_reads k) (l_clients k)
      | _ => k
      end
  | LWrite j =>
      match nth_error (l_clients k) j with
      | Some (LHolding _ i) =>
          let w := length (l_store k) in
          mkLsys (l_entries k) (l_slot k) (l_now k) (l_prop k) (l_next k) (w :: l_store k)
                 ((i, w :: lmem_of k i) :: l_mem k) (l_reads k) (l_clients k)
      | _ => k
      end
  | LTick d =>
      mkLsys (l_entries k) (l_slot k) (l_now k + d) (l_prop k) (l_next k) (l_store k) (l_mem k) (l_reads k) (l_clients k)
  | LSetProp p =>
      mkLsys (l_entries k) (l_slot k) (l_now k) p (l_next k) (l_store k) (l_mem k) (l_reads k) (l_clients k)
  end.

Definition linit (n : nat) : lsys := mkLsys [] None 0 None O [] [] [] (repeat LIdle n).

Definition lrun (cf : lconf) (n : nat) (sched : list levent) : lsys := fold_left (lstep cf) sched (linit n).

(** the instance the cache map would hand to the next Open *)
Definition lslot_inst (k : lsys) : option nat :=
  match l_slot k with Some ei => le_inst (lentry_at k ei) | None => None end.

Definition luser (c : lpc) : bool := match c with LIdle => false | _ => true end.
Definition lusers (l : list lpc) : nat := length (filter luser l).
