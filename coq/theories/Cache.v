(** Model of the location cache of sys/system.go (CachedLocations.expire /
    Open / Release, CachedLocation.Get, the existence check) over abstract
    location instances: an instance is a number; loading an instance reads the
    storage "version" of its location (a counter bumped by every acknowledged
    write, which is write-through: it also bumps the instance's memory
    version).  An instance is STALE when its memory version differs from the
    storage version.  Time is a parameter (milliseconds).  Definitions only. *)
From Verif Require Import Json Outcome.

Record centry := mkEntry {
  ce_expires : option Z;      (* None = end of time *)
  ce_pending : bool;
  ce_inst : option nat;       (* the loaded instance, if any *)
}.

Record cconf := mkConf {
  cf_ttl : option Z;          (* None = Forever; Some 0 = Never; Some d = d ms *)
  cf_pending : bool;          (* Control.CachePending (NewSystem forces it on) *)
  cf_check : bool;            (* Config.CheckExistence *)
}.

Record csys := mkCsys {
  cs_cache : list (string * centry);
  cs_next : nat;                          (* next instance number *)
  cs_loads : list (string * nat);         (* load log, newest first: (location, instance) *)
  cs_ver : list (string * nat);           (* storage version per location *)
  cs_mem : list (nat * nat);              (* memory version per instance *)
  cs_created : list string;               (* locations carrying the created marker *)
  cs_cache_ttl : list (string * Z);       (* the !cacheTTL property (ms), if set *)
}.

Definition csys0 : csys := mkCsys [] O [] [] [] [] [].

Definition ver_of (s : csys) (name : string) : nat :=
  match alookup name (cs_ver s) with Some v => v | None => O end.

Fixpoint nlookup (i : nat) (l : list (nat * nat)) : option nat :=
  match l with
  | [] => None
  | (k, v) :: r => if Nat.eqb k i then Some v else nlookup i r
  end.

Definition mem_of (s : csys) (i : nat) : nat :=
  match nlookup i (cs_mem s) with Some v => v | None => O end.

Definition set_cache (s : csys) (c : list (string * centry)) : csys :=
  mkCsys c (cs_next s) (cs_loads s) (cs_ver s) (cs_mem s) (cs_created s) (cs_cache_ttl s).

(** expire: marks the entry pending (or not), returns the live instance or
    drops the expired entry.  (The code's `dead` result is always false.) *)
Definition expire (s : csys) (name : string) (released : bool) (now : Z) : csys * option centry :=
  match alookup name (cs_cache s) with
  | None => (s, None)
  | Some e =>
      let e' := mkEntry (ce_expires e) (negb released) (ce_inst e) in
      let live := ce_pending e' || match ce_expires e' with None => true | Some t => now <? t end in
      if live then (set_cache s (ainsert name e' (cs_cache s)), Some e')
      else (set_cache s (aremove name (cs_cache s)), None)
  end.

(** CachedLocation.Get on an entry: load once. *)
Definition entry_get (cf : cconf) (s : csys) (name : string) (e : centry) (check : bool) (now : Z)
  : csys * centry * outcome nat :=
  match ce_inst e with
  | Some i => (s, e, Ok i)
  | None =>
      if check && cf_check cf && negb (mem_str name (cs_created s)) then (s, e, Err "notfound")
      else
        let i := cs_next s in
        let s1 := mkCsys (cs_cache s) (S i) ((name, i) :: cs_loads s) (cs_ver s)
                         ((i, ver_of s name) :: cs_mem s) (cs_created s) (cs_cache_ttl s) in
        let expires := match alookup name (cs_cache_ttl s) with
                       | Some ms => Some (now + ms)
                       | None => ce_expires e
                       end in
        (s1, mkEntry expires (ce_pending e) (Some i), Ok i)
  end.

(** CachedLocations.Open (sequential: both critical sections in one step). *)
Definition copen (cf : cconf) (s : csys) (name : string) (check : bool) (now : Z) : csys * outcome nat :=
  let '(s1, found) := expire s name false now in
  match match found with Some e => ce_inst e | None => None end with
  | Some i => (s1, Ok i)
  | None =>
      (* no entry, or an entry that is not loaded yet (loc == nil): Open makes a NEW entry,
         replacing whatever the map holds *)
      let expires := match cf_ttl cf with None => None | Some d => Some (now + d) end in
      let e := mkEntry expires false None in
      let cached := negb (match cf_ttl cf with Some 0 => true | _ => false end) || cf_pending cf in
      let s2 := if cached then set_cache s1 (ainsert name e (cs_cache s1)) else s1 in
      let '(s3, e', r) := entry_get cf s2 name e check now in
      match r with
      | Ok _ => (if cached then set_cache s3 (ainsert name e' (cs_cache s3)) else s3, r)
      | _ => (set_cache s3 (aremove name (cs_cache s3)), r)   (* not cached when the location does not exist *)
      end
  end.

Definition crelease (s : csys) (name : string) (now : Z) : csys := fst (expire s name true now).

(** A request through the System: Open, use the instance (a write bumps the
    storage version and the instance's memory version), Release. *)
Inductive ckind := KRead | KWrite | KCreate | KSetCacheTTL (ms : Z).

Record creq := mkCreq { cq_name : string; cq_kind : ckind; cq_now : Z }.

Record cobs := mkCobs {
  co_result : outcome nat;     (* the instance that served the request *)
  co_stale : bool;             (* it missed an acknowledged write *)
}.

Definition bump (s : csys) (name : string) (i : nat) : csys :=
  let v := S (ver_of s name) in
  mkCsys (cs_cache s) (cs_next s) (cs_loads s) (ainsert name v (cs_ver s)) ((i, v) :: cs_mem s)
         (cs_created s) (cs_cache_ttl s).

Definition crequest (cf : cconf) (s : csys) (q : creq) : csys * cobs :=
  let check := match cq_kind q with KCreate => false | _ => true end in
  match copen cf s (cq_name q) check (cq_now q) with
  | (s1, Ok i) =>
      let stale := negb (Nat.eqb (mem_of s1 i) (ver_of s1 (cq_name q))) in
      let s2 := match cq_kind q with
                | KRead => s1
                | KWrite => bump s1 (cq_name q) i
                | KCreate =>
                    let s' := bump s1 (cq_name q) i in
                    mkCsys (cs_cache s') (cs_next s') (cs_loads s') (cs_ver s') (cs_mem s')
                           (if mem_str (cq_name q) (cs_created s') then cs_created s' else cq_name q :: cs_created s')
                           (cs_cache_ttl s')
                | KSetCacheTTL ms =>
                    let s' := bump s1 (cq_name q) i in
                    mkCsys (cs_cache s') (cs_next s') (cs_loads s') (cs_ver s') (cs_mem s') (cs_created s')
                           (ainsert (cq_name q) ms (cs_cache_ttl s'))
                end in
      (crelease s2 (cq_name q) (cq_now q), mkCobs (Ok i) stale)
  | (s1, r) => (crelease s1 (cq_name q) (cq_now q), mkCobs r false)
  end.

Definition crun (cf : cconf) (h : list creq) : csys * list cobs :=
  fold_left (fun acc q => let '(s, out) := acc in
                          let '(s', o) := crequest cf s q in (s', (out ++ [o])%list))
            h (csys0, []).

(** ** Concurrent first requests for ONE location: the two critical sections of
    Open as separate atomic steps (system lock; then the entry's lock).
    Entries have identity (an index into [k_entries]): a client keeps the
    entry it found or made.  [reuse] = false is the code as it is: an entry
    that is in the map but not loaded yet (loc == nil) is REPLACED by a new
    one; [reuse] = true is the candidate repair (use the entry that is there). *)

Record cclient := mkClient { cc_pc : nat; cc_entry : option nat; cc_got : option nat }.

Record cconc := mkConc {
  k_entries : list (option nat);     (* per entry: the instance it holds, if loaded *)
  k_slot : option nat;               (* the entry the cache map holds for the location *)
  k_loads : nat;                     (* number of OpenLocation calls *)
  k_clients : list cclient;
}.

Definition set_client (k : cconc) (j : nat) (cl : cclient) : list cclient :=
  (firstn j (k_clients k) ++ [cl] ++ skipn (S j) (k_clients k))%list.

Definition set_entry (l : list (option nat)) (i : nat) (v : option nat) : list (option nat) :=
  (firstn i l ++ [v] ++ skipn (S i) l)%list.

(** first critical section (cached = the new entry is put into the map:
    TTL <> Never or CachePending) *)
Definition conc_stepA (reuse cached : bool) (k : cconc) (j : nat) : cconc :=
  let fresh_entry :=
    let ei := length (k_entries k) in
    mkConc (k_entries k ++ [None])%list (if cached then Some ei else k_slot k) (k_loads k)
           (set_client k j (mkClient 1 (Some ei) None)) in
  match k_slot k with
  | Some ei =>
      match nth ei (k_entries k) None with
      | Some inst => mkConc (k_entries k) (k_slot k) (k_loads k) (set_client k j (mkClient 2 (Some ei) (Some inst)))
      | None => if reuse
                then mkConc (k_entries k) (k_slot k) (k_loads k) (set_client k j (mkClient 1 (Some ei) None))
                else fresh_entry
      end
  | None => fresh_entry
  end.

(** second critical section: CachedLocation.Get on the client's entry *)
Definition conc_stepB (k : cconc) (j : nat) (ei : nat) : cconc :=
  match nth ei (k_entries k) None with
  | Some inst => mkConc (k_entries k) (k_slot k) (k_loads k) (set_client k j (mkClient 2 (Some ei) (Some inst)))
  | None =>
      let inst := k_loads k in
      mkConc (set_entry (k_entries k) ei (Some inst)) (k_slot k) (S (k_loads k))
             (set_client k j (mkClient 2 (Some ei) (Some inst)))
  end.

(** a schedule is a list of client indices; each occurrence advances that client by one section *)
Definition conc_step (reuse cached : bool) (k : cconc) (j : nat) : cconc :=
  match nth_error (k_clients k) j with
  | Some cl =>
      if Nat.eqb (cc_pc cl) 0 then conc_stepA reuse cached k j
      else if Nat.eqb (cc_pc cl) 1 then
        match cc_entry cl with Some ei => conc_stepB k j ei | None => k end
      else k
  | None => k
  end.

Definition conc_init (n : nat) : cconc := mkConc [] None O (repeat (mkClient 0 None None) n).

Definition conc_run (reuse cached : bool) (n : nat) (sched : list nat) : cconc :=
  fold_left (conc_step reuse cached) sched (conc_init n).

Definition all_done (k : cconc) : bool := forallb (fun cl => Nat.eqb (cc_pc cl) 2) (k_clients k).
