(** Correspondence checker for the location domain: replays an observed
    history of Location operations (several locations, both state kinds)
    through the model, and judges every read against the index-free
    specification (the same abstract fact map searched linearly). *)
From Verif Require Import Json Outcome Match PatIndex State Location SysOps Query QueryOps QuerySpec Events CronHooks.

Definition classify (e : string) : string :=
  if String.eqb e E_disabled || String.eqb e E_denied || String.eqb e E_capacity ||
     String.eqb e E_notfound || String.eqb e E_expired || String.eqb e E_loop ||
     String.eqb e E_dup || String.eqb e E_noloc
  then e else "other".

Definition res_of {A} (o : outcome A) (f : A -> list (string * json)) : json :=
  match o with
  | Ok a => jnorm (JObj (("ok", JBool true) :: f a))
  | Err e => JObj [("class", JStr (classify e)); ("ok", JBool false)]
  | Panic _ => JObj [("class", JStr "panic"); ("ok", JBool false)]
  | OutOfFuel => JObj [("class", JStr "hang"); ("ok", JBool false)]
  end.

Definition json_of_bss (bss : list bindings) : json :=
  JArr (canon_multiset (map (fun b => JObj b) bss)).

Definition json_of_found (found : list (string * list (string * list bindings))) : json :=
  JArr (canon_multiset
          (flat_map (fun g => map (fun r => JObj [("bss", json_of_bss (snd r)); ("id", JStr (fst r));
                                                  ("loc", JStr (fst g))]) (snd g)) found)).

Definition json_of_children (ch : list (string * list bindings)) : json :=
  JArr (canon_multiset (map (fun r => JObj [("bss", json_of_bss (snd r)); ("id", JStr (fst r))]) ch)).

(** Canonical form of an observed result (sets are sorted the same way). *)
Definition canon_obs (o : json) : json :=
  let o := JObj (aremove "ttl_mismatch_d42" (aremove "ttl_mismatch" (aremove "fired" (aremove "msg" (jO (jnorm o)))))) in
  let fix_list k (j : json) :=
    match jget k j with
    | Some (JArr l) =>
        JObj (ainsert k (JArr (canon_multiset
                                 (map (fun r => match jget "bss" r with
                                                | Some (JArr b) => JObj (ainsert "bss" (JArr (canon_multiset b)) (jO r))
                                                | _ => r
                                                end) l))) (jO j))
    | _ => j
    end in
  let o2 := fix_list "children" (fix_list "found" o) in
  let o3 := match jget "bss" o2 with
            | Some (JArr b) => JObj (ainsert "bss" (JArr (canon_multiset b)) (jO o2))
            | _ => o2
            end in
  let o4 := match jget "execs" o3 with
            | Some (JArr b) => JObj (ainsert "execs" (JArr (canon_multiset b)) (jO o3))
            | _ => o3
            end in
  let o5 := match jget "ids" o4 with
            | Some (JArr b) => JObj (ainsert "ids" (JArr (canon_multiset b)) (jO o4))
            | _ => o4
            end in
  match jget "values" o5 with
  | Some (JArr b) => JObj (ainsert "values" (JArr (canon_multiset b)) (jO o5))
  | _ => o5
  end.

Definition dec_ctx (o : json) : ctx := mkCtx (jfS "rk" o) (jfS "wk" o).
Definition dec_env (o : json) (now : Z) : env :=
  mkEnv now (jfS "fresh" o) (match jget "aux" o with Some (JNum z) => Some z | _ => None end).

(** Decode an observed operation into a typed Location operation. *)
Definition dec_op (o : json) : option lop :=
  let op := jfS "op" o in
  let id := jfS "id" o in
  if String.eqb op "addfact" then Some (LAddFact id (jnorm (jget_d "fact" o)))
  else if String.eqb op "addrule" then Some (LAddRule id (jnorm (jget_d "rule" o)))
  else if String.eqb op "remfact" then Some (LRemFact id)
  else if String.eqb op "remrule" then Some (LRemRule id)
  else if String.eqb op "getfact" then Some (LGetFact id)
  else if String.eqb op "getrule" then Some (LGetRule id)
  else if String.eqb op "enablerule" then Some (LEnableRule id (jfB "enable" o))
  else if String.eqb op "clear" then Some LClear
  else if String.eqb op "setparents" then Some (LSetParents (map jS (jfL "parents" o)))
  else if String.eqb op "getparents" then Some LGetParents
  else if String.eqb op "size" then Some LSize
  else if String.eqb op "setreadonly" then Some (LSetReadOnly (jfB "ro" o))
  else if String.eqb op "reload" then Some LReload
  else if String.eqb op "search" then Some (LSearch (jnorm (jget_d "pattern" o)) (jfB "inherited" o))
  else if String.eqb op "event" then Some (LEvent (jnorm (jget_d "event" o)))
  else None.

(** Render a typed result as the canonical observable. *)
Definition json_of_found_local (sy : system) (found : list (string * list (string * list bindings))) : json :=
  JArr (canon_multiset
          (flat_map (fun g =>
                       map (fun r => JObj [("bss", json_of_bss (snd r));
                                           ("fact", match sys_get sy (fst g) with
                                                    | Some l => match alookup (fst r) (st_facts (l_state l)) with
                                                                | Some f => f
                                                                | None => JNull
                                                                end
                                                    | None => JNull
                                                    end);
                                           ("id", JStr (fst r)); ("loc", JStr (fst g))]) (snd g)) found)).

Definition render (sy : system) (op : lop) (r : lres) : json :=
  match r with
  | RId o => (match op with LSetParents _ => res_of o (fun _ => []) | _ => res_of o (fun i => [("id", JStr i)]) end)
  | RBool o => res_of o (fun _ => [])
  | RJson o => res_of o (fun f => [("val", f)])
  | RUnit o => res_of o (fun _ => [])
  | RParents o => res_of o (fun ps => [("parents", JArr (map JStr ps))])
  | RSize o => res_of o (fun n => [("n", JNum n)])
  | RFound o =>
      let inh := match op with LSearch _ i => i | _ => false end in
      res_of o (fun f => [("found", if inh then json_of_found (map (fun g => ("", snd g)) f)
                                     else json_of_found_local sy f)])
  | RChildren o =>
      (* event errors are only visible as disposition messages *)
      let o' := match o with
                | Err x => if String.eqb x E_notfound || String.eqb x E_expired
                           then Err "other" else Err x
                | _ => o
                end in
      res_of o' (fun ch => [("children", json_of_children ch)])
  end.

(** Work tree of an event as the observable: the executed actions (multiset),
    the values (multiset) and whether the walk completed. *)
Definition json_of_exec (x : exec_rec) : json :=
  JObj ([("bs", JObj (x_bs x)); ("code", JStr (x_code x))] ++
        [("ok", JBool (match x_res x with Ok _ => true | _ => false end)); ("rule", JStr (x_rule x))] ++
        match x_res x with Ok v => [("val", v)] | _ => [] end)%list.

Definition json_of_walk (w : walk) : json :=
  match w_disp w with
  | Err x => if String.eqb x "condition failed" || String.eqb x "action failed" || String.eqb x "action failed*" then
               JObj [("amb", JBool (w_amb w)); ("execs", JArr (canon_multiset (map json_of_exec (w_execs w))));
                     ("ok", JBool false); ("stopped", JBool true);
                     ("values", JArr (canon_multiset (w_values w)))]
             else JObj [("class", JStr (if String.eqb x E_notfound || String.eqb x E_expired then "other" else classify x));
                        ("ok", JBool false)]
  | Panic _ => JObj [("class", JStr "panic"); ("ok", JBool false)]
  | OutOfFuel => JObj [("class", JStr "hang"); ("ok", JBool false)]
  | Ok _ => JObj [("amb", JBool false); ("execs", JArr (canon_multiset (map json_of_exec (w_execs w))));
                  ("ok", JBool true); ("stopped", JBool false);
                  ("values", JArr (canon_multiset (w_values w)))]
  end.

(** One operation: new system and the model's observable result. *)
Definition run_op (sy : system) (o : json) (now : Z) : system * json :=
  if String.eqb (jfS "op" o) "query" then
    let '(sy', r) := sys_query sy (jfS "loc" o) (dec_ctx o) (dec_env o now)
                               (sem_of_table (jget_d "sem" o)) (jnorm (jget_d "query" o)) in
    (sy', res_of r (fun bss => [("bss", json_of_bss bss)]))
  else if String.eqb (jfS "op" o) "process" then
    let '(sy', w) := process_event sy (jfS "loc" o) (dec_ctx o) (dec_env o now)
                                   (sem_of_table (jget_d "sem" o)) (jnorm (jget_d "event" o)) in
    (sy', json_of_walk w)
  else if String.eqb (jfS "op" o) "event" &&
          (match jget "trigger!" (jget_d "event" o), jget "evaluate!" (jget_d "event" o) with
           | None, None => false | _, _ => true end) then
    (* FindRules.Do on an event that names or embeds a rule *)
    match sys_get sy (jfS "loc" o) with
    | None => (sy, res_of (@Err unit E_noloc) (fun _ => []))
    | Some _ =>
        let '(sy', r) := find_rules_full sy (jfS "loc" o) (dec_ctx o) (dec_env o now)
                                         (sem_of_table (jget_d "sem" o)) (jnorm (jget_d "event" o)) in
        (sy', render sy' (LEvent JNull) (RChildren (omap (map (fun t => (fst (fst t), snd t))) r)))
    end
  else if String.eqb (jfS "op" o) "event" && (match jget "sem" o with Some _ => true | None => false end) then
    (* FindRules.Do on a plain event: a candidate whose condition does not parse fails RuleFromMap and
       is skipped (repair of D53) *)
    let sem := sem_of_table (jget_d "sem" o) in
    let '(sy', r) := sys_step sy (jfS "loc" o) (dec_ctx o) (dec_env o now) (LEvent (jnorm (jget_d "event" o))) in
    let cond_bad (id : string) : bool :=
      existsb (fun kv => match alookup id (st_facts (l_state (snd kv))) with
                         | Some f => match jget "rule" f with
                                     | Some body => negb (condition_ok sem body)
                                     | None => false
                                     end
                         | None => false
                         end) sy' in
    (sy', render sy' (LEvent JNull)
                 (match r with
                  | RChildren (Ok ch) => RChildren (Ok (filter (fun c => negb (cond_bad (fst c))) ch))
                  | other => other
                  end))
  else if String.eqb (jfS "op" o) "addrule" && (match jget "sem" o with Some _ => true | None => false end) then
    let '(sy', r) := with_loc sy (jfS "loc" o)
                              (fun l => loc_add_rule_c (sem_of_table (jget_d "sem" o)) l (dec_ctx o) (dec_env o now)
                                                       (jfS "id" o) (jnorm (jget_d "rule" o))) in
    (sy', res_of r (fun i => [("id", JStr i)]))
  else if String.eqb (jfS "op" o) "listrules" then
    (* Location.ListRules: the gates, then SearchFacts {"rule": "?rule"}; ids whose binding is a string
       or a map; an error of the search itself is logged and the (empty) list returned *)
    let '(sy0', g) := with_loc sy (jfS "loc" o)
                               (fun l => gated [GEnabled; GRead] l (dec_ctx o) now (fun l' => (l', Ok tt))) in
    match g with
    | Err e => (sy0', res_of (@Err unit e) (fun _ => []))
    | Panic w => (sy0', res_of (@Panic unit w) (fun _ => []))
    | OutOfFuel => (sy0', res_of (@OutOfFuel unit) (fun _ => []))
    | Ok _ =>
    let '(sy', r) := sys_step sy0' (jfS "loc" o) (dec_ctx o) (dec_env o now)
                              (LSearch (JObj [("rule", JStr "?rule")]) (jfB "inherited" o)) in
    (sy', match r with
          | RFound (Ok f) =>
              JObj [("ids", JArr (canon_multiset
                       (flat_map (fun g => flat_map (fun r => match snd r with
                                                             | b :: _ => match alookup "?rule" b with
                                                                         | Some (JStr _) | Some (JObj _) => [JStr (fst r)]
                                                                         | _ => []
                                                                         end
                                                             | [] => []
                                                             end) (snd g)) f)));
                    ("ok", JBool true)]
          | RFound (Err e) => JObj [("ids", JArr []); ("ok", JBool true)]   (* logged only *)
          | RFound (Panic w) => res_of (@Panic unit w) (fun _ => [])
          | RFound OutOfFuel => res_of (@OutOfFuel unit) (fun _ => [])
          | _ => JObj [("class", JStr "unknown-op"); ("ok", JBool false)]
          end)
    end
  else if String.eqb (jfS "op" o) "storeids" then
    (* the ids held by the location's storage, read behind the engine's back *)
    match sys_get sy (jfS "loc" o) with
    | None => (sy, res_of (@Err unit E_noloc) (fun _ => []))
    | Some l => (sy, JObj [("ids", JArr (canon_multiset (map (fun kv => JStr (fst kv)) (st_store (l_state l)))));
                           ("ok", JBool true)])
    end
  else
  match dec_op o with
  | None => (sy, JObj [("class", JStr "unknown-op"); ("ok", JBool false)])
  | Some op =>
      let '(sy', r) := sys_step sy (jfS "loc" o) (dec_ctx o) (dec_env o now) op in
      (* the facts of a search result are read in the state BEFORE the operation: a live
         dependent of an expired item is returned by the search that meets the expired item
         and removed by the purge that ends it (repair of D52) *)
      (sy', render sy op r)
  end.

Definition sys_amb (sy : system) : bool := existsb (fun kv => st_amb (l_state (snd kv))) sy.
Definition sys_clear_amb (sy : system) : system :=
  map (fun kv => (fst kv, upd_state (snd kv) (set_amb (l_state (snd kv)) false))) sy.

Definition as_linear (sy : system) : system :=
  map (fun kv => let s := l_state (snd kv) in
                 (fst kv, upd_state (snd kv)
                            (mkState Linear (st_facts s) (st_tindex s) (st_pindex s) (st_store s)
                                     (st_hooks s) (st_calls s) (st_fail s) false (st_pending s)))) sy.

Definition any_expired_l (l : loc) (now : Z) : bool :=
  existsb (fun kv => fact_expired (snd kv) now) (st_facts (l_state l)).

Definition is_mutating_op (op : string) : bool :=
  String.eqb op "addfact" || String.eqb op "addrule" || String.eqb op "remfact" || String.eqb op "remrule" ||
  String.eqb op "clear" || String.eqb op "enablerule" || String.eqb op "setparents".

Definition is_api_op (op : string) : bool :=
  is_mutating_op op || String.eqb op "getfact" || String.eqb op "getrule" || String.eqb op "getparents" ||
  String.eqb op "size" || String.eqb op "search" || String.eqb op "event" || String.eqb op "query" ||
  String.eqb op "process".

Definition loc_disabled (sy : system) (name : string) (now : Z) : bool :=
  match sys_get sy name with
  | Some l => negb (any_expired_l l now) && negb (snd (enabled l now))
  | None => false
  end.

Definition is_read_op (op : string) : bool :=
  String.eqb op "search" || String.eqb op "event" || String.eqb op "getfact" || String.eqb op "getrule" ||
  String.eqb op "query" || String.eqb op "process".

(** Known-finding predicates (decidable, on the case). *)
Fixpoint has_propvar (p : json) : bool :=
  match p with
  | JObj kvs => existsb (fun kv => is_var (fst kv) || has_propvar (snd kv)) kvs
  | JArr l => existsb has_propvar l
  | _ => false
  end.

(** D9 applies where the index does not see values: under keys ending in "!" and under "rule". *)
Fixpoint has_unindexed_values (f : json) : bool :=
  match f with
  | JObj kvs => existsb (fun kv => has_suffix "!" (fst kv) || String.eqb (fst kv) "rule" || has_unindexed_values (snd kv)) kvs
  | JArr l => existsb has_unindexed_values l
  | _ => false
  end.

(** D43: a pattern with an optional variable ("??x") as a value: the matcher
    lets the key be absent, the term index requires it. *)
Fixpoint has_optvar (p : json) : bool :=
  match p with
  | JStr s => is_optvar s
  | JObj kvs => existsb (fun kv => has_optvar (snd kv)) kvs
  | JArr l => existsb has_optvar l
  | _ => false
  end.

Definition rules_have_propvar (sy : system) : bool :=
  existsb (fun kv => existsb (fun f => match jget "rule" (snd f) with
                                        | Some r => match rule_patterns r with
                                                    | Some p => has_propvar p
                                                    | None => false
                                                    end
                                        | None => false
                                        end) (st_facts (l_state (snd kv)))) sy.

(** D30: a stored rule whose `when` has no "pattern" member (indexed under the
    whole `when` map, re-matched against the empty pattern). *)
Definition rules_have_direct_when (sy : system) : bool :=
  existsb (fun kv => existsb (fun f => match jget "rule" (snd f) with
                                        | Some r => match jget "when" r with
                                                    | Some (JObj w) => match alookup "pattern" w with
                                                                       | Some _ => false
                                                                       | None => true
                                                                       end
                                                    | _ => false
                                                    end
                                        | None => false
                                        end) (st_facts (l_state (snd kv)))) sy.

(** D37: some rule id is used in two locations (the duplicate-id check of
    searchRulesAncestors runs on the index's candidates, before the re-match). *)
Definition rule_ids_of (l : loc) : list string :=
  map fst (filter (fun f => match jget "rule" (snd f) with Some _ => true | None => false end)
                  (st_facts (l_state l))).
Fixpoint shared_rule_ids (sy : system) : bool :=
  match sy with
  | [] => false
  | (_, l) :: r => existsb (fun id => existsb (fun kv => mem_str id (rule_ids_of (snd kv))) r) (rule_ids_of l) ||
                   shared_rule_ids r
  end.

(** deep check: would the event make searchPairs fail somewhere?  Approximated
    by: it contains an unsortable array or a "?"-string. *)
Fixpoint event_risky (ev : json) : bool :=
  match ev with
  | JStr s => is_var s
  | JArr l => negb (is_sortable l) || existsb event_risky l
  | JObj kvs => existsb (fun kv => is_var (fst kv) || event_risky (snd kv)) kvs
  | _ => false
  end.

(** All `pattern` members of a query document. *)
Fixpoint query_patterns (fuel : nat) (q : json) : list json :=
  match fuel with
  | O => []
  | S f =>
      match q with
      | JObj kvs =>
          flat_map (fun kv => if String.eqb (fst kv) "pattern"
                              then (match snd kv with JObj _ => [snd kv] | _ => [] end)
                              else query_patterns f (snd kv)) kvs
      | JArr l => flat_map (query_patterns f) l
      | _ => []
      end
  end.

(** The query judged against the denotational specification [den] over the
    index-free (linear) search of the same facts. *)
Definition spec_query (sy : system) (o : json) (now : Z) : json :=
  let name := jfS "loc" o in
  let c := dec_ctx o in
  let e := dec_env o now in
  let sem := sem_of_table (jget_d "sem" o) in
  let q := jnorm (jget_d "query" o) in
  let syl := as_linear sy in
  match sys_get syl name with
  | None => res_of (@Err unit E_noloc) (fun _ => [])
  | Some l =>
      if negb (snd (enabled l now)) then res_of (@Err unit E_disabled) (fun _ => []) else
      match parse_query sem (parse_fuel q) q with
      | Ok pq =>
          res_of (den (fun locs p => snd (sys_search_locs name c e syl locs p)) sem pq [])
                 (fun bss => [("bss", json_of_bss bss)])
      | Err x => res_of (@Err unit x) (fun _ => [])
      | Panic w => res_of (@Panic unit w) (fun _ => [])
      | OutOfFuel => res_of (@OutOfFuel unit) (fun _ => [])
      end
  end.

(** An event judged against the specification of C04: the executions are
    exactly [spec_execs] over the rules the index-free dispatch finds, the
    conditions read denotationally ([den]); each runs once with its bindings.
    Histories in which some condition fails or a serial rule's action fails
    are left to the correspondence (the spec speaks about failing actions of
    non-serial rules only). *)
Definition spec_process (sy : system) (o : json) (now : Z) : json :=
  let name := jfS "loc" o in
  let c := dec_ctx o in
  let e := dec_env o now in
  let sem := sem_of_table (jget_d "sem" o) in
  let event := jnorm (jget_d "event" o) in
  let syl := as_linear sy in
  match sys_get syl name with
  | None => res_of (@Err unit E_noloc) (fun _ => [])
  | Some _ =>
      match find_rules_full syl name c e sem event with
      | (_, Ok children) =>
          let cond_o (rid : string) (body : json) (bw : bindings) : outcome (list bindings) :=
            let b := inject bw event name rid in
            match jget "condition" body with
            | None | Some JNull => Ok [b]
            | Some q => match parse_query sem (parse_fuel q) q with
                        | Ok pq => den (fun locs p => snd (sys_search_locs name c e syl locs p)) sem pq b
                        | Err x => Err x
                        | Panic w => Panic w
                        | OutOfFuel => OutOfFuel
                        end
            end in
          let cond rid body bw := match cond_o rid body bw with Ok l => l | _ => [] end in
          let clean :=
            forallb (fun ch => let '(rid, body, bss) := ch in
                               forallb (fun bw => match cond_o rid body bw with Ok _ => true | _ => false end) bss &&
                               negb (rule_serial body) && negb (one_shot (rule_schedule body))) children in
          if negb clean then JObj [("amb", JBool true); ("ok", JBool true)] else
          let xs := map (fun t => let '(rid, js, bs) := t in
                                  mkExec rid js bs (match sem js with Some cd => run_code cd bs | None => Err "unknown script" end))
                        (spec_execs cond children) in
          json_of_walk (mkWalk (Ok tt) xs (values_of xs) false)
      | (_, Err x) => (* (event errors are only visible as disposition messages) *)
          res_of (@Err unit (if String.eqb x E_notfound || String.eqb x E_expired then "other" else x)) (fun _ => [])
      | (_, Panic w) => res_of (@Panic unit w) (fun _ => [])
      | (_, OutOfFuel) => res_of (@OutOfFuel unit) (fun _ => [])
      end
  end.

(** Matcher nondeterminism (D10/D12, dependency): a repeated variable that may
    land on structured data, or "?"-strings in the data, make core.Match's
    answer depend on Go's map order.  Such reads are not compared. *)
Definition all_facts (sy : system) : list json :=
  flat_map (fun kv => map snd (st_facts (l_state (snd kv)))) sy.

Definition kf_of (sy : system) (o : json) : list string :=
  let op := jfS "op" o in
  if String.eqb op "query" then
    let ps := query_patterns (jsize (jget_d "query" o)) (jnorm (jget_d "query" o)) in
    ((if existsb (fun p => match extract_terms p with [] => true | _ => false end) ps then ["D8"] else []) ++
     (if existsb has_optvar ps then ["D43"] else []) ++
     (if existsb has_propvar ps && existsb has_unindexed_values (all_facts sy) then ["D9"] else []))%list
  else
  if String.eqb op "search" then
    let p := jnorm (jget_d "pattern" o) in
    ((match extract_terms p with [] => ["D8"] | _ => [] end) ++
     (if has_optvar p then ["D43"] else []) ++
     (if has_propvar p && existsb has_unindexed_values (all_facts sy) then ["D9"] else []))%list
  else if String.eqb op "event" || String.eqb op "process" then
    (* patterns inside the conditions of the stored rules (D8/D9 apply to them too) *)
    let cps := if String.eqb op "process" then
                 flat_map (fun f => match jget "rule" f with
                                    | Some r => match jget "condition" r with
                                                | Some q => query_patterns (jsize q) q
                                                | None => []
                                                end
                                    | None => []
                                    end) (all_facts sy)
               else [] in
    ((if existsb (fun p => match extract_terms p with [] => true | _ => false end) cps then ["D8"] else []) ++
     (if existsb has_propvar cps then ["D9"] else []) ++
     (if rules_have_propvar sy then ["D6"] else []) ++
     (if rules_have_direct_when sy then ["D30"] else []) ++
     (if shared_rule_ids sy then ["D37"] else []) ++
     (if event_risky (jnorm (jget_d "event" o)) then ["D7"] else []))%list
  else [].

(** A pattern with two or more variables in one array is rejected by the matcher ("multiple variables
    not supported here") - but only if the matcher reaches that array before another member of the
    pattern fails to match, and the order in which it walks a map is Go's map order. *)
Fixpoint multi_arr_vars (p : json) : bool :=
  match p with
  | JArr l => (2 <=? length (filter (fun x => match x with JStr s => is_var s | _ => false end) l))%nat ||
              existsb multi_arr_vars l
  | JObj kvs => existsb (fun kv => multi_arr_vars (snd kv)) kvs
  | _ => false
  end.

Definition op_risky (sy : system) (o : json) : bool :=
  let op := jfS "op" o in
  if String.eqb op "query" then
    existsb (fun p => multi_arr_vars p || existsb (fun f => struct_risk p f [] || negb (ground f)) (all_facts sy))
            (query_patterns (jsize (jget_d "query" o)) (jnorm (jget_d "query" o)))
  else if String.eqb op "search" then
    let p := jnorm (jget_d "pattern" o) in
    multi_arr_vars p || existsb (fun f => struct_risk p f [] || negb (ground f)) (all_facts sy)
  else if String.eqb op "event" || String.eqb op "process" then
    let ev := jnorm (jget_d "event" o) in
    negb (ground ev) ||
    existsb (fun f => match jget "rule" f with
                      | Some r => match rule_patterns r with
                                  | Some p => struct_risk p ev [] || multi_arr_vars p
                                  | None => false
                                  end
                      | None => false
                      end) (all_facts sy)
  else false.

(** Executable form of the deleteWith closure (the spec of C08). *)
Definition dw_names_b (fact : json) (x : string) : bool :=
  match jget "deleteWith" fact with
  | Some (JArr l) => mem_json (JStr x) l
  | _ => false
  end.

Fixpoint clo_iter (fuel : nat) (facts : list (string * json)) (set : list string) : list string :=
  match fuel with
  | O => set
  | S f =>
      let new := map fst (filter (fun kv => negb (mem_str (fst kv) set) &&
                                            existsb (dw_names_b (snd kv)) set) facts) in
      match new with
      | [] => set
      | _ => clo_iter f facts (set ++ new)%list
      end
  end.

(** After a successful removal of [id]: the ids that must remain. *)
Definition spec_remaining (facts : list (string * json)) (id : string) : list string :=
  let clo := clo_iter (S (length facts)) facts [id] in
  filter (fun j => negb (mem_str j clo)) (map fst facts).

Definition any_expired (s : state) (now : Z) : bool :=
  existsb (fun kv => fact_expired (snd kv) now) (st_facts s).

Definition failure_happened_b (s : state) : bool :=
  match st_fail s with Some n => (n <? st_calls s)%nat | None => false end.

(** Judge a removal against the closure spec: (bad?, known-finding ids). *)
Definition judge_removal (sy0 sy' : system) (o : json) (now : Z) : bool * list string :=
  let name := jfS "loc" o in
  match sys_get sy0 name, sys_get sy' name with
  | Some l0, Some l1 =>
      let s0 := l_state l0 in
      (* "every fact or rule that names it in deleteWith ... is deleted too, transitively ... the deletions
         reach storage": judged on the storage as the harness read it right after the removal returned -
         whatever has expired meanwhile (an expired dependent has to go like any other; the purge that
         follows the removal continues the cascade through it) *)
      let stays := match jget "store_after" o with
                   | Some (JArr ids) =>
                       if failure_happened_b s0 || negb (list_eqb String.eqb (map fst (st_facts s0)) (map fst (st_store s0)))
                       then false
                       else existsb (fun j => mem_json (JStr j) ids)
                                    (clo_iter (S (length (st_facts s0))) (st_facts s0) [jfS "id" o])
                   | _ => false
                   end in
      if stays then (true, []) else
      if any_expired s0 now then (false, [])
      else if negb (list_eqb String.eqb (map fst (st_facts s0)) (map fst (st_store s0))) then (false, [])
           (* memory and storage already differ: an earlier operation of this instance was hit by an
              injected storage failure and reported it *)
      else
        let id := jfS "id" o in
        let expected := spec_remaining (st_facts s0) id in
        let got := map fst (st_facts (l_state l1)) in
        let got_store := map fst (st_store (l_state l1)) in
        if list_eqb String.eqb expected got && list_eqb String.eqb expected got_store then (false, [])
        else (true, [])   (* D14 is repaired: no id is excused *)
  | _, _ => (false, [])
  end.

(** C06: a location rebuilt from its storage is the live location, after any
    history in which no storage call failed (and nothing is expired). *)
Definition failure_happened (s : state) : bool :=
  match st_fail s with Some n => (n <? st_calls s)%nat | None => false end.

Definition facts_eqb (a b : list (string * json)) : bool :=
  list_eqb (fun x y => String.eqb (fst x) (fst y) && json_eqb (snd x) (snd y)) a b.

Definition judge_reload (sy0 sy' : system) (o : json) (now : Z) : bool * list string :=
  let name := jfS "loc" o in
  match sys_get sy0 name, sys_get sy' name with
  | Some l0, Some l1 =>
      let s0 := l_state l0 in
      if any_expired s0 now || failure_happened s0 then (false, [])
      else (negb (facts_eqb (st_facts s0) (st_facts (l_state l1)) && facts_eqb (st_store s0) (st_store (l_state l1))), [])
  | _, _ => (false, [])
  end.

(** ** Cron hooks (C15): calls the model predicts for an operation *)
Definition json_of_call (c : ccall) : json :=
  match c with
  | CSched id sch => JObj [("c", JStr "sched"); ("id", JStr id); ("schedule", JStr sch)]
  | CRemJ id => JObj [("c", JStr "rem"); ("id", JStr id)]
  end.

Definition call_of_json (j : json) : ccall :=
  if String.eqb (jfS "c" j) "sched" then CSched (jfS "id" j) (jfS "schedule" j) else CRemJ (jfS "id" j).

(** The calls the model predicts for an operation of a location.  While nothing stored is
    expired the gates of the operation (Gets of the location's property facts) and the purges
    remove nothing, and the operation proper is one operation of the state: its calls are those
    of CronHooks.v (calls_add / calls_Rem / calls_clear / calls_load; the reads call nothing).
    For everything else - compound operations (events, enable/disable, ...), and whenever an
    expired item is around, so that any Get on the way may purge it together with its
    dependents - the prediction is [diff_calls]: what the calls must amount to, from the
    states before and after. *)
Definition model_calls (sy0 sy' : system) (o : json) (m : json) (now : Z) : list ccall :=
  let name := jfS "loc" o in
  let op := jfS "op" o in
  let refused := String.eqb (jfS "class" m) E_disabled || String.eqb (jfS "class" m) E_denied ||
                 String.eqb (jfS "class" m) E_capacity || String.eqb (jfS "class" m) E_noloc in
  let is_add := String.eqb op "addfact" || String.eqb op "addrule" in
  let is_rem := String.eqb op "remfact" || String.eqb op "remrule" in
  match sys_get sy0 name, sys_get sy' name with
  | Some l0, Some l1 =>
      let s0 := l_state l0 in
      let s1 := l_state l1 in
      let direct := (is_add || is_rem || String.eqb op "clear" || String.eqb op "reload") &&
                    negb (any_expired s0 now) in
      if direct then
        if refused then [] else
        if is_add then
          if jfB "ok" m then calls_add (jfB "persistent" o) false s0 s1 (Ok (jfS "id" m)) else []
        else if is_rem then calls_Rem s0 (jfS "id" o) now
        else if String.eqb op "clear" then calls_clear s0
        else (if jfB "ok" m then calls_load (jfB "persistent" o) (st_store s0) now s1 else [])
      else
        diff_calls (jfB "persistent" o) s0 s1
                   (if is_add && jfB "ok" m then Some (jfS "id" m) else None)
                   (String.eqb op "reload" && jfB "ok" m)
  | _, _ => []
  end.

Definition same_calls (mc : list ccall) (obs : list json) : bool :=
  list_eqb json_eqb (canon_multiset (map json_of_call mc)) (canon_multiset (map jnorm obs)).

Record acc := mkAcc {
  a_reg : list (string * registry);          (* C15: the cron registry per location, from the observed calls *)
  a_sys : system;
  a_k : Z;
  a_diff : option (Z * string * json);      (* first difference: op index, why, model result *)
  a_spec : option (Z * string);             (* first spec failure *)
  a_kf : list string;
  a_feats : list string;
  a_amb : Z;
  a_lost : bool;                            (* the model lost track of the state (see [lost_track]): the rest is not judged *)
}.

(** The indexed state's PatternIndex sorts the event's arrays in place while it
    searches (SortValues aliases the caller's slice), so a when-variable bound
    to a whole array is reported in sorted order by the indexed state and in
    the caller's order by the linear one.  Arrays are sets for the matcher:
    the bindings of dispatched rules are compared modulo array order. *)
Definition sort_children (j : json) : json :=
  fold_left (fun j k => match jget k j with
                        | Some c => JObj (ainsert k (jsort_arrays c) (jO j))
                        | None => j
                        end) ["children"; "execs"; "values"] j.

Definition same_res (m obs : json) : bool :=
  json_eqb (sort_children m) (sort_children (canon_obs obs)).

Definition feat_of_op (o : json) (m : json) : string :=
  String.append (jfS "op" o) (if jfB "ok" m then "+" else String.append "-" (jfS "class" m)).

(** An injected storage failure that fires inside an operation which removes
    SEVERAL items from the storage (the purge of several expired items by one
    search, a fan of dependents) leaves a state that depends on Go's map order
    (which of them were removed before the failure).  The model cannot know:
    the rest of such a history is not judged. *)
Definition sys_nofail (sy : system) : system :=
  map (fun kv => (fst kv, upd_state (snd kv) (set_fail (l_state (snd kv)) None))) sy.

Definition removed_ids (sy0 sy1 : system) : list string :=
  flat_map (fun kv => match sys_get sy1 (fst kv) with
                      | Some l1 => filter (fun id => match alookup id (st_store (l_state l1)) with None => true | Some _ => false end)
                                          (map fst (st_store (l_state (snd kv))))
                      | None => []
                      end) sy0.

Definition step_acc (a : acc) (o : json) : acc :=
  match a_diff a with
  | Some _ => a
  | None =>
      if a_lost a then a else
      let obs := jget_d "res" o in
      let t := jfZ "t" o in
      let t2 := jfZ "t2" o in
      let sy0 := sys_clear_amb (a_sys a) in
      if jfB "fired" obs && (2 <=? length (removed_ids sy0 (fst (run_op (sys_nofail sy0) o t))))%nat
      then mkAcc (a_reg a) (a_sys a) (a_k a) None (a_spec a) (a_kf a) ("lost-track-after-fault" :: a_feats a) (a_amb a + 1) true
      else
      let try now :=
        let '(sy', m) := run_op sy0 o now in
        (* a forest with BOTH a duplicate rule id and an ancestor loop: the code checks for duplicates
           while it walks (and reports whichever it meets first), the model after the walk *)
        let loop_or_dup x := String.eqb (jfS "class" x) E_loop || String.eqb (jfS "class" x) E_dup in
        (* an add that the add hook rejects after the indexed state has indexed the new rule is undone, and
           the undo leaves empty nodes in the real pattern index; the model returns the state unchanged.  The
           difference is visible to one kind of operation only: whether an UNSORTABLE event (finding D7) is
           refused depends on which keys the trie has nodes for.  With hooks installed such an event is not
           compared when model and code disagree on refusing it. *)
        let d7_residue := (String.eqb (jfS "op" o) "event" || String.eqb (jfS "op" o) "process") &&
                          event_risky (jnorm (jget_d "event" o)) &&
                          existsb (fun kv => st_hooks (l_state (snd kv))) sy0 &&
                          negb (Bool.eqb (jfB "ok" m) (jfB "ok" obs)) in
        let amb := d7_residue || sys_amb sy' || op_risky sy0 o || jfB "amb" m ||
                   ((String.eqb (jfS "op" o) "event" || String.eqb (jfS "op" o) "process") &&
                    loop_or_dup m && loop_or_dup obs && negb (String.eqb (jfS "class" m) (jfS "class" obs))) in
        let calls_ok := match jget "cron" o with
                        | Some (JArr oc) => String.eqb (jfS "op" o) "process" || same_calls (model_calls sy0 sy' o m now) oc
                        | _ => true
                        end in
        if (same_res m obs && calls_ok) || amb then Some (sy', m, amb) else None in
      let r := match try t with
               | Some x => Some x
               | None => if t2 =? t then None else try t2
               end in
      (* the specification judges of one operation, given the model's state before (sy0) and after (sy')
         it, the model's result m and whether the step is ambiguous *)
      let judge (sy' : system) (m : json) (amb : bool) : bool * list string :=
            (* C13: the process died (panic, stack overflow) or hung on this operation.  Never excused by
               ambiguity; D54 = the matcher's unbounded recursion on non-ground data (D12) reached through
               the public API (the pattern meets stored data with "?"-strings under a repeated variable) *)
            if String.eqb (jfS "class" obs) "crash" || String.eqb (jfS "class" obs) "hang" ||
               String.eqb (jfS "class" obs) "panic"
            then (true, if op_risky sy0 o then ["D54"] else [])
            else
            (* C07, judged on the observation alone: a write of an already-expired item was accepted
               (expired at the instant before AND at the instant after the call) ... *)
            if (String.eqb (jfS "op" o) "addfact" || String.eqb (jfS "op" o) "addrule") && jfB "ok" obs &&
               String.eqb (jfS "class" (snd (run_op sy0 o t))) E_expired &&
               String.eqb (jfS "class" (snd (run_op sy0 o t2))) E_expired
            then (true, [])
            else
            (* ... or a read returned an item whose own expiry instant had passed when the call began *)
            if ((String.eqb (jfS "op" o) "getfact" || String.eqb (jfS "op" o) "getrule") && jfB "ok" obs &&
                fact_expired (jget_d "val" obs) t) ||
               (String.eqb (jfS "op" o) "search" && jfB "ok" obs &&
                existsb (fun r => fact_expired (jget_d "fact" r) t) (jfL "found" obs))
            then (true, [])
            else
            if match jget "ttl_mismatch" obs with Some _ => true | None => false end
            then (true, (filter (fun k => String.eqb k "D7") (kf_of sy0 o) ++
                         (* D10 (sheens matcher, dependency): a variable that occurs twice and lands on an
                            array or map is re-matched in Go's map order - the three Systems may then answer
                            one search differently for a reason outside the cache *)
                         (if String.eqb (jfS "op" o) "search" &&
                             (let vs := pvars (jnorm (jget_d "pattern" o)) in
                              existsb (fun v => (2 <=? count_str v vs)%nat) vs)
                          then ["D10"] else []))%list)
                 (* C17: the three cache TTLs gave different answers to the same request (D7: whether the index
                    refuses an unsortable event depends on which keys its trie still has nodes for) *)
            else if match jget "ttl_mismatch_d42" obs with Some _ => true | None => false end
            then (true, ["D42"])
            else if loc_disabled sy0 (jfS "loc" o) t && negb amb && is_api_op (jfS "op" o)
            then (jfB "ok" obs, [])
                 (* C10: in a disabled location every operation reports an error *)
            else if (String.eqb (jfS "op" o) "remfact" || String.eqb (jfS "op" o) "remrule") && negb amb && jfB "ok" m
            then judge_removal sy0 sy' o t
            else if String.eqb (jfS "op" o) "reload" && negb amb && jfB "ok" m
            then judge_reload sy0 sy' o t
            else if jfB "fired" obs && jfB "ok" obs && is_mutating_op (jfS "op" o) && negb amb &&
                    negb (existsb (fun kv => any_expired (l_state (snd kv)) t) sy0)
            then (true, [])   (* the storage reported a failure and the operation reported success *)
            else if is_read_op (jfS "op" o) && negb amb then
              let spec_res (sy : system) now :=
                if String.eqb (jfS "op" o) "query" then spec_query sy o now
                else if String.eqb (jfS "op" o) "process" then spec_process sy o now
                else snd (run_op (as_linear sy) o now) in
              let agrees (sy : system) :=
                if jfB "amb" (spec_res sy t) || same_res (spec_res sy t) obs then true
                else same_res (spec_res sy t2) obs in
              (* The reference is the index-free (linear) reading of the same state.  When a read meets
                 an expired item whose purge hits the injected storage failure, LinearState.search /
                 doFindRules return the storage's error and IndexedState.search / doFindRules log it and
                 count the item as expired: the specification accepts both, i.e. the answer of the
                 reference over the same faulty storage (the failure is reported) or over a storage that
                 works (the item is expired either way).  The second reading also covers a reference that
                 purges more items than the indexed state's candidates, and so meets a failure that the
                 observed operation did not. *)
              if agrees sy0 then (false, [])
              else if agrees (sys_nofail sy0) then (false, []) else (true, kf_of sy0 o)
            else (false, []) in
      (* C15: the registry kept by the cron service holds exactly the stored scheduled rules.  The registry
         is kept from the OBSERVED calls; (bad?, registry after the operation).  (Finding D28 is repaired:
         every path is judged, expiry included, and a registry that differs from the stored scheduled
         rules is a plain failure of the specification.) *)
      let cron_judge (sy' : system) (amb : bool) : bool * registry :=
          let name := jfS "loc" o in
          let reg0 := match alookup name (a_reg a) with Some r => r | None => [] end in
          let reg0' := if String.eqb (jfS "op" o) "reload" && negb (jfB "persistent" o) then [] else reg0 in
          let reg1 := match jget "cron" o with
                      | Some (JArr oc) => fold_left apply_call (map call_of_json oc) reg0'
                      | _ => reg0'
                      end in
          match jget "cron" o, sys_get sy0 name, sys_get sy' name with
          | Some _, Some l0, Some l1 =>
              if amb || negb (registry_exact reg0 (l_state l0)) then (false, reg1)
              else if registry_exact reg1 (l_state l1) then (false, reg1)
              else (true, reg1)
          | _, _, _ => (false, reg1)
          end in
      match r with
      | None =>
          (* model and implementation differ here: the observation is still judged against the
             specification, from the model's state before the operation *)
          let '(sy', m) := run_op sy0 o t in
          let '(spec_bad, kfs) := judge sy' m false in
          (* C15: when the answers agree (the difference is in the calls to the cron service) the model's
             state after the operation is the state, and the registry is judged against it *)
          let cron_bad := same_res m obs && fst (cron_judge sy' false) in
          let unexplained := (spec_bad && match kfs with [] => true | _ => false end) || cron_bad in
          mkAcc (a_reg a) (a_sys a) (a_k a) (Some (a_k a, jfS "op" o, m))
                (match a_spec a with
                 | Some x => Some x
                 | None => if unexplained then Some (a_k a, jfS "op" o) else None
                 end)
                (if spec_bad then (kfs ++ a_kf a)%list else a_kf a) (a_feats a) (a_amb a) false
      | Some (sy', m, amb) =>
          let '(spec_bad, kfs) := judge sy' m amb in
          let name := jfS "loc" o in
          let '(cron_bad, reg1) := cron_judge sy' amb in
          let unexplained := (spec_bad && match kfs with [] => true | _ => false end) || cron_bad in
          let kfs := if spec_bad then kfs else [] in
          let spec_bad := spec_bad || cron_bad in
          (* after a divergence the registry is re-synchronised so that later operations are judged *)
          let reg1 := if cron_bad then match sys_get sy' name with
                                       | Some l1 => scheduled_rules (l_state l1)
                                       | None => reg1
                                       end else reg1 in
          mkAcc (ainsert name reg1 (a_reg a)) sy' (a_k a + 1) None
                (match a_spec a with
                 | Some x => Some x
                 | None => if unexplained then Some (a_k a, jfS "op" o) else None
                 end)
                (if spec_bad then (kfs ++ a_kf a)%list else a_kf a)
                (feat_of_op o m :: a_feats a)
                (if amb then a_amb a + 1 else a_amb a) false
      end
  end.

Definition init_system (locs : list json) : system :=
  fold_left (fun sy l =>
               ainsert (jfS "name" l)
                       (mkLoc (set_fail (empty_state (if String.eqb (jfS "kind" l) "linear" then Linear else Indexed)
                                                     (jfB "hooks" l))
                                        (match jget "fail" l with Some (JNum z) => Some (Z.to_nat z) | _ => None end))
                              false (match jget "max" l with Some (JNum z) => z | _ => 1000 end)) sy)
            locs [].

Definition check_loc (c : json) : json :=
  let sy := init_system (jfL "locs" c) in
  let a := fold_left step_acc (jfL "ops" c) (mkAcc [] sy 0 None None [] [] 0 false) in
  let ghost_bad := match jget "ghost_ok" c with Some (JBool false) => true | _ => false end ||
                   (0 <? jfZ "ghost_stress_acks" c) in   (* overlapping requests to a never-created location *)
  let multi_load := (1 <? jfZ "stress_loads" c) ||
                    (1 <? jfZ "stress_loads_never" c) in  (* TTL never: overlapping requests share the pending instance *)
  let a := if ghost_bad || multi_load then
             mkAcc (a_reg a) (a_sys a) (a_k a) (a_diff a)
                   (match a_spec a with
                    | Some x => Some x
                    | None => Some (a_k a, if ghost_bad then "existence-check" else "single-load")
                    end)
                   (a_kf a) (a_feats a) (a_amb a) (a_lost a)
           else a in
  let kf := dedup_str (a_kf a) in
  JObj [("ok", JBool (match a_diff a with None => true | Some _ => false end));
        ("at", match a_diff a with Some (k, _, _) => JNum k | None => JNull end);
        ("why", JStr (match a_diff a with Some (_, w, _) => String.append "model and implementation differ at op " w | None => "" end));
        ("model", match a_diff a with Some (_, _, m) => m | None => JNull end);
        ("spec_ok", JBool (match a_spec a, kf with None, [] => true | _, _ => false end));
        ("spec_why", JStr (match a_spec a with
                           | Some (_, w) => String.append "observed behaviour fails the specification (index-free search, denotational query semantics, deleteWith closure, reload equivalence, failure reporting, cron registry = stored scheduled rules) at op " w
                           | None => match kf with [] => "" | _ => "known finding" end
                           end));
        ("spec_at", match a_spec a with Some (k, _) => JNum k | None => JNull end);
        ("spec_op", match a_spec a with Some (_, w) => JStr w | None => JNull end);
        ("kf", jstrs_of (match a_spec a with Some _ => [] | None => kf end));
        ("features", jstrs_of (dedup_str (a_feats a)));
        ("nontrivial", JBool (3 <=? Z.of_nat (length (dedup_str (a_feats a)))));
        ("ambiguous", JNum (a_amb a))].
