(** Correspondence / specification checker for concurrent histories (C11,
    C12): K clients issue Location operations concurrently; every operation
    carries its invocation and response instants.  The observed history is
    LINEARIZABLE w.r.t. the sequential location model if some total order of
    the operations that respects real time (an operation that returned before
    another was invoked comes first) and each client's program order makes the
    sequential model return exactly the observed results, and ends in a state
    that explains the final observations - both through the live location and
    through a location rebuilt from storage (memory and storage agree with
    that order).  The search is a depth-first search over the extracted model
    with a node budget.  Definitions only. *)
From Verif Require Import Json Outcome Match PatIndex State Location SysOps CorrLoc.

Definition op_inv (o : json) : Z := jfZ "inv" o.
Definition op_ret (o : json) : Z := jfZ "ret" o.

(** replay a list of observations sequentially; all must agree *)
Fixpoint replay_all (sy : system) (ops : list json) : option system :=
  match ops with
  | [] => Some sy
  | o :: r =>
      let '(sy', m) := run_op sy o (jfZ "t" o) in
      if same_res m (jget_d "res" o) then replay_all sy' r else None
  end.

Definition reload_all (sy : system) (now : Z) : system :=
  map (fun kv => (fst kv, fst (loc_reload (snd kv) now))) sy.

(** the final observations: live, then after rebuilding every location from its storage *)
Definition finals_ok (final final_store : list json) (sy : system) : bool :=
  match replay_all sy final with
  | None => false
  | Some sy1 =>
      let now := match final_store with o :: _ => jfZ "t" o | [] => 0 end in
      match replay_all (reload_all sy1 now) final_store with
      | Some _ => true
      | None => false
      end
  end.

(** the head of client [i] may be linearized next iff no other client's head
    returned before it was invoked *)
Definition head_enabled (clients : list (list json)) (i : nat) (o : json) : bool :=
  forallb (fun jc => let '(j, c) := jc in
                     Nat.eqb j i || match c with
                                    | [] => true
                                    | o' :: _ => negb (op_ret o' <? op_inv o)
                                    end)
          (List.combine (seq 0 (length clients)) clients).

Definition advance (clients : list (list json)) (i : nat) : list (list json) :=
  map (fun jc => let '(j, c) := jc in if Nat.eqb j i then tl c else c)
      (List.combine (seq 0 (length clients)) clients).

Definition all_empty (clients : list (list json)) : bool :=
  forallb (fun c => match c with [] => true | _ => false end) clients.

(** result: remaining budget, and Some true = linearization found, Some false =
    none exists below this node, None = budget exhausted *)
Fixpoint lin (depth : nat) (finals : system -> bool) (sy : system) (clients : list (list json)) (budget : nat)
  : nat * option bool :=
  match depth with
  | O => (budget, Some false)
  | S d =>
      if all_empty clients then (budget, Some (finals sy)) else
      (fix try (idx : list nat) (budget : nat) : nat * option bool :=
         match idx with
         | [] => (budget, Some false)
         | i :: rest =>
             match budget with
             | O => (O, None)
             | S b =>
                 match nth i clients [] with
                 | [] => try rest budget
                 | o :: _ =>
                     if negb (head_enabled clients i o) then try rest budget else
                     let '(sy', m) := run_op sy o (jfZ "t" o) in
                     if same_res m (jget_d "res" o) then
                       match lin d finals sy' (advance clients i) b with
                       | (b', Some true) => (b', Some true)
                       | (b', None) => (b', None)
                       | (b', Some false) => try rest b'
                       end
                     else try rest b
                 end
             end
         end) (seq 0 (length clients)) budget
  end.

Definition total_ops (clients : list (list json)) : nat := fold_left (fun n c => (n + length c)%nat) clients O.

(** Known-finding predicates on a history *)
Definition is_write_op (o : json) : bool :=
  let op := jfS "op" o in
  String.eqb op "addfact" || String.eqb op "addrule" || String.eqb op "remfact" || String.eqb op "remrule".

Definition overlap (a b : json) : bool := negb (op_ret a <? op_inv b) && negb (op_ret b <? op_inv a).

Definition cross_pairs (clients : list (list json)) : list (json * json) :=
  flat_map (fun ic => let '(i, c) := ic in
              flat_map (fun jc => let '(j, c') := jc in
                          if (i <? j)%nat then flat_map (fun a => map (fun b => (a, b)) c') c else [])
                       (List.combine (seq 0 (length clients)) clients))
           (List.combine (seq 0 (length clients)) clients).

(** (was D44, repaired) two overlapping writes to one id from different clients: the memory update
    and the storage write of a write used to be two critical sections (or one and an unlocked call),
    so that the two writes could reach memory in one order and storage in the other.  Now they are
    one critical section under the state's write lock: such histories are linearizable, the
    predicate explains nothing any more and only the feature is kept. *)
Definition kf_same_id_writes (clients : list (list json)) : bool :=
  existsb (fun ab => let '(a, b) := ab in
                     is_write_op a && is_write_op b && String.eqb (jfS "id" a) (jfS "id" b) &&
                     String.eqb (jfS "loc" a) (jfS "loc" b) && overlap a b) (cross_pairs clients).

(** (was D46, fixed) an event overlapping with a rule write (the rule cache is read and written without the state lock) *)
Definition kf_event_vs_rule_write (clients : list (list json)) : bool :=
  existsb (fun ab => let '(a, b) := ab in
                     let ev x := String.eqb (jfS "op" x) "event" in
                     let rw x := String.eqb (jfS "op" x) "addrule" || String.eqb (jfS "op" x) "remrule" ||
                                 (is_write_op x && has_prefix "r" (jfS "id" x)) in
                     ((ev a && (rw b || ev b)) || (ev b && rw a)) && overlap a b) (cross_pairs clients).

(** (was D52, repaired) an item written by the set-up phase has expired when the clients run: the
    first reads of several clients used to purge it concurrently (Get without the lock,
    Search/FindRules under the read lock).  Now the readers only note the id and purge it under the
    write lock: such histories are linearizable, the predicate explains nothing any more and only
    the feature is kept. *)
Definition expired_at_release (setup : list json) (clients : list (list json)) : bool :=
  (1 <? length clients)%nat &&
  existsb (fun o => let e := Z.max (fact_expires (jget_d "fact" o)) (fact_expires (jget_d "rule" o)) in
                    (0 <? e) && existsb (fun cl => existsb (fun x => e <=? jfZ "t" x) cl) clients) setup.

Definition check_conc (c : json) : json :=
  let sy0 := init_system (jfL "locs" c) in
  let clients := map jL (jfL "clients" c) in
  let crashed := jfS "crashed" c in
  (* D44 (memory and storage written in two critical sections), D46 (rule cache) and D52 (purge by
     the readers) are repaired: their predicates explain nothing any more, only the features are
     kept; a history that is not linearizable is explained by no known finding *)
  let feats := ((if kf_same_id_writes clients then ["overlapping-writes-same-id"] else []) ++
                (if kf_event_vs_rule_write clients then ["event-overlaps-rule-write"] else []) ++
                (if expired_at_release (jfL "setup" c) clients then ["expired-at-release"] else []) ++
                (if existsb (fun ab => overlap (fst ab) (snd ab)) (cross_pairs clients) then ["overlap"] else ["no-overlap"]))%list in
  if negb (String.eqb crashed "") then
    JObj [("ok", JBool false); ("at", JNull);
          ("why", JStr (String.append "the process did not survive the concurrent history: " crashed));
          ("model", JNull); ("spec_ok", JBool false);
          ("spec_why", JStr (String.append "crash or deadlock under concurrent requests: " crashed));
          ("spec_op", JStr "no-crash");
          (* (a crash under concurrent requests is explained by no known finding since the repair of D52) *)
          ("kf", JArr []);
          ("features", jstrs_of ("crashed" :: feats)); ("nontrivial", JBool true); ("ambiguous", JNum 0)]
  else
  match replay_all sy0 (jfL "setup" c) with
  | None =>
      JObj [("ok", JBool false); ("at", JNull); ("why", JStr "the sequential set-up phase differs from the model");
            ("model", JNull); ("spec_ok", JBool true); ("spec_why", JStr ""); ("spec_op", JStr "setup");
            ("kf", JArr []); ("features", jstrs_of feats); ("nontrivial", JBool false); ("ambiguous", JNum 0)]
  | Some sy1 =>
      let n := total_ops clients in
      let '(_, r) := lin (S n) (finals_ok (jfL "final" c) (jfL "final_store" c)) sy1 clients (Z.to_nat 20000) in
      let found := match r with Some true => true | _ => false end in
      let exhausted := match r with None => true | _ => false end in
      let good := found || exhausted in
      JObj [("ok", JBool good); ("at", JNull);
            ("why", JStr (if good then "" else "no linearization of the observed history is explained by the sequential model"));
            ("model", JNull);
            ("spec_ok", JBool good);
            ("spec_why", JStr (if good then "" else "the observed results and final memory/storage are not explained by any real-time-respecting sequential order"));
            ("spec_op", JStr "linearizable");
            ("kf", JArr []);
            ("features", jstrs_of ((if found then "linearizable" else if exhausted then "search-budget-exhausted" else "not-linearizable") :: feats));
            ("nontrivial", JBool (existsb (fun ab => overlap (fst ab) (snd ab)) (cross_pairs clients)));
            ("ambiguous", JNum (if exhausted then 1 else 0))]
  end.
