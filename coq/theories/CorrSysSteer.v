(** Checker for the sys-steer domain (C17, C11): a request to a cold location of
    one sys.System is held at its k-th log record while another client sends
    requests to the same location.  The history must be linearizable w.r.t. the
    sequential location model ([CorrConc.check_conc]), and with a TTL of
    "forever" the location must have been loaded exactly once, whatever the
    schedule (the clause proved for all schedules of the cache model in
    [CacheProofs.single_load_with_reuse]).  With a finite TTL ("short") the
    entry's time is up while the held request still uses the instance: the
    cache counts its users, so the instance is not replaced
    ([CacheProofs.in_use_instance_never_replaced]) and the history must be
    linearizable all the same. *)
From Verif Require Import Json Outcome CorrConc.

Definition check_syssteer (c : json) : json :=
  let v := check_conc c in
  let forever := String.eqb (jfS "ttl" c) "forever" in
  let crashed := negb (String.eqb (jfS "crashed" c) "") in
  let multi := forever && negb crashed && (1 <? jfZ "loads" c) in
  if multi then
    JObj [("ok", JBool false); ("at", JNull);
          ("why", JStr "the location was loaded more than once although cached locations never expire");
          ("model", JNull); ("spec_ok", JBool false);
          ("spec_why", JStr "concurrent first requests loaded the location more than once (TTL forever)");
          ("spec_op", JStr "single-load"); ("kf", JArr []);
          ("features", jstrs_of ["multi-load"]); ("nontrivial", JBool true); ("ambiguous", JNum 0)]
  else
    (* D60 (the cache's Pending flag was a boolean: with a finite TTL the release of one of two
       overlapping requests let the entry expire while the other still used the instance) is repaired:
       a history that is not linearizable is a plain specification failure, whatever the TTL
       ([CacheProofs.in_use_instance_never_replaced], all schedules of the cache model) *)
    v.
