(** Checker for the sys-steer domain (C17, C11): a request to a cold location of
    one sys.System is held at its k-th log record while another client sends
    requests to the same location.  The history must be linearizable w.r.t. the
    sequential location model ([CorrConc.check_conc]), and with a TTL of
    "forever" the location must have been loaded exactly once, whatever the
    schedule (the clause proved for all schedules of the cache model in
    [CacheProofs.single_load_with_reuse]). *)
From Verif Require Import Json Outcome CorrConc.

Definition check_syssteer (c : json) : json :=
  let v := check_conc c in
  let forever := String.eqb (jfS "ttl" c) "forever" in
  let crashed := negb (String.eqb (jfS "crashed" c) "") in
  let multi := forever && negb crashed && (1 <? jfZ "loads" c) in
  if multi then
    JObj [("ok", JBool false); ("at", JNull);
          ("why", JStr "the location was loaded more than once although cached locations never expire");
          ("model", JNull); ("spec_ok", JBool false);
          ("spec_why", JStr "concurrent first requests loaded the location more than once (TTL forever)");
          ("spec_op", JStr "single-load"); ("kf", JArr []);
          ("features", jstrs_of ["multi-load"]); ("nontrivial", JBool true); ("ambiguous", JNum 0)]
  else if negb (jfB "ok" v) && negb crashed && String.eqb (jfS "ttl" c) "short" then
    (* D60: with a finite TTL the cache's Pending flag is a boolean, not a count: the release of one of
       two overlapping requests lets the entry expire while the other still uses the instance *)
    JObj (("kf", jstrs_of ["D60"]) :: filter (fun kv => negb (String.eqb (fst kv) "kf")) (jO v))
  else v.
