(** Correspondence checker for the breaker domain: replays an observed
    history of the real OutboundBreaker through the model, step by step.
    Extracted and run by the OCaml runner; also runnable with vm_compute. *)
From Verif Require Import Json Breaker.

Definition opt_Z_eqb (a b : option Z) : bool :=
  match a, b with
  | None, None => true
  | Some x, Some y => Z.eqb x y
  | _, _ => false
  end.

Definition dec_updated (j : json) : option Z :=
  match j with JNum z => Some z | _ => None end.

Fixpoint zrange (from : Z) (n : nat) : list Z :=
  match n with O => [] | S n' => from :: zrange (from + 1) n' end.

(** Candidate values for the instant the code read inside the mutex, given
    the clock bracket [tb, ta] around the call and the post-state's
    [updated]. *)
Definition candidates (b : breaker) (tb ta : Z) (post_upd : option Z) : list Z * bool :=
  let c1 := match post_upd with
            | Some u => if (tb <=? u) && (u <=? ta) then [u] else []
            | None => []
            end in
  match b_updated b with
  | None => (c1 ++ [tb], false)%list
  | Some u =>
      let r := resolution b in
      if r <=? 0 then ((c1 ++ [tb])%list, false) else
      let kmin := Z.quot (tb - u) r in
      let kmax := Z.quot (ta - u) r in
      let n := kmax - kmin + 1 in
      if 64 <? n then (c1, true)
      else ((c1 ++ map (fun k => Z.max tb (u + k * r)) (zrange kmin (Z.to_nat n)))%list, false)
  end.

Definition state_matches (b : breaker) (o : json) : bool :=
  list_eqb Z.eqb (b_counts b) (map jZ (jfL "counts" o)) &&
  opt_Z_eqb (b_updated b) (dec_updated (jget_d "updated" o)).

Definition observed_state (b : breaker) (o : json) : breaker :=
  mkBreaker (b_limit b) (b_interval b) (map jZ (jfL "counts" o)) (dec_updated (jget_d "updated" o)).

Inductive step_res :=
| StepOk (b : breaker) (feat : string)
| StepAmbiguous (b : breaker)
| StepDiffer (why : string).

Definition first_match {A} (f : Z -> option A) : list Z -> option A :=
  fix go l := match l with [] => None | x :: r => match f x with Some a => Some a | None => go r end end.

Definition feat_of (b : breaker) (now : Z) (adm : bool) : string :=
  let t := raw_ticks b now in
  String.append (if adm then "admit" else "refuse")
   (if ticksZ <=? t then "/cleared" else if t =? 0 then "/noslide" else "/partial").

Definition check_step (b : breaker) (o : json) : step_res :=
  let op := jfS "op" o in
  let tb := jfZ "tb" o in
  let ta := jfZ "ta" o in
  let '(cands, amb) := candidates b tb ta (dec_updated (jget_d "updated" o)) in
  if String.eqb op "do" || String.eqb op "status" then
    let obs := jfB "result" o in
    let try now :=
      let '(b', r) := if String.eqb op "do" then b_do Fixed b now else b_status Fixed b now in
      if Bool.eqb r obs && state_matches b' o then Some (b', feat_of b now r) else None in
    match first_match try cands with
    | Some (b', f) => StepOk b' f
    | None => if amb then StepAmbiguous (observed_state b o)
              else StepDiffer ("no instant in the bracket explains the observed verdict/state for " ++ op)
    end
  else if String.eqb op "reset" then
    let try now := let b' := b_reset b now in if state_matches b' o then Some b' else None in
    match first_match try cands with
    | Some b' => StepOk b' "reset"
    | None => StepDiffer "reset: post-state differs"
    end
  else if String.eqb op "adjust" then
    match b_init (b_updated b) (jfZ "limit" o) (jfZ "interval" o) with
    | Some b' => if jfB "result" o && state_matches b' o then StepOk b' "adjust"
                 else StepDiffer "adjust: model accepts, post-state or verdict differs"
    | None => if negb (jfB "result" o) then StepOk b "adjust-rejected"
              else StepDiffer "adjust: model rejects, implementation accepted"
    end
  else StepDiffer ("unknown op " ++ op).

Fixpoint check_steps (b : breaker) (ops : list json) (k : Z) (feats : list string) (amb : Z)
  : (option (Z * string)) * list string * Z :=
  match ops with
  | [] => (None, feats, amb)
  | o :: r =>
      match check_step b o with
      | StepOk b' f => check_steps b' r (k + 1) (f :: feats) amb
      | StepAmbiguous b' => check_steps b' r (k + 1) feats (amb + 1)
      | StepDiffer why => (Some (k, why), feats, amb)
      end
  end.

(** One-sided spec checks on the implementation's own observations
    (sound whatever instant inside each bracket the code really used). *)
Definition obs_calls (ops : list json) : list (Z * Z * bool) :=
  map (fun o => (jfZ "tb" o, jfZ "ta" o, jfB "result" o))
      (filter (fun o => String.eqb (jfS "op" o) "do") ops).

Definition rate_bound_obs (limit w : Z) (calls : list (Z * Z * bool)) : bool :=
  let adm := filter (fun c => snd c) calls in
  forallb (fun cj =>
             let T := snd (fst cj) in
             Z.of_nat (length (filter (fun ci => (T - w <? fst (fst ci)) && (snd (fst ci) <=? T)) adm))
             <=? limit) adm.

Fixpoint recovers_obs_aux (w : Z) (last : option Z) (calls : list (Z * Z * bool)) : bool :=
  match calls with
  | [] => true
  | (tb, ta, adm) :: r =>
      let must := match last with None => true | Some t0 => t0 + w <=? tb end in
      (if must then adm else true) && recovers_obs_aux w (if adm then Some ta else last) r
  end.

Definition pure_case (ops : list json) : bool :=
  forallb (fun o => String.eqb (jfS "op" o) "do" || String.eqb (jfS "op" o) "status") ops.

Definition jstrs := jstrs_of.

Definition check_breaker (c : json) : json :=
  let limit := jfZ "limit" c in
  let interval := jfZ "interval" c in
  let ops := jfL "ops" c in
  match b_new limit interval with
  | None =>
      JObj [("ok", JBool (negb (jfB "created" c))); ("why", JStr "constructor verdict");
            ("spec_ok", JBool true); ("features", jstrs ["bad-limit"]); ("ambiguous", JNum 0)]
  | Some b0 =>
      if negb (jfB "created" c) then
        JObj [("ok", JBool false); ("why", JStr "model accepts constructor arguments, implementation refused");
              ("spec_ok", JBool true); ("features", jstrs []); ("ambiguous", JNum 0)]
      else
      let conc := jfB "concurrent" c in
      let '(res, feats, amb) :=
        if conc then (None, ["concurrent"], 0) else check_steps b0 ops 0 [] 0 in
      let w := ticksZ * resolution b0 in
      let calls := obs_calls ops in
      let pure := pure_case ops in
      let rate_ok := if pure then rate_bound_obs limit w calls else true in
      let live_ok := if pure && negb conc then recovers_obs_aux w None calls else true in
      JObj [("ok", JBool (match res with None => true | Some _ => false end));
            ("at", match res with Some (k, _) => JNum k | None => JNull end);
            ("why", match res with Some (_, why) => JStr why | None => JStr "" end);
            ("spec_ok", JBool (rate_ok && live_ok));
            ("spec_why", JStr (if negb rate_ok then "rate bound exceeded: more than limit admissions whose brackets fit in one window"
                               else if negb live_ok then "call not admitted although the last admission is older than the window"
                               else ""));
            ("features", jstrs (dedup_str feats));
            ("ambiguous", JNum amb)]
  end.
