(** Model of core/location.go: gates (enabled, read/write keys, read-only,
    capacity), property facts, rule lifecycle, parents and inheritance, and
    the FindRules step of event processing, over several named locations.
    As in /repo after fix: D16/D15 (ancestor walk with visiting/done sets)
    and D20 (SetParents checks the write gate).  Definitions only. *)
From Verif Require Import Json Outcome Match PatIndex State.

Record loc := mkLoc {
  l_state : state;
  l_readonly : bool;
  l_max : Z;                (* Control.MaxFacts *)
}.

Definition system := list (string * loc).

Record ctx := mkCtx { c_rk : string; c_wk : string }.

(** Per-call environment taken from the trace. *)
Record env := mkEnv { e_now : Z; e_fresh : string; e_aux : option Z }.

Definition upd_state (l : loc) (s : state) : loc := mkLoc s (l_readonly l) (l_max l).

(** Error classes compared with the implementation. *)
Definition E_disabled := "disabled".
Definition E_denied := "denied".
Definition E_capacity := "capacity".
Definition E_notfound := "notfound".
Definition E_expired := "expired".
Definition E_loop := "loop".
Definition E_dup := "dup".
Definition E_noloc := "noloc".

Definition lift {A B} (l : loc) (r : state * outcome A) (f : A -> B) : loc * outcome B :=
  (upd_state l (fst r), omap f (snd r)).

(** getPropFromFact via State.Get on the property fact's id. *)
Definition get_prop (l : loc) (id prop : string) (now : Z) : loc * option json :=
  let pid := String.append "!" (String.append id (String.append "." prop)) in
  match st_get (l_state l) pid now with
  | (s, Ok fact) => (upd_state l s, jget (String.append "!" prop) fact)
  | (s, _) => (upd_state l s, None)
  end.

Definition get_prop_string (l : loc) (prop : string) (now : Z) : loc * string :=
  match get_prop l "" prop now with
  | (l', Some (JStr s)) => (l', s)
  | (l', _) => (l', "")
  end.

Definition enabled (l : loc) (now : Z) : loc * bool :=
  let '(l', e) := get_prop_string l "enabled" now in
  (l', String.eqb e "" || String.eqb e "yes" || String.eqb e "true").

Definition check_write (l : loc) (c : ctx) (now : Z) : loc * bool :=
  if l_readonly l then (l, false) else
  let '(l', k) := get_prop_string l "writeKey" now in
  (l', String.eqb k "" || String.eqb (c_wk c) k).

Definition check_read (l : loc) (c : ctx) (now : Z) : loc * bool :=
  let '(l', k) := get_prop_string l "readKey" now in
  (l', String.eqb k "" || String.eqb (c_rk c) k).

Definition at_capacity (l : loc) : bool :=
  l_max l <=? Z.of_nat (length (st_facts (l_state l))).

(** Gates in the order the code applies them. *)
Inductive gate := GEnabled | GWrite | GRead | GCapacity.

Fixpoint run_gates (gs : list gate) (l : loc) (c : ctx) (now : Z) : loc * option string :=
  match gs with
  | [] => (l, None)
  | g :: r =>
      let '(l', pass, e) :=
        match g with
        | GEnabled => let '(l', b) := enabled l now in (l', b, E_disabled)
        | GWrite => let '(l', b) := check_write l c now in (l', b, E_denied)
        | GRead => let '(l', b) := check_read l c now in (l', b, E_denied)
        | GCapacity => (l, negb (at_capacity l), E_capacity)
        end in
      if pass then run_gates r l' c now else (l', Some e)
  end.

(** The gate sequence of each public operation, in the order the code
    applies them (tied to the source by gen/GateTable.v, see proofs/GateProofs.v). *)
Definition gates_of (method : string) : list gate :=
  if String.eqb method "AddFact" then [GWrite; GCapacity; GEnabled]
  else if String.eqb method "AddRule" then [GEnabled; GWrite; GCapacity]
  else if String.eqb method "RemFact" then [GEnabled; GWrite]
  else if String.eqb method "RemRule" then [GEnabled; GWrite]
  else if String.eqb method "GetFact" then [GEnabled; GRead]
  else if String.eqb method "GetRule" then [GEnabled; GRead]
  else if String.eqb method "EnableRule" then [GEnabled; GWrite]
  else if String.eqb method "Clear" then [GEnabled; GWrite]
  else if String.eqb method "SetParents" then [GEnabled; GWrite]
  else if String.eqb method "GetParents" then [GEnabled; GRead]
  else if String.eqb method "StateSize" then [GEnabled; GRead]
  else if String.eqb method "searchFacts" then [GEnabled; GRead]
  else if String.eqb method "searchRules" then [GEnabled; GRead]
  else [].

Definition gated {A} (gs : list gate) (l : loc) (c : ctx) (now : Z)
           (k : loc -> loc * outcome A) : loc * outcome A :=
  match run_gates gs l c now with
  | (l', None) => k l'
  | (l', Some e) => (l', Err e)
  end.

(** AddFact: CheckWrite, AtCapacity, then (in addFact) Enabled. *)
Definition loc_add_fact (l : loc) (c : ctx) (e : env) (id : string) (fact : json) : loc * outcome string :=
  gated (gates_of "AddFact") l c (e_now e) (fun l' =>
    lift l' (st_add (l_state l') id fact (e_now e) (e_fresh e) (e_aux e)) (fun x => x)).

(** AddRule *)
Definition loc_add_rule (l : loc) (c : ctx) (e : env) (id : string) (rule : json) : loc * outcome string :=
  gated (gates_of "AddRule") l c (e_now e) (fun l' =>
    match rule_from_map rule with
    | Ok _ =>
        match set_expires (jO rule) (e_now e) (e_aux e) with
        | Ok (rm, expiring, E) =>
            let w0 := [("rule", JObj rm)] in
            let w1 := if expiring then ainsert "expires" (JNum E) w0 else w0 in
            let w2 := match alookup "deleteWith" rm with
                      | Some dw => ainsert "deleteWith" dw w1
                      | None => w1
                      end in
            lift l' (st_add (l_state l') id (JObj w2) (e_now e) (e_fresh e) None) (fun x => x)
        | Err x => (l', Err x)
        | Panic w => (l', Panic w)
        | OutOfFuel => (l', OutOfFuel)
        end
    | Err x => (l', Err x)
    | Panic w => (l', Panic w)
    | OutOfFuel => (l', OutOfFuel)
    end).

Definition loc_rem_fact (l : loc) (c : ctx) (e : env) (id : string) : loc * outcome bool :=
  gated (gates_of "RemFact") l c (e_now e) (fun l' =>
    lift l' (st_Rem (l_state l') id (e_now e)) (fun x => x)).

Definition prop_id (id prop : string) : string :=
  String.append "!" (String.append id (String.append "." prop)).

Definition loc_rem_rule (l : loc) (c : ctx) (e : env) (id : string) : loc * outcome bool :=
  gated (gates_of "RemRule") l c (e_now e) (fun l' =>
    match st_Rem (l_state l') id (e_now e) with
    | (s, Ok b) =>
        let l1 := upd_state l' s in
        match get_prop l1 id "disabled" (e_now e) with
        | (l2, Some _) => lift l2 (st_Rem (l_state l2) (prop_id id "disabled") (e_now e)) (fun _ => b)
        | (l2, None) => (l2, Ok b)
        end
    | (s, o) => (upd_state l' s, o)
    end).

Definition loc_get_fact (l : loc) (c : ctx) (e : env) (id : string) : loc * outcome json :=
  gated (gates_of "GetFact") l c (e_now e) (fun l' =>
    lift l' (st_get (l_state l') id (e_now e)) (fun x => x)).

Definition loc_get_rule (l : loc) (c : ctx) (e : env) (id : string) : loc * outcome json :=
  gated (gates_of "GetRule") l c (e_now e) (fun l' =>
    match st_get (l_state l') id (e_now e) with
    | (s, Ok fact) =>
        (upd_state l' s,
         match extract_rule fact true with
         | Ok (Some r) => Ok r
         | Ok None => Err "Rule body missing"
         | Err x => Err x
         | Panic w => Panic w
         | OutOfFuel => OutOfFuel
         end)
    | (s, Err x) => (upd_state l' s, Err x)
    | (s, Panic w) => (upd_state l' s, Panic w)
    | (s, OutOfFuel) => (upd_state l' s, OutOfFuel)
    end).

Definition set_prop_fact (id prop : string) (val : json) : json :=
  jnorm (JObj [("id", JStr id); (String.append "!" prop, val); ("deleteWith", JArr [JStr id])]).

Definition loc_enable_rule (l : loc) (c : ctx) (e : env) (id : string) (enable : bool) : loc * outcome unit :=
  gated (gates_of "EnableRule") l c (e_now e) (fun l' =>
    if enable then lift l' (st_Rem (l_state l') (prop_id id "disabled") (e_now e)) (fun _ => tt)
    else lift l' (st_add (l_state l') "" (set_prop_fact id "disabled" (JBool true)) (e_now e) (e_fresh e) None)
              (fun _ => tt)).

Definition loc_clear (l : loc) (c : ctx) (e : env) : loc * outcome unit :=
  gated (gates_of "Clear") l c (e_now e) (fun l' => lift l' (st_clear (l_state l')) (fun x => x)).

Definition loc_set_parents (l : loc) (c : ctx) (e : env) (ps : list string) : loc * outcome string :=
  gated (gates_of "SetParents") l c (e_now e) (fun l' =>
    lift l' (st_add (l_state l') "" (set_prop_fact "" "parents" (JArr (map JStr ps))) (e_now e) (e_fresh e) None)
         (fun x => x)).

(** getParents *)
Definition get_parents (l : loc) (now : Z) : loc * outcome (list string) :=
  match get_prop l "" "parents" now with
  | (l', None) => (l', Ok [])
  | (l', Some (JArr xs)) =>
      (l', if forallb (fun x => match x with JStr _ => true | _ => false end) xs
           then Ok (map jS xs) else Err "didn't expect parent")
  | (l', Some _) => (l', Err "didn't expect parents")
  end.

Definition loc_get_parents (l : loc) (c : ctx) (e : env) : loc * outcome (list string) :=
  gated (gates_of "GetParents") l c (e_now e) (fun l' => get_parents l' (e_now e)).

Definition loc_size (l : loc) (c : ctx) (e : env) : loc * outcome Z :=
  gated (gates_of "StateSize") l c (e_now e) (fun l' => (l', Ok (Z.of_nat (length (st_facts (l_state l')))))).

(** searchFacts / searchRules on one location *)
Definition loc_search_local (l : loc) (c : ctx) (e : env) (pattern : json)
  : loc * outcome (list (string * list bindings)) :=
  gated (gates_of "searchFacts") l c (e_now e) (fun l' =>
    lift l' (st_search (l_state l') pattern (e_now e)) (fun x => x)).

Definition loc_rules_local (l : loc) (c : ctx) (e : env) (event : json)
  : loc * outcome (list (string * json)) :=
  gated (gates_of "searchRules") l c (e_now e) (fun l' =>
    lift l' (st_find_rules (l_state l') event (e_now e)) (fun x => x)).

(** ** Ancestors (DoAncestors with visiting and done sets) *)

Definition sys_get (sy : system) (name : string) : option loc := alookup name sy.
Definition sys_set (sy : system) (name : string) (l : loc) : system := ainsert name l sy.

Section Ancestors.
  Variable A : Type.
  (** what fn does at one location: may change it, yields a value or fails *)
  Variable visit : string -> loc -> loc * outcome A.

  (** returns the system, the done set, and the values in visiting order *)
  Fixpoint do_ancestors (fuel : nat) (sy : system) (name : string) (now : Z)
           (visiting done : list string) (acc : list (string * A))
    : system * list string * outcome (list (string * A)) :=
    match fuel with
    | O => (sy, done, OutOfFuel)
    | S f =>
        if mem_str name done then (sy, done, Ok acc)
        else if mem_str name visiting then (sy, done, Err E_loop)
        else
          match sys_get sy name with
          | None => (sy, done, Err E_notfound)
          | Some l =>
              match get_parents l now with
              | (l1, Ok parents) =>
                  let sy1 := sys_set sy name l1 in
                  let fix go (sy : system) (ps : list string) (done : list string) (acc : list (string * A))
                    : system * list string * outcome (list (string * A)) :=
                    match ps with
                    | [] => (sy, done, Ok acc)
                    | p :: r =>
                        if String.eqb p name then (sy, done, Err E_loop)
                        else match do_ancestors f sy p now (name :: visiting) done acc with
                             | (sy', done', Ok acc') => go sy' r done' acc'
                             | other => other
                             end
                    end in
                  match go sy1 parents done acc with
                  | (sy2, done2, Ok acc2) =>
                      match sys_get sy2 name with
                      | None => (sy2, done2, Err E_notfound)
                      | Some l2 =>
                          let '(l3, r) := visit name l2 in
                          let sy3 := sys_set sy2 name l3 in
                          match r with
                          | Ok a => (sy3, name :: done2, Ok (acc2 ++ [(name, a)])%list)
                          | Err x => (sy3, name :: done2, Err x)
                          | Panic w => (sy3, name :: done2, Panic w)
                          | OutOfFuel => (sy3, name :: done2, OutOfFuel)
                          end
                      end
                  | other => other
                  end
              | (l1, Err x) => (sys_set sy name l1, done, Err x)
              | (l1, Panic w) => (sys_set sy name l1, done, Panic w)
              | (l1, OutOfFuel) => (sys_set sy name l1, done, OutOfFuel)
              end
          end
    end.
End Ancestors.

Definition anc_fuel (sy : system) : nat := (length sy + 2)%nat.

(** SearchFacts *)
Definition sys_search (sy : system) (name : string) (c : ctx) (e : env) (pattern : json) (inherited : bool)
  : system * outcome (list (string * list (string * list bindings))) :=
  if inherited then
    let '(sy', _, r) :=
      do_ancestors _ (fun _ l => loc_search_local l c e pattern) (anc_fuel sy) sy name (e_now e) [] [] [] in
    (sy', r)
  else
    match sys_get sy name with
    | None => (sy, Err E_noloc)
    | Some l => let '(l', r) := loc_search_local l c e pattern in
                (sys_set sy name l', omap (fun x => [(name, x)]) r)
    end.

(** searchRulesAncestors: the candidate rules of the location and its
    ancestors; the same id found twice is an error. *)
Fixpoint merge_rules (groups : list (string * list (string * json))) (acc : list (string * json))
  : outcome (list (string * json)) :=
  match groups with
  | [] => Ok acc
  | (_, rules) :: r =>
      if existsb (fun kv => match alookup (fst kv) acc with Some _ => true | None => false end) rules
      then Err E_dup
      else merge_rules r (fold_left (fun a kv => ainsert (fst kv) (snd kv) a) rules acc)
  end.

(** RuleEnabled in the event's own location. *)
Definition rule_enabled (l : loc) (id : string) (now : Z) : loc * bool :=
  let '(l1, en) := enabled l now in
  if negb en then (l1, false) else
  match get_prop l1 id "disabled" now with
  | (l2, Some (JBool d)) => (l2, negb d)
  | (l2, _) => (l2, true)
  end.

(** FindRules.Do: children = (rule id, when-bindings) of the enabled
    candidates whose When.Pattern matches the event. *)
Fixpoint find_children (l : loc) (rules : list (string * json)) (event : json) (now : Z)
         (acc : list (string * list bindings)) : loc * outcome (list (string * list bindings)) :=
  match rules with
  | [] => (l, Ok (rev acc))
  | (id, body) :: r =>
      let '(l1, en) := rule_enabled l id now in
      if negb en then find_children l1 r event now acc
      else match when_pattern body with
           | Some p =>
               match core_match p event [] with
               | Ok [] => find_children l1 r event now acc
               | Ok bss => find_children l1 r event now ((id, bss) :: acc)
               | Err x => (l1, Err "fatal")
               | Panic w => (l1, Panic w)
               | OutOfFuel => (l1, OutOfFuel)
               end
           | None => find_children l1 r event now ((id, [[]]) :: acc)
           end
  end.

Definition sys_find_rules (sy : system) (name : string) (c : ctx) (e : env) (event : json)
  : system * outcome (list (string * list bindings)) :=
  let '(sy1, _, r) :=
    do_ancestors _ (fun _ l => loc_rules_local l c e event) (anc_fuel sy) sy name (e_now e) [] [] [] in
  match r with
  | Ok groups =>
      match merge_rules groups [] with
      | Ok rules =>
          match sys_get sy1 name with
          | None => (sy1, Err E_noloc)
          | Some l => let '(l', res) := find_children l rules event (e_now e) [] in
                      (sys_set sy1 name l', res)
          end
      | Err x => (sy1, Err x)
      | Panic w => (sy1, Panic w)
      | OutOfFuel => (sy1, OutOfFuel)
      end
  | Err x => (sy1, Err x)
  | Panic w => (sy1, Panic w)
  | OutOfFuel => (sy1, OutOfFuel)
  end.

(** Rebuild a location from its storage alone. *)
Definition loc_reload (l : loc) (now : Z) : loc * outcome unit :=
  let s := l_state l in
  let '(s', r) := st_load (st_kind s) (st_hooks s) (st_store s) now in
  (mkLoc s' (l_readonly l) (l_max l), r).
