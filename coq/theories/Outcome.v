(** Outcomes of modelled operations: a value, an error (with a small class
    name), a Go panic, or exhausted fuel. *)
From Verif Require Import Json.

Inductive outcome (A : Type) : Type :=
| Ok (a : A)
| Err (e : string)
| Panic (why : string)
| OutOfFuel.
Arguments Ok {A} a.
Arguments Err {A} e.
Arguments Panic {A} why.
Arguments OutOfFuel {A}.

Definition obind {A B} (o : outcome A) (f : A -> outcome B) : outcome B :=
  match o with
  | Ok a => f a
  | Err e => Err e
  | Panic w => Panic w
  | OutOfFuel => OutOfFuel
  end.

Definition omap {A B} (f : A -> B) (o : outcome A) : outcome B :=
  obind o (fun a => Ok (f a)).

Notation "'do' x <- o ; k" := (obind o (fun x => k))
  (at level 200, x pattern, o at level 100, k at level 200, right associativity).

Definition outcome_class {A} (o : outcome A) : string :=
  match o with
  | Ok _ => "ok"
  | Err e => String.append "err:" e
  | Panic _ => "panic"
  | OutOfFuel => "outoffuel"
  end.
