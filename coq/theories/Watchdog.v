(** Model of the watchdog protocol at the bottom of core/javascript.go
    (RunJavascript, "Optionally time out the execution"):

      timeout selection (Control.JavascriptTimeout, else
      SystemParameters.DefaultJavascriptTimeout; watched iff
      SystemParameters.JavascriptTimeouts and 0 <= timeout);
      if watched:
        defer func(){ if caught := recover(); caught == Halt { return } ... }()     (D1)
        watchdogCleanup := make(chan bool)             -- capacity [cap]: 0 in the code, 1 in the repair
        runtime.Interrupt = make(chan func(), 1)
        defer func(){ watchdogCleanup <- true; close(watchdogCleanup) }()            (D2)
        go func(){ select { case <-time.After(timeout): runtime.Interrupt <- func(){panic(Halt)}
                            case <-watchdogCleanup: }
                   close(runtime.Interrupt) }()
      v, err := runtime.Run(src) ; v.Export()

    as a transition system of two threads (runner, watchdog), two channels
    and a timer.  otto polls [Interrupt] (non-blocking receive, then calls the
    received function) once per evaluated statement/expression.  The script
    is abstracted by its family (what it does relative to the deadline and
    whether it polls).  A poll that finds nothing ("default" branch of the
    select) is a stuttering step and is left out, so that every run of the
    system is finite; time is assumed to pass (an enabled timer eventually
    fires, a runnable goroutine eventually runs): a maximal run is a run that
    ends in a configuration without successor.

    Definitions only; theorems in proofs/WatchdogProofs.v. *)
From Verif Require Import Json.

(** ** Scripts *)

Inductive family :=
| FValue        (* finishes with a value before the deadline *)
| FThrow        (* throws before the deadline *)
| FSyntax       (* does not compile (runtime.Run of a source string reports it at once) *)
| FSlow         (* would finish with a value, but is still running - and polling - when the interrupt is delivered *)
| FEdge         (* finishes with a value at about the deadline: before or after the timer fires, polls meanwhile *)
| FLoopPolls    (* never finishes, polls infinitely often *)
| FLoopNoPoll.  (* never finishes, never polls: for(;;){} *)

Inductive script :=
| SValue (v : json)
| SThrow
| SSyntax
| SSlow (v : json)
| SEdge (v : json)
| SLoopPolls
| SLoopNoPoll.

Definition family_of (s : script) : family :=
  match s with
  | SValue _ => FValue | SThrow => FThrow | SSyntax => FSyntax | SSlow _ => FSlow
  | SEdge _ => FEdge | SLoopPolls => FLoopPolls | SLoopNoPoll => FLoopNoPoll
  end.

Definition value_of (s : script) : json :=
  match s with SValue v | SSlow v | SEdge v => v | _ => JNull end.

Inductive errkind := Timeout | Thrown | Syntax.

(** what RunJavascript hands to its caller *)
Inductive result :=
| RValue (v : json)
| RErr (k : errkind)
| RNilNil.            (* (nil, nil): success with no value *)

(** the same without the value (the protocol never looks at it) *)
Inductive aresult := AOk | AErr (k : errkind) | ANilNil.

Definition concretize (s : script) (a : aresult) : result :=
  match a with AOk => RValue (value_of s) | AErr k => RErr k | ANilNil => RNilNil end.

(** ** Configurations *)

(** what the runner carries through its deferred calls: a normal return with
    these results, or the panic Halt raised by the interrupt function *)
Inductive pending := PRet (a : aresult) | PHalt.

Inductive crash :=
| SendOnClosed | DoubleClose   (* Go run-time panics of channel operations *)
| NilInterrupt.                (* poll received the zero value from the closed Interrupt channel and called it *)

Inductive rpc :=
| RStart                       (* before the "if timeouts" block *)
| RRun                         (* inside runtime.Run *)
| RDeferSend (p : pending)     (* D2: watchdogCleanup <- true *)
| RDeferClose (p : pending)    (* D2: close(watchdogCleanup) *)
| RDeferRecover (p : pending)  (* D1: recover() *)
| RReturned (a : aresult)      (* the caller has control back *)
| RCrashed (k : crash).        (* a panic other than Halt: re-panicked, the process dies *)

Inductive wpc :=
| WIdle                        (* not started (or no watchdog at all) *)
| WSelect                      (* at the select *)
| WSendIntr                    (* timer branch taken: runtime.Interrupt <- f *)
| WCloseIntr                   (* close(runtime.Interrupt) *)
| WDone
| WCrashed (k : crash).

(** a channel: is there a buffered item, has it been closed *)
Record chan := { buf : bool; closed : bool }.
Definition chan0 : chan := {| buf := false; closed := false |}.

Record config := {
  c_fam : family;
  c_r : rpc;
  c_w : wpc;
  c_intr : chan;      (* runtime.Interrupt, capacity 1 *)
  c_cln : chan;       (* watchdogCleanup, capacity [cap] *)
  c_timer : bool      (* time.After(timeout) has fired *)
}.

(** the variant of the code and the outcome of the timeout selection *)
Record params := {
  cap : nat;          (* capacity of watchdogCleanup: 0 = the code as it is, 1 = the repair *)
  named : bool;       (* named results, set to a time-out error by the recover branch (the repair) *)
  watched : bool      (* the "if SystemParameters.JavascriptTimeouts && 0 <= timeout" block is entered *)
}.

Definition as_is (w : bool) : params := {| cap := 0; named := false; watched := w |}.
Definition repaired (w : bool) : params := {| cap := 1; named := true; watched := w |}.
Definition buffer_only (w : bool) : params := {| cap := 1; named := false; watched := w |}.

Definition init (f : family) : config :=
  {| c_fam := f; c_r := RStart; c_w := WIdle; c_intr := chan0; c_cln := chan0; c_timer := false |}.

Definition set_r (c : config) (r : rpc) : config :=
  {| c_fam := c_fam c; c_r := r; c_w := c_w c; c_intr := c_intr c; c_cln := c_cln c; c_timer := c_timer c |}.
Definition set_w (c : config) (w : wpc) : config :=
  {| c_fam := c_fam c; c_r := c_r c; c_w := w; c_intr := c_intr c; c_cln := c_cln c; c_timer := c_timer c |}.
Definition set_intr (c : config) (ch : chan) : config :=
  {| c_fam := c_fam c; c_r := c_r c; c_w := c_w c; c_intr := ch; c_cln := c_cln c; c_timer := c_timer c |}.
Definition set_cln (c : config) (ch : chan) : config :=
  {| c_fam := c_fam c; c_r := c_r c; c_w := c_w c; c_intr := c_intr c; c_cln := ch; c_timer := c_timer c |}.
Definition set_timer (c : config) (b : bool) : config :=
  {| c_fam := c_fam c; c_r := c_r c; c_w := c_w c; c_intr := c_intr c; c_cln := c_cln c; c_timer := b |}.

(** ** Steps of the script (the runner inside runtime.Run) *)

(** does the family evaluate statements (and so poll)? *)
Definition polls (f : family) : bool :=
  match f with FLoopNoPoll => false | _ => true end.

(** the families that are over before the deadline: while such a script runs
    the timer does not fire (this is what "before the deadline" means; the
    timer may fire right after, while the deferred calls run) *)
Definition in_time (f : family) : bool :=
  match f with FValue | FThrow | FSyntax => true | _ => false end.

(** may the script finish now, and with what? *)
Definition finish (P : params) (c : config) : option aresult :=
  match c_fam c with
  | FValue => Some AOk
  | FThrow => Some (AErr Thrown)
  | FSyntax => Some (AErr Syntax)
  | FSlow => if watched P then None else Some AOk
  | FEdge => Some AOk
  | FLoopPolls | FLoopNoPoll => None
  end.

(** after runtime.Run: run the deferred calls (watched) or return (unwatched) *)
Definition leave (P : params) (c : config) (p : pending) : config :=
  if watched P then set_r c (RDeferSend p)
  else match p with
       | PRet a => set_r c (RReturned a)
       | PHalt => set_r c (RCrashed NilInterrupt)   (* unreachable: nobody sends an interrupt *)
       end.

Definition runner_steps (P : params) (c : config) : list config :=
  match c_r c with
  | RStart =>
      (* defer D1; make both channels; defer D2; go watchdog() *)
      if watched P then
        match c_w c with
        | WIdle => [set_w (set_r c RRun) WSelect]
        | _ => []                                   (* the goroutine is started once *)
        end
      else [set_r c RRun]
  | RRun =>
      ((* a poll that finds something: select { case f := <-Interrupt: f() } *)
       if polls (c_fam c) && watched P then
         if buf (c_intr c) then
           [leave P (set_intr c {| buf := false; closed := closed (c_intr c) |}) PHalt]
         else if closed (c_intr c) then [set_r c (RCrashed NilInterrupt)]
         else []
       else [])
      ++
      (match finish P c with Some a => [leave P c (PRet a)] | None => [] end)
  | RDeferSend p =>
      if closed (c_cln c) then [set_r c (RCrashed SendOnClosed)]
      else if Nat.eqb (cap P) 0 then
        (* unbuffered: a rendezvous with the watchdog's "case <-watchdogCleanup" *)
        match c_w c with
        | WSelect => [set_w (set_r c (RDeferClose p)) WCloseIntr]
        | _ => []                                   (* blocked *)
        end
      else if buf (c_cln c) then []                 (* blocked: buffer full *)
      else [set_r (set_cln c {| buf := true; closed := false |}) (RDeferClose p)]
  | RDeferClose p =>
      if closed (c_cln c) then [set_r c (RCrashed DoubleClose)]
      else [set_r (set_cln c {| buf := buf (c_cln c); closed := true |}) (RDeferRecover p)]
  | RDeferRecover p =>
      match p with
      | PRet a => [set_r c (RReturned a)]           (* recover() = nil *)
      | PHalt => [set_r c (RReturned (if named P then AErr Timeout else ANilNil))]
      end
  | RReturned _ | RCrashed _ => []
  end%list.

(** ** Steps of the watchdog goroutine and of the timer *)

Definition watchdog_steps (P : params) (c : config) : list config :=
  match c_w c with
  | WIdle | WDone | WCrashed _ => []
  | WSelect =>
      ((* case <-time.After(timeout) *)
       if c_timer c then [set_w c WSendIntr] else [])
      ++
      ((* case <-watchdogCleanup: a buffered item, or the zero value of the
          closed channel; the rendezvous of an unbuffered channel is a joint
          step listed with the runner *)
       if buf (c_cln c) then [set_w (set_cln c {| buf := false; closed := closed (c_cln c) |}) WCloseIntr]
       else if closed (c_cln c) then [set_w c WCloseIntr]
       else [])
  | WSendIntr =>
      if closed (c_intr c) then [set_w c (WCrashed SendOnClosed)]
      else if buf (c_intr c) then []                (* blocked: cannot happen, one send only *)
      else [set_w (set_intr c {| buf := true; closed := false |}) WCloseIntr]
  | WCloseIntr =>
      if closed (c_intr c) then [set_w c (WCrashed DoubleClose)]
      else [set_w (set_intr c {| buf := buf (c_intr c); closed := true |}) WDone]
  end%list.

Definition script_running (c : config) : bool :=
  match c_r c with RStart | RRun => true | _ => false end.

Definition timer_steps (P : params) (c : config) : list config :=
  match c_w c with
  | WSelect =>
      if c_timer c || (in_time (c_fam c) && script_running c) then [] else [set_timer c true]
  | _ => []
  end.

(** a crashed goroutine takes the process down: nothing moves afterwards *)
Definition crashed (c : config) : bool :=
  match c_r c, c_w c with
  | RCrashed _, _ => true
  | _, WCrashed _ => true
  | _, _ => false
  end.

(** every interleaving: the successors of a configuration *)
Definition next (P : params) (c : config) : list config :=
  if crashed c then []
  else (runner_steps P c ++ watchdog_steps P c ++ timer_steps P c)%list.

Definition step (P : params) (c c' : config) : Prop := In c' (next P c).

(** progress measure: every step consumes some of it *)
Definition rank_r (r : rpc) : nat :=
  match r with
  | RStart => 5 | RRun => 4 | RDeferSend _ => 3 | RDeferClose _ => 2 | RDeferRecover _ => 1
  | RReturned _ | RCrashed _ => 0
  end.
Definition rank_w (w : wpc) : nat :=
  match w with
  | WIdle => 4 | WSelect => 3 | WSendIntr => 2 | WCloseIntr => 1 | WDone | WCrashed _ => 0
  end.
Definition measure (c : config) : nat :=
  (rank_r (c_r c) + rank_w (c_w c) + (if c_timer c then 0 else 1))%nat.

(** ** Timeout selection (javascript.go, "var timeout time.Duration ...") *)

(** [on] = SystemParameters.JavascriptTimeouts; [has_ctl] = ctx, its location
    and the location's control are there; durations in nanoseconds.
    [Some t]: the run is watched with limit t; [None]: it is not. *)
Definition timeout_selection (on has_ctl : bool) (control sysdefault : Z) : option Z :=
  let t := if on && has_ctl then control else 0 in
  let t := if t =? 0 then sysdefault else t in
  if on && (0 <=? t) then Some t else None.

Definition params_of (cap_ : nat) (named_ : bool) (sel : option Z) : params :=
  {| cap := cap_; named := named_; watched := match sel with Some _ => true | None => false end |}.

(** ** Decidable equality of configurations, and executable exploration *)

Definition errkind_eqb (a b : errkind) : bool :=
  match a, b with Timeout, Timeout | Thrown, Thrown | Syntax, Syntax => true | _, _ => false end.
Definition aresult_eqb (a b : aresult) : bool :=
  match a, b with
  | AOk, AOk | ANilNil, ANilNil => true
  | AErr x, AErr y => errkind_eqb x y
  | _, _ => false
  end.
Definition pending_eqb (a b : pending) : bool :=
  match a, b with
  | PRet x, PRet y => aresult_eqb x y
  | PHalt, PHalt => true
  | _, _ => false
  end.
Definition crash_eqb (a b : crash) : bool :=
  match a, b with
  | SendOnClosed, SendOnClosed | DoubleClose, DoubleClose | NilInterrupt, NilInterrupt => true
  | _, _ => false
  end.
Definition rpc_eqb (a b : rpc) : bool :=
  match a, b with
  | RStart, RStart | RRun, RRun => true
  | RDeferSend x, RDeferSend y | RDeferClose x, RDeferClose y | RDeferRecover x, RDeferRecover y => pending_eqb x y
  | RReturned x, RReturned y => aresult_eqb x y
  | RCrashed x, RCrashed y => crash_eqb x y
  | _, _ => false
  end.
Definition wpc_eqb (a b : wpc) : bool :=
  match a, b with
  | WIdle, WIdle | WSelect, WSelect | WSendIntr, WSendIntr | WCloseIntr, WCloseIntr | WDone, WDone => true
  | WCrashed x, WCrashed y => crash_eqb x y
  | _, _ => false
  end.
Definition family_eqb (a b : family) : bool :=
  match a, b with
  | FValue, FValue | FThrow, FThrow | FSyntax, FSyntax | FSlow, FSlow | FEdge, FEdge
  | FLoopPolls, FLoopPolls | FLoopNoPoll, FLoopNoPoll => true
  | _, _ => false
  end.
Definition chan_eqb (a b : chan) : bool :=
  Bool.eqb (buf a) (buf b) && Bool.eqb (closed a) (closed b).
Definition config_eqb (a b : config) : bool :=
  family_eqb (c_fam a) (c_fam b) && rpc_eqb (c_r a) (c_r b) && wpc_eqb (c_w a) (c_w b) &&
  chan_eqb (c_intr a) (c_intr b) && chan_eqb (c_cln a) (c_cln b) && Bool.eqb (c_timer a) (c_timer b).

Definition cmem (c : config) (l : list config) : bool := existsb (config_eqb c) l.

(** worklist exploration: [seen] grows by the successors not yet in it *)
Fixpoint explore (P : params) (fuel : nat) (todo seen : list config) : list config :=
  match fuel with
  | O => seen
  | S fuel' =>
      match todo with
      | [] => seen
      | c :: rest =>
          let new := fold_left (fun acc c' => if cmem c' seen || cmem c' acc then acc else (c' :: acc)%list)
                               (next P c) [] in
          explore P fuel' (rest ++ new)%list (seen ++ new)%list
      end
  end.

(** every configuration reachable from [init f] (fuel: more than the number
    of configurations of one family; closure is proved, not assumed) *)
Definition reachable_all (P : params) (f : family) : list config :=
  explore P 400 [init f] [init f].

Definition all_families : list family :=
  [FValue; FThrow; FSyntax; FSlow; FEdge; FLoopPolls; FLoopNoPoll].

(** closure check used by the proofs and (as a sanity bit) by the checker *)
Definition closed_under_next (P : params) (l : list config) : bool :=
  forallb (fun c => forallb (fun c' => cmem c' l) (next P c)) l.

(** ** What a caller can observe *)

Inductive obs :=
| OReturn (a : aresult)   (* the call returned *)
| OBlocked                (* the runner waits forever in the deferred send: the caller hangs *)
| ODiverge                (* the script runs forever *)
| OCrash.                 (* the process died *)

Definition obs_eqb (a b : obs) : bool :=
  match a, b with
  | OReturn x, OReturn y => aresult_eqb x y
  | OBlocked, OBlocked | ODiverge, ODiverge | OCrash, OCrash => true
  | _, _ => false
  end.

(** observation at a configuration without successor *)
Definition obs_of (c : config) : obs :=
  if crashed c then OCrash
  else match c_r c with
       | RReturned a => OReturn a
       | RRun => ODiverge
       | RCrashed _ => OCrash
       | _ => OBlocked
       end.

(** the observations the model allows for a family: those of the terminal
    configurations (maximal runs), over all schedules *)
Definition outcomes (P : params) (f : family) : list obs :=
  fold_left (fun acc c => match next P c with
                          | [] => if existsb (obs_eqb (obs_of c)) acc then acc else (acc ++ [obs_of c])%list
                          | _ => acc
                          end) (reachable_all P f) [].
