(** Model of the service layer of rulio (service/httpd.go, service/service.go):
    [DWIMURI], [GetHTTPRequest] on ABSTRACT requests, the parameter getters,
    the dispatch of [ProcessRequest] for the /api/loc/* family (and the batch
    request), and the inverse direction [render] (logical request -> request
    in a given encoding) used by the theorems.

    What is NOT modelled: the lexical layers.  URL escaping (net/url), the
    JSON lexer (encoding/json) and the YAML lexer (gopkg.in/yaml.v2) are not
    re-implemented.  An abstract request carries, next to every text, what
    those lexers make of it ([pt_json], [pt_yaml], [pt_int], [bt_form], ...);
    the harness fills these fields by running the real lexers on the real
    bytes.  What the code does with the FIRST BYTE of a text and with the
    presence of a newline (the syntax sniffing of [Unmarshal] and of
    [GetHTTPRequest]) IS modelled, on the text itself.  Paths are assumed
    plain (no %-escapes, no '?'), so that r.URL.Path and the path part of
    r.URL.String() coincide.  JSON numbers are integers (Json.json).

    Model file: definitions only, no proofs (proofs: coq/proofs/Service*.v). *)
From Verif Require Import Json Outcome.

Definition obj := list (string * json).
(** Go's map[string]interface{}: an association list kept sorted by [ainsert]. *)
Definition params := list (string * json).

(** * DWIMURI (service.go:68-88), character by character *)

Definition nl : ascii := "010"%char.

(** regexp "[?].*" replaced by "" everywhere: from a '?' up to (not including)
    the next newline ('.' does not match a newline in Go's regexp). *)
Fixpoint drop_params (dropping : bool) (s : string) : string :=
  match s with
  | EmptyString => EmptyString
  | String c r =>
      if Ascii.eqb c nl then String c (drop_params false r)
      else if dropping then drop_params true r
      else if Ascii.eqb c "?" then drop_params true r
      else String c (drop_params false r)
  end.

Definition is_digit (c : ascii) : bool :=
  let n := nat_of_ascii c in (Nat.leb 48 n && Nat.leb n 57)%bool.
Definition is_verchar (c : ascii) : bool := Ascii.eqb c "." || is_digit c.

Fixpoint drop_verchars (s : string) : string :=
  match s with
  | String c r => if is_verchar c then drop_verchars r else s
  | EmptyString => EmptyString
  end.

(** regexp "^/v?[.0-9]+" replaced by "" (anchored at the start of the text;
    leftmost-first: "v?" takes the 'v' when a version character follows it,
    otherwise backtracks to the empty match, and then "[.0-9]+" fails on 'v'). *)
Definition drop_version (s : string) : string :=
  match s with
  | String c0 r0 =>
      if Ascii.eqb c0 "/" then
        match r0 with
        | String c1 r1 =>
            if is_verchar c1 then drop_verchars r1
            else if Ascii.eqb c1 "v" then
              match r1 with
              | String c2 r2 => if is_verchar c2 then drop_verchars r2 else s
              | EmptyString => s
              end
            else s
        | EmptyString => s
        end
      else s
  | EmptyString => s
  end.

Definition dwim_uri (s : string) : string :=
  let u := drop_version (drop_params false s) in
  if has_prefix "/api" u then u else String.append "/api" u.

(** * The parameter getters (service.go:94-153): (value, have, error) *)

Fixpoint join_strs (l : list json) : option string :=
  match l with
  | [] => Some ""
  | JStr s :: r => match join_strs r with Some acc => Some (String.append s acc) | None => None end
  | _ :: _ => None
  end.

Definition get_string_param (m : params) (p : string) (required : bool) : string * bool * option string :=
  match alookup p m with
  | None => if required then ("", false, Some "missing") else ("", false, None)
  | Some (JStr s) => (s, true, None)
  | Some (JArr l) => match join_strs l with
                     | Some acc => (acc, true, None)
                     | None => ("", true, Some "wrongtype")
                     end
  | Some _ => ("", true, Some "wrongtype")
  end.

(** strings.ToLower restricted to ASCII letters (no other rune lower-cases to
    one of the letters of "true"). *)
Definition lower_ascii (c : ascii) : ascii :=
  let n := nat_of_ascii c in
  if (Nat.leb 65 n && Nat.leb n 90)%bool then ascii_of_nat (n + 32) else c.
Fixpoint lower (s : string) : string :=
  match s with EmptyString => EmptyString | String c r => String (lower_ascii c) (lower r) end.

Definition get_bool_param (m : params) (p : string) (required : bool) : bool * bool * option string :=
  match alookup p m with
  | None => if required then (false, false, Some "missing") else (false, false, None)
  | Some (JBool b) => (b, true, None)
  | Some (JStr s) => (String.eqb (lower s) "true", true, None)
  | Some _ => (false, true, Some "wrongtype")
  end.

Definition get_map_param (m : params) (p : string) (required : bool) : option obj * bool * option string :=
  match alookup p m with
  | None => if required then (None, false, Some "missing") else (None, false, None)
  | Some (JObj o) => (Some o, true, None)
  | Some _ => (None, true, Some "wrongtype")
  end.

(** * Abstract requests *)

(** A parameter text (one query-string or form value) and what the lexers make
    of it: [pt_json] = json.Unmarshal(text, &map) (Some o iff the text is a
    JSON object), [pt_yaml] = yaml.Unmarshal(text, map) followed by
    StringMaps (Some o iff no error), [pt_int] = strconv.ParseInt(text,10,32). *)
Record ptext := { pt_text : string; pt_json : option obj; pt_yaml : option obj; pt_int : option Z }.

(** A body text: the same, plus [bt_form] = url.ParseQuery(text), pairs in
    document order (None on a syntax error). *)
Record btext := { bt_text : string; bt_json : option obj; bt_yaml : option obj;
                  bt_form : option (list (string * ptext)) }.

(** [rq_query] = url.ParseQuery(r.URL.RawQuery), pairs in document order. *)
Record request := { rq_method : string; rq_path : string;
                    rq_query : option (list (string * ptext)); rq_body : btext }.

(** * Unmarshal / parseParameter (httpd.go:264-293) *)

Definition starts_brace (s : string) : bool :=
  match s with String c _ => Ascii.eqb c "{" | EmptyString => false end.
Fixpoint has_newline (s : string) : bool :=
  match s with String c r => Ascii.eqb c nl || has_newline r | EmptyString => false end.

(** [Unmarshal]: an empty text is an unknown syntax (length check before bs[0]). *)
Definition unmarshal (text : string) (js ym : option obj) : outcome obj :=
  match text with
  | EmptyString => Err "unknown syntax"
  | String _ _ =>
      if starts_brace text then match js with Some o => Ok o | None => Err "json" end
      else if has_newline text then match ym with Some o => Ok o | None => Err "yaml" end
      else Err "unknown syntax"
  end.

Definition parse_parameter (ptypes : list (string * string)) (p : string) (t : ptext) : outcome json :=
  match alookup p ptypes with
  | None => Ok (JStr (pt_text t))
  | Some typ =>
      if String.eqb typ "json" then
        match unmarshal (pt_text t) (pt_json t) (pt_yaml t) with
        | Ok o => Ok (JObj o) | Err e => Err e | Panic w => Panic w | OutOfFuel => OutOfFuel
        end
      else if String.eqb typ "int" then
        match pt_int t with Some z => Ok (JNum z) | None => Err "int" end
      else Err "unknown parameter type"
  end.

Fixpoint count_name (p : string) (l : list (string * ptext)) : nat :=
  match l with
  | [] => O
  | (q, _) :: r => if String.eqb p q then S (count_name p r) else count_name p r
  end.

(** The closure [parseQuery] of GetHTTPRequest.  Go ranges over a map (random
    order); every failure is an error, so the order only matters when an
    empty typed value (a panic) and another defect occur in the same query:
    the model takes document order. *)
Fixpoint parse_pairs (ptypes : list (string * string)) (all l : list (string * ptext)) (m : params)
  : outcome params :=
  match l with
  | [] => Ok m
  | (p, t) :: r =>
      if Nat.eqb (count_name p all) 1 then
        match parse_parameter ptypes p t with
        | Ok v => parse_pairs ptypes all r (ainsert p v m)
        | Err e => Err e | Panic w => Panic w | OutOfFuel => OutOfFuel
        end
      else Err "need exactly one value"
  end.

(** json.Unmarshal / yaml.Unmarshal into the existing map: members of the
    text replace entries of the same name, other entries stay. *)
Definition merge (m : params) (o : obj) : params :=
  fold_left (fun acc kv => ainsert (fst kv) (snd kv) acc) o m.

(** * GetHTTPRequest (httpd.go:295-389) *)

Definition is_post (rq : request) : bool := String.eqb (rq_method rq) "POST".

Definition get_http_request (ptypes : list (string * string)) (rq : request) : outcome params :=
  let uri := dwim_uri (rq_path rq) in
  match (match rq_query rq with None => Err "query" | Some l => parse_pairs ptypes l l [] end) with
  | Err e => Err e | Panic w => Panic w | OutOfFuel => OutOfFuel
  | Ok m0 =>
      if String.eqb uri "/api/json" || String.eqb uri "/api/yaml" then
        if is_post rq then
          let b := rq_body rq in
          match (if String.eqb uri "/api/json" then bt_json b else bt_yaml b) with
          | None => Err "body syntax"
          | Some o =>
              let m1 := merge m0 o in
              match alookup "uri" m1 with
              | None => Err "no uri given"
              | Some (JStr _) => Ok m1
              | Some _ => Err "need a string uri"
              end
          end
        else Err "no uri given"
      else
        let m1 := ainsert "uri" (JStr (rq_path rq)) m0 in
        if is_post rq then
          let b := rq_body rq in
          match bt_text b with
          | EmptyString => Err "empty body"    (* length check before js[0] *)
          | String _ _ =>
              if starts_brace (bt_text b) then
                match bt_json b with Some o => Ok (merge m1 o) | None => Err "json" end
              else if has_newline (bt_text b) then
                match bt_yaml b with Some o => Ok (merge m1 o) | None => Err "yaml" end
              else
                match bt_form b with Some l => parse_pairs ptypes l l m1 | None => Err "form" end
          end
        else Ok m1
  end.

(** ServeHTTP: m["uri"].(string), checked (400 when it is not a string). *)
Definition uri_of (m : params) : outcome string :=
  match alookup "uri" m with
  | Some (JStr s) => Ok s
  | _ => Err "need a string uri"
  end.

(** The request as the dispatcher sees it: normalised uri and parameter map. *)
Definition decode (ptypes : list (string * string)) (rq : request) : outcome (string * params) :=
  match get_http_request ptypes rq with
  | Ok m => match uri_of m with
            | Ok u => Ok (dwim_uri u, m)
            | Err e => Err e | Panic w => Panic w | OutOfFuel => OutOfFuel
            end
  | Err e => Err e | Panic w => Panic w | OutOfFuel => OutOfFuel
  end.

(** * Tables (literal copies; ServiceProofs.model_tables_match_source proves
      them equal to gen/DispatchTable.v, regenerated from the Go source) *)

Definition svc_parameter_types : list (string * string) := [
  ("event", "json"); ("fact", "json"); ("limit", "int");
  ("pattern", "json"); ("query", "json"); ("rule", "json")].

(** (getter, parameter, required, checked): checked = the getter's error is
    returned to the caller by the next statement. *)
Definition getter_spec := (string * string * bool * bool)%type.

Definition svc_loc_getters : list (string * list getter_spec) := [
  ("/api/loc/admin/clear", [("GetStringParam", "location", true, true)]);
  ("/api/loc/admin/create", [("GetStringParam", "location", true, true)]);
  ("/api/loc/admin/delete", [("GetStringParam", "location", true, true)]);
  ("/api/loc/admin/size", [("GetStringParam", "location", true, true)]);
  ("/api/loc/admin/stats", [("GetStringParam", "location", true, true)]);
  ("/api/loc/admin/updatedmem", [("GetStringParam", "location", true, true)]);
  ("/api/loc/events/ingest", [("getMapParam", "event", true, true); ("GetStringParam", "location", true, true)]);
  ("/api/loc/events/retry", [("GetStringParam", "work", true, true); ("GetStringParam", "location", true, true)]);
  ("/api/loc/facts/add", [("getMapParam", "fact", true, true); ("GetStringParam", "location", true, true); ("GetStringParam", "id", false, true)]);
  ("/api/loc/facts/get", [("GetStringParam", "id", true, true); ("GetStringParam", "location", true, true)]);
  ("/api/loc/facts/query", [("getMapParam", "query", true, true); ("GetStringParam", "location", true, true)]);
  ("/api/loc/facts/rem", [("GetStringParam", "id", true, true); ("GetStringParam", "location", true, true)]);
  ("/api/loc/facts/replace", [("getMapParam", "fact", true, true); ("GetStringParam", "id", false, true)]);
  ("/api/loc/facts/search", [("getMapParam", "pattern", true, true); ("GetStringParam", "location", true, true); ("getBoolParam", "inherited", false, true)]);
  ("/api/loc/facts/take", []);
  ("/api/loc/parents", [("GetStringParam", "location", true, true); ("GetStringParam", "set", false, false)]);
  ("/api/loc/rules/add", [("getMapParam", "rule", true, true); ("GetStringParam", "location", true, true); ("GetStringParam", "id", false, true)]);
  ("/api/loc/rules/disable", [("GetStringParam", "id", true, true); ("GetStringParam", "location", true, true)]);
  ("/api/loc/rules/enable", [("GetStringParam", "id", true, true); ("GetStringParam", "location", true, true)]);
  ("/api/loc/rules/enabled", [("GetStringParam", "id", true, true); ("GetStringParam", "location", true, true)]);
  ("/api/loc/rules/list", [("GetStringParam", "location", true, true); ("getBoolParam", "inherited", false, true)]);
  ("/api/loc/rules/rem", [("GetStringParam", "id", true, true); ("GetStringParam", "location", true, true)]);
  ("/api/loc/util/js", [("GetStringParam", "location", true, true); ("GetStringParam", "code", true, true); ("GetStringParam", "encoding", false, false)])].

(** Re-dispatch effects of the two composite operations (the error of each
    inner request is returned). *)
Definition svc_loc_effects : list (string * list string) := [
  ("/api/loc/facts/replace", ["set:uri=/api/loc/facts/search"; "set:take=true"; "redispatch:checked:discard";
                              "set:uri=/api/loc/facts/add"; "redispatch:checked:out"]);
  ("/api/loc/facts/take", ["set:uri=/api/loc/facts/search"; "set:take=true"; "redispatch:checked:out"])].

(** Every case label of ProcessRequest. *)
Definition svc_process_uris : list string := [
  "/api/health"; "/api/health/deep"; "/api/health/deeper"; "/api/health/shallow";
  "/api/loc/admin/clear"; "/api/loc/admin/create"; "/api/loc/admin/delete"; "/api/loc/admin/size";
  "/api/loc/admin/stats"; "/api/loc/admin/updatedmem"; "/api/loc/events/ingest"; "/api/loc/events/retry";
  "/api/loc/facts/add"; "/api/loc/facts/get"; "/api/loc/facts/query"; "/api/loc/facts/rem";
  "/api/loc/facts/replace"; "/api/loc/facts/search"; "/api/loc/facts/take"; "/api/loc/parents";
  "/api/loc/rules/add"; "/api/loc/rules/disable"; "/api/loc/rules/enable"; "/api/loc/rules/enabled";
  "/api/loc/rules/list"; "/api/loc/rules/rem"; "/api/loc/util/js";
  "/api/sys/admin/freemem"; "/api/sys/admin/gc"; "/api/sys/admin/gcpercent"; "/api/sys/admin/heapdump";
  "/api/sys/admin/panic"; "/api/sys/admin/purgecaches"; "/api/sys/admin/purgehttppcache";
  "/api/sys/admin/purgeslurpcache"; "/api/sys/admin/shutdown"; "/api/sys/admin/sleep";
  "/api/sys/admin/timers/get"; "/api/sys/admin/timers/names"; "/api/sys/cachedlocations";
  "/api/sys/control"; "/api/sys/loccontrol"; "/api/sys/params"; "/api/sys/runtime"; "/api/sys/stats";
  "/api/sys/storage/get"; "/api/sys/storage/set"; "/api/sys/util/batch"; "/api/sys/util/js";
  "/api/sys/util/match"; "/api/sys/util/nowsecs"; "/api/sys/util/setJavascriptTestValue"; "/api/version"].

(** The two URIs answered by ServeHTTP itself. *)
Definition svc_serve_uris : list string := ["/api/sys/admin/connstates"; "/api/sys/admin/pending"].

(** * Dispatch (ProcessRequest, service.go:176-1292) for /api/loc/* *)

(** What a request makes the service do. *)
Inductive plan :=
| PCall (method : string) (args : list json) (take : bool)
    (** one System call; [take]: every fact of the answer is then removed
        (RemFact), removal errors are only logged *)
| PIgnore (p : plan)        (** p runs; its error, if any, is not reported *)
| PSeq (p q : plan)         (** p (its output is discarded); if it succeeds, then q *)
| PErr (e : string).        (** an error is reported at this point *)

(** The bound results of the getters of one case: name -> (value, have). *)
Definition bindings := list (string * (json * bool)).

Definition run_getter (g p : string) (req : bool) (m : params) : json * bool * option string :=
  if String.eqb g "GetStringParam" then
    let '(s, h, e) := get_string_param m p req in (JStr s, h, e)
  else if String.eqb g "getBoolParam" then
    let '(b, h, e) := get_bool_param m p req in (JBool b, h, e)
  else if String.eqb g "getMapParam" then
    let '(o, h, e) := get_map_param m p req in
    (match o with Some o => JObj o | None => JNull end, h, e)
  else (JNull, false, Some "unknown getter").

(** Getters run in source order; a failing getter aborts the request iff its
    error is checked. *)
Fixpoint run_getters (gs : list getter_spec) (m : params) (acc : bindings) : outcome bindings :=
  match gs with
  | [] => Ok acc
  | (g, p, req, chk) :: r =>
      let '(v, h, e) := run_getter g p req m in
      match e with
      | Some msg => if chk then Err msg else run_getters r m (acc ++ [(p, (v, h))])%list
      | None => run_getters r m (acc ++ [(p, (v, h))])%list
      end
  end.

Definition bval (p : string) (b : bindings) : json :=
  match alookup p b with Some (v, _) => v | None => JNull end.
Definition bhave (p : string) (b : bindings) : bool :=
  match alookup p b with Some (_, h) => h | None => false end.

(** The "libraries" parameter of /api/loc/util/js, read from the map by hand. *)
Fixpoint all_strs (l : list json) : bool :=
  match l with [] => true | JStr _ :: r => all_strs r | _ :: _ => false end.
Definition libraries_of (m : params) : outcome json :=
  match alookup "libraries" m with
  | None => Ok (JArr [])
  | Some (JArr l) => if all_strs l then Ok (JArr l) else Err "Bad library type"
  | Some _ => Err "Bad 'libraries' type"
  end.

(** The System call of each plain case, from the bound getter results. *)
Definition build_plan (uri : string) (b : bindings) (m : params) : outcome plan :=
  let loc := bval "location" b in
  let id := bval "id" b in
  let call1 meth := Ok (PCall meth [loc] false) in
  let call_id meth := Ok (PCall meth [loc; id] false) in
  if String.eqb uri "/api/loc/admin/clear" then call1 "ClearLocation"
  else if String.eqb uri "/api/loc/admin/create" then call1 "CreateLocation"
  else if String.eqb uri "/api/loc/admin/delete" then call1 "DeleteLocation"
  else if String.eqb uri "/api/loc/admin/size" then call1 "GetSize"
  else if String.eqb uri "/api/loc/admin/stats" then call1 "GetLocationStats"
  else if String.eqb uri "/api/loc/admin/updatedmem" then call1 "GetLastUpdatedMem"
  else if String.eqb uri "/api/loc/events/ingest" then Ok (PCall "ProcessEvent" [loc; bval "event" b] false)
  else if String.eqb uri "/api/loc/events/retry" then
    (* the error of RetryEventWork is overwritten before it is looked at *)
    Ok (PIgnore (PCall "RetryEventWork" [loc; bval "work" b] false))
  else if String.eqb uri "/api/loc/facts/add" then Ok (PCall "AddFact" [loc; id; bval "fact" b] false)
  else if String.eqb uri "/api/loc/facts/get" then call_id "GetFact"
  else if String.eqb uri "/api/loc/facts/query" then Ok (PCall "Query" [loc; bval "query" b] false)
  else if String.eqb uri "/api/loc/facts/rem" then call_id "RemFact"
  else if String.eqb uri "/api/loc/facts/search" then
    Ok (PCall "SearchFacts" [loc; bval "pattern" b; bval "inherited" b]
              (match alookup "take" m with Some _ => true | None => false end))
  else if String.eqb uri "/api/loc/parents" then
    if bhave "set" b then Ok (PCall "SetParents" [loc; bval "set" b] false)
    else Ok (PCall "GetParents" [loc] false)
  else if String.eqb uri "/api/loc/rules/add" then Ok (PCall "AddRule" [loc; id; bval "rule" b] false)
  else if String.eqb uri "/api/loc/rules/disable" then Ok (PCall "EnableRule" [loc; id; JBool false] false)
  else if String.eqb uri "/api/loc/rules/enable" then Ok (PCall "EnableRule" [loc; id; JBool true] false)
  else if String.eqb uri "/api/loc/rules/enabled" then call_id "RuleEnabled"
  else if String.eqb uri "/api/loc/rules/list" then Ok (PCall "ListRules" [loc; bval "inherited" b] false)
  else if String.eqb uri "/api/loc/rules/rem" then call_id "RemRule"
  else if String.eqb uri "/api/loc/util/js" then
    if bhave "encoding" b then OutOfFuel   (* core.DecodeString: outside the model *)
    else match libraries_of m with
         | Ok libs => Ok (PCall "RunJavascript" [loc; bval "code" b; libs] false)
         | Err e => Err e | Panic w => Panic w | OutOfFuel => OutOfFuel
         end
  else Err "unknown uri".

(** A plain case: getters, then the call. *)
Definition dispatch_plain (uri : string) (m : params) : outcome plan :=
  match alookup uri svc_loc_getters with
  | None => Err "unknown uri"
  | Some gs =>
      match run_getters gs m [] with
      | Ok b => build_plan uri b m
      | Err e => Err e | Panic w => Panic w | OutOfFuel => OutOfFuel
      end
  end.

(** One request map [m] whose normalised uri is [uri].  [OutOfFuel] means
    "a case of ProcessRequest that this model does not cover".

    take = search with m["take"] set; its error is returned.
    replace = its own getters (fact, id: nothing is taken when the add would
    be rejected), then the search-and-take, then the add; the error of either
    inner request is returned.  If the add were rejected after the take, the
    take has happened: [PSeq p (PErr e)] (replace_add_not_rejected shows this
    does not occur). *)
Definition dispatch (uri : string) (m : params) : outcome plan :=
  if String.eqb uri "/api/loc/facts/take" then
    let m' := ainsert "take" (JBool true) (ainsert "uri" (JStr "/api/loc/facts/search") m) in
    dispatch_plain "/api/loc/facts/search" m'
  else if String.eqb uri "/api/loc/facts/replace" then
    match alookup uri svc_loc_getters with
    | None => Err "unknown uri"
    | Some gs =>
        match run_getters gs m [] with
        | Ok _ =>
            let m1 := ainsert "take" (JBool true) (ainsert "uri" (JStr "/api/loc/facts/search") m) in
            let m2 := ainsert "uri" (JStr "/api/loc/facts/add") m1 in
            match dispatch_plain "/api/loc/facts/search" m1 with
            | Ok p =>
                match dispatch_plain "/api/loc/facts/add" m2 with
                | Ok q => Ok (PSeq p q)
                | Err e => Ok (PSeq p (PErr e))
                | Panic w => Panic w
                | OutOfFuel => OutOfFuel
                end
            | Err e => Err e | Panic w => Panic w | OutOfFuel => OutOfFuel
            end
        | Err e => Err e | Panic w => Panic w | OutOfFuel => OutOfFuel
        end
    end
  else if has_prefix "/api/loc/" uri then dispatch_plain uri m
  else if mem_str uri svc_process_uris then OutOfFuel
  else Err "unknown uri".

(** The batch request (/api/sys/util/batch): each element is a request map. *)
Inductive belem := BPlan (p : plan) | BErr (e : string) | BBadType.
Inductive action := ASingle (p : plan) | ABatch (l : list belem).

Fixpoint batch_elems (xs : list json) : outcome (list belem) :=
  match xs with
  | [] => Ok []
  | x :: r =>
      let here : outcome belem :=
        match x with
        | JObj o =>
            match alookup "uri" o with
            | None => Ok (BErr "No uri.")
            | Some (JStr u) =>
                match dispatch (dwim_uri u) o with
                | Ok p => Ok (BPlan p) | Err e => Ok (BErr e) | Panic w => Panic w | OutOfFuel => OutOfFuel
                end
            | Some _ => Ok (BErr "need a string uri")     (* u.(string), checked *)
            end
        | _ => Ok BBadType
        end in
      match here with
      | Ok e => match batch_elems r with
                | Ok es => Ok (e :: es) | Err e' => Err e' | Panic w => Panic w | OutOfFuel => OutOfFuel
                end
      | Err e => Err e | Panic w => Panic w | OutOfFuel => OutOfFuel
      end
  end.

(** ProcessRequest. *)
Definition process_request (m : params) : outcome action :=
  match alookup "uri" m with
  | None => Err "No uri."
  | Some (JStr u) =>
      let uri := dwim_uri u in
      if String.eqb uri "/api/sys/util/batch" then
        match alookup "requests" m with
        | None => Err "missing 'requests' parameter"
        | Some (JArr xs) =>
            match batch_elems xs with
            | Ok es => Ok (ABatch es) | Err e => Err e | Panic w => Panic w | OutOfFuel => OutOfFuel
            end
        | Some _ => Err "'requests' not an array"
        end
      else
        match dispatch uri m with
        | Ok p => Ok (ASingle p) | Err e => Err e | Panic w => Panic w | OutOfFuel => OutOfFuel
        end
  | Some _ => Err "need a string uri"
  end.

(** ServeHTTP up to the System calls: Err = answered 400 before any call. *)
Definition serve (ptypes : list (string * string)) (rq : request) : outcome action :=
  match get_http_request ptypes rq with
  | Ok m =>
      match uri_of m with
      | Ok u => if mem_str (dwim_uri u) svc_serve_uris then OutOfFuel else process_request m
      | Err e => Err e | Panic w => Panic w | OutOfFuel => OutOfFuel
      end
  | Err e => Err e | Panic w => Panic w | OutOfFuel => OutOfFuel
  end.

(** * Logical requests and their renderings *)

Inductive lval := LStr (s : string) | LBool (b : bool) | LMap (o : obj).
Record logical_request := { lr_uri : string; lr_params : list (string * lval) }.

Definition json_of_lval (v : lval) : json :=
  match v with LStr s => JStr s | LBool b => JBool b | LMap o => JObj o end.
Definition text_of_bool (b : bool) : string := if b then "true" else "false".

(** The printers of the lexical layer (json.Marshal, yaml.Marshal,
    url.Values.Encode): parameters of [render]; the theorems assume what
    they need about them (ServiceSpec.lexical_ok). *)
Record printers := { pr_json : obj -> string; pr_yaml : obj -> string;
                     pr_form : list (string * string) -> string }.

Inductive enc_kind := EQuery | EForm | EJson | EYaml | EMixed | EEnvJson | EEnvYaml.
Inductive prefix_variant := PAsIs | PNoApi | PVersion (ver : string) | PVersionNoApi (ver : string).
(** [e_yaml_params]: typed (json) parameters of a query string / form are
    written as YAML text instead of JSON text. *)
Record encoding := { e_kind : enc_kind; e_prefix : prefix_variant; e_yaml_params : bool }.

Fixpoint drop_chars (n : nat) (s : string) : string :=
  match n, s with
  | S n', String _ r => drop_chars n' r
  | _, _ => s
  end.
Definition strip_api (u : string) : string := if has_prefix "/api" u then drop_chars 4 u else u.
Definition vary (pv : prefix_variant) (u : string) : string :=
  match pv with
  | PAsIs => u
  | PNoApi => strip_api u
  | PVersion v => String.append v u
  | PVersionNoApi v => String.append v (strip_api u)
  end.

Definition ptext_of_lval (P : printers) (yamlp : bool) (v : lval) : ptext :=
  match v with
  | LStr s => {| pt_text := s; pt_json := None; pt_yaml := None; pt_int := None |}
  | LBool b => {| pt_text := text_of_bool b; pt_json := None; pt_yaml := None; pt_int := None |}
  | LMap o => {| pt_text := (if yamlp then pr_yaml P o else pr_json P o);
                 pt_json := Some o; pt_yaml := Some o; pt_int := None |}
  end.

Definition pairs_of (P : printers) (yamlp : bool) (l : list (string * lval)) : list (string * ptext) :=
  map (fun kv => (fst kv, ptext_of_lval P yamlp (snd kv))) l.

Definition obj_of_params (l : list (string * lval)) : obj :=
  fold_left (fun acc kv => ainsert (fst kv) (json_of_lval (snd kv)) acc) l [].

Definition is_map (v : lval) : bool := match v with LMap _ => true | _ => false end.

Definition no_body : btext := {| bt_text := ""; bt_json := None; bt_yaml := Some []; bt_form := Some [] |}.
Definition json_body (P : printers) (o : obj) : btext :=
  {| bt_text := pr_json P o; bt_json := Some o; bt_yaml := Some o; bt_form := None |}.
Definition yaml_body (P : printers) (o : obj) : btext :=
  {| bt_text := pr_yaml P o; bt_json := Some o; bt_yaml := Some o; bt_form := None |}.
Definition form_body (P : printers) (l : list (string * ptext)) : btext :=
  {| bt_text := pr_form P (map (fun kv => (fst kv, pt_text (snd kv))) l);
     bt_json := None; bt_yaml := None; bt_form := Some l |}.

Definition render (P : printers) (r : logical_request) (e : encoding) : request :=
  let path := vary (e_prefix e) (lr_uri r) in
  let ps := lr_params r in
  let o := obj_of_params ps in
  match e_kind e with
  | EQuery => {| rq_method := "GET"; rq_path := path;
                 rq_query := Some (pairs_of P (e_yaml_params e) ps); rq_body := no_body |}
  | EForm => {| rq_method := "POST"; rq_path := path; rq_query := Some [];
                rq_body := form_body P (pairs_of P (e_yaml_params e) ps) |}
  | EJson => {| rq_method := "POST"; rq_path := path; rq_query := Some []; rq_body := json_body P o |}
  | EYaml => {| rq_method := "POST"; rq_path := path; rq_query := Some []; rq_body := yaml_body P o |}
  | EMixed => {| rq_method := "POST"; rq_path := path;
                 rq_query := Some (pairs_of P (e_yaml_params e) (filter (fun kv => negb (is_map (snd kv))) ps));
                 rq_body := json_body P (obj_of_params (filter (fun kv => is_map (snd kv)) ps)) |}
  | EEnvJson => {| rq_method := "POST"; rq_path := "/api/json"; rq_query := Some [];
                   rq_body := json_body P (ainsert "uri" (JStr path) o) |}
  | EEnvYaml => {| rq_method := "POST"; rq_path := "/api/yaml"; rq_query := Some [];
                   rq_body := yaml_body P (ainsert "uri" (JStr path) o) |}
  end.

(** One batch request carrying the given logical requests. *)
Definition batch_elem (r : logical_request) : json :=
  JObj (ainsert "uri" (JStr (lr_uri r)) (obj_of_params (lr_params r))).
Definition render_batch (P : printers) (rs : list logical_request) : request :=
  {| rq_method := "POST"; rq_path := "/api/sys/util/batch"; rq_query := Some [];
     rq_body := json_body P [("requests", JArr (map batch_elem rs))] |}.

(** The System call a logical request stands for (the DIRECT call), when the
    request fits the signature of its operation. *)
Definition lparam (p : string) (r : logical_request) : option lval := alookup p (lr_params r).
Definition lstr (p : string) (r : logical_request) : json :=
  match lparam p r with Some (LStr s) => JStr s | _ => JStr "" end.
Definition lmap (p : string) (r : logical_request) : json :=
  match lparam p r with Some (LMap o) => JObj o | _ => JNull end.
Definition lbool (p : string) (r : logical_request) : json :=
  match lparam p r with Some (LBool b) => JBool b | _ => JBool false end.

Definition direct_call (r : logical_request) : outcome plan :=
  let u := lr_uri r in
  let loc := lstr "location" r in
  let id := lstr "id" r in
  if String.eqb u "/api/loc/admin/clear" then Ok (PCall "ClearLocation" [loc] false)
  else if String.eqb u "/api/loc/admin/create" then Ok (PCall "CreateLocation" [loc] false)
  else if String.eqb u "/api/loc/admin/delete" then Ok (PCall "DeleteLocation" [loc] false)
  else if String.eqb u "/api/loc/admin/size" then Ok (PCall "GetSize" [loc] false)
  else if String.eqb u "/api/loc/admin/stats" then Ok (PCall "GetLocationStats" [loc] false)
  else if String.eqb u "/api/loc/admin/updatedmem" then Ok (PCall "GetLastUpdatedMem" [loc] false)
  else if String.eqb u "/api/loc/events/ingest" then Ok (PCall "ProcessEvent" [loc; lmap "event" r] false)
  else if String.eqb u "/api/loc/facts/add" then Ok (PCall "AddFact" [loc; id; lmap "fact" r] false)
  else if String.eqb u "/api/loc/facts/get" then Ok (PCall "GetFact" [loc; id] false)
  else if String.eqb u "/api/loc/facts/query" then Ok (PCall "Query" [loc; lmap "query" r] false)
  else if String.eqb u "/api/loc/facts/rem" then Ok (PCall "RemFact" [loc; id] false)
  else if String.eqb u "/api/loc/facts/search" then
    Ok (PCall "SearchFacts" [loc; lmap "pattern" r; lbool "inherited" r] false)
  else if String.eqb u "/api/loc/facts/take" then
    Ok (PCall "SearchFacts" [loc; lmap "pattern" r; lbool "inherited" r] true)
  else if String.eqb u "/api/loc/facts/replace" then
    Ok (PSeq (PCall "SearchFacts" [loc; lmap "pattern" r; lbool "inherited" r] true)
             (PCall "AddFact" [loc; id; lmap "fact" r] false))
  else if String.eqb u "/api/loc/parents" then
    match lparam "set" r with
    | Some (LStr s) => Ok (PCall "SetParents" [loc; JStr s] false)
    | _ => Ok (PCall "GetParents" [loc] false)
    end
  else if String.eqb u "/api/loc/rules/add" then Ok (PCall "AddRule" [loc; id; lmap "rule" r] false)
  else if String.eqb u "/api/loc/rules/disable" then Ok (PCall "EnableRule" [loc; id; JBool false] false)
  else if String.eqb u "/api/loc/rules/enable" then Ok (PCall "EnableRule" [loc; id; JBool true] false)
  else if String.eqb u "/api/loc/rules/enabled" then Ok (PCall "RuleEnabled" [loc; id] false)
  else if String.eqb u "/api/loc/rules/list" then Ok (PCall "ListRules" [loc; lbool "inherited" r] false)
  else if String.eqb u "/api/loc/rules/rem" then Ok (PCall "RemRule" [loc; id] false)
  else if String.eqb u "/api/loc/util/js" then Ok (PCall "RunJavascript" [loc; lstr "code" r; JArr []] false)
  else Err "unknown uri".
