(** Model of core/events.go: the work tree of an event (FindRules -> EvalRule
    -> EvalRuleCondition -> ExecRuleAction -> RuleDone) as WorkWalk builds
    and executes it with steps = 0.  Scripts (conditions' code terms and
    actions) take their meaning from the table [sem] (see Query.v).
    Rules found for an event are walked in id order (Go ranges over a map):
    the results are compared as multisets, and outcomes that depend on the
    order (a failing condition or serial action stops the walk and leaves the
    remaining rules unevaluated) are flagged ambiguous when more than one rule
    was dispatched.  Definitions only. *)
From Verif Require Import Json Outcome Match PatIndex State Location Query QueryOps.

(** One executed action (a leaf of the work tree). *)
Record exec_rec := mkExec {
  x_rule : string;           (* rule id *)
  x_code : string;           (* the action's script *)
  x_bs : bindings;           (* the bindings the action was given *)
  x_res : outcome json;      (* its value, or the failure on its node *)
}.

Record walk := mkWalk {
  w_disp : outcome unit;     (* Ok = Complete; otherwise the disposition that stopped the walk *)
  w_execs : list exec_rec;
  w_values : list json;      (* FindRules.Values *)
  w_amb : bool;              (* the outcome depends on Go's map order *)
}.

(** EvalRuleCondition.Do: the bindings every condition and action sees. *)
Definition inject (bs : bindings) (event : json) (locname rid : string) : bindings :=
  let add k v (b : bindings) := match alookup k b with Some _ => b | None => ainsert k v b end in
  add "?ruleId" (JStr rid) (add "?location" (JStr locname) (add "?event" event bs)).

(** Rule accessors (after json.Unmarshal into Rule / CleanRule). *)
Definition rule_actions (body : json) : list json :=
  match jget "actions" body with
  | Some (JArr l) => l
  | _ => match jget "action" body with Some a => [a] | None => [] end
  end.

Definition action_code (a : json) : string :=
  match jget "code" a with
  | Some (JStr s) => s
  | Some (JArr l) => fold_left (fun acc x => String.append acc (String.append (jS x) (String (ascii_of_nat 10) ""))) l ""
  | _ => ""
  end.

Definition rule_serial (body : json) : bool :=
  match jget "policies" body with
  | Some p => jfB "serialActions" p
  | None => false
  end.

Definition rule_schedule (body : json) : string := jfS "schedule" body.

Definition one_shot (schedule : string) : bool :=
  match schedule with
  | String c _ => (Nat.eqb (nat_of_ascii c) 43 || Nat.eqb (nat_of_ascii c) 33)   (* '+' or '!' *)
  | EmptyString => false
  end.

(** Condition syntax as RuleFromJSON checks it (GenericQuery.UnmarshalJSON). *)
Definition condition_ok (sem : string -> option code) (rule : json) : bool :=
  match jget "condition" rule with
  | None | Some JNull => true
  | Some (JObj m) => match parse_query sem (parse_fuel (JObj m)) (JObj m) with Ok _ => true | _ => false end
  | Some _ => false
  end.

(** AddRule for rules with conditions: RuleFromMap fails on a bad condition. *)
Definition loc_add_rule_c (sem : string -> option code) (l : loc) (c : ctx) (e : env) (id : string) (rule : json)
  : loc * outcome string :=
  match run_gates (gates_of "AddRule") l c (e_now e) with
  | (l', Some x) => (l', Err x)
  | (l', None) => if condition_ok sem rule then loc_add_rule l' c e id rule else (l', Err "syntax")
  end.

(** FindRules.Do with the rule bodies: (id, body, when-bindings). *)
Fixpoint find_children_full (l : loc) (rules : list (string * json)) (event : json) (now : Z) (embedded : bool)
         (acc : list (string * json * list bindings))
  : loc * outcome (list (string * json * list bindings)) :=
  match rules with
  | [] => (l, Ok (rev acc))
  | (id, body) :: r =>
      let '(l1, en) := if embedded then (l, true) else rule_enabled l id now in
      if negb en then find_children_full l1 r event now embedded acc
      else match when_pattern body with
           | Some p =>
               match core_match p event [] with
               | Ok [] => find_children_full l1 r event now embedded acc
               | Ok bss => find_children_full l1 r event now embedded ((id, body, bss) :: acc)
               | Err x => (l1, Err "fatal")
               | Panic w => (l1, Panic w)
               | OutOfFuel => (l1, OutOfFuel)
               end
           | None => find_children_full l1 r event now embedded ((id, body, [[]]) :: acc)
           end
  end.

Definition with_loc_e {A} (sy : system) (name : string) (f : loc -> loc * outcome A) : system * outcome A :=
  match sys_get sy name with
  | None => (sy, Err E_noloc)
  | Some l => let '(l', r) := f l in (sys_set sy name l', r)
  end.

Definition find_rules_full (sy : system) (name : string) (c : ctx) (e : env) (sem : string -> option code)
           (event : json) : system * outcome (list (string * json * list bindings)) :=
  match jget "trigger!" event with
  | Some (JStr id) =>
      match with_loc_e sy name (fun l => loc_get_rule l c e id) with
      | (sy1, Ok body) =>
          if negb (condition_ok sem body) then (sy1, Err "nonfatal") else
          match rule_from_map body with
          | Ok _ => with_loc_e sy1 name (fun l => find_children_full l [(id, body)] event (e_now e) false [])
          | _ => (sy1, Err "nonfatal")
          end
      | (sy1, Err x) => (sy1, Err x)   (* GetRule's error (its message is the disposition) *)
      | (sy1, Panic w) => (sy1, Panic w)
      | (sy1, OutOfFuel) => (sy1, OutOfFuel)
      end
  | Some _ => (sy, Err "fatal")
  | None =>
      match jget "evaluate!" event with
      | Some (JObj m) =>
          if negb (condition_ok sem (JObj m)) then (sy, Err "nonfatal") else
          match rule_from_map (JObj m) with
          | Ok _ => with_loc_e sy name (fun l => find_children_full l [("embedded", JObj m)] event (e_now e) true [])
          | _ => (sy, Err "nonfatal")
          end
      | Some _ => (sy, Err "fatal")
      | None =>
          let '(sy1, _, r) :=
            do_ancestors _ (fun _ l => loc_rules_local l c e event) (anc_fuel sy) sy name (e_now e) [] [] [] in
          match r with
          | Ok groups =>
              match merge_rules groups [] with
              | Ok rules =>
                  (* RuleFromMap fails on a condition that does not parse: such a candidate is logged and
                     skipped (repair of D53; it used to fail the whole event) *)
                  let rules := filter (fun kv => condition_ok sem (snd kv)) rules in
                  with_loc_e sy1 name (fun l => find_children_full l rules event (e_now e) false [])
              | Err x => (sy1, Err x)
              | Panic w => (sy1, Panic w)
              | OutOfFuel => (sy1, OutOfFuel)
              end
          | Err x => (sy1, Err x)
          | Panic w => (sy1, Panic w)
          | OutOfFuel => (sy1, OutOfFuel)
          end
      end
  end.

Section Walk.
  Variable sem : string -> option code.
  Variable name : string.
  Variable c : ctx.
  Variable e : env.
  Variable event : json.

  (** ExecRuleAction.Do *)
  Definition exec_action (rid : string) (bs : bindings) (a : json) : exec_rec :=
    let js := action_code a in
    let endpoint := match jget "endpoint" a with Some (JStr s) => s | _ => "" end in
    mkExec rid js bs
           (if negb (String.eqb endpoint "" || String.eqb endpoint "javascript")
            then Err "endpoint not modelled"
            else match sem js with
                 | Some cd => run_code cd bs
                 | None => Err "unknown script"
                 end).

  (** The actions of one (rule, condition result): concurrently = all of
      them; serially = up to and including the first failure. *)
  Fixpoint run_actions (serial : bool) (rid : string) (bs : bindings) (acts : list json)
    : list exec_rec * bool (* stopped by a failure *) :=
    match acts with
    | [] => ([], false)
    | a :: r =>
        let x := exec_action rid bs a in
        match x_res x with
        | Ok _ => let '(xs, st) := run_actions serial rid bs r in (x :: xs, st)
        | _ => if serial then ([x], true)
               else let '(xs, st) := run_actions serial rid bs r in (x :: xs, st)
        end
    end.

  (** for each condition result, for each action *)
  Fixpoint run_results (serial : bool) (rid : string) (results : list bindings) (acts : list json)
    : list exec_rec * bool :=
    match results with
    | [] => ([], false)
    | bs :: r =>
        let '(xs, st) := run_actions serial rid bs acts in
        if st then (xs, true)
        else let '(ys, st') := run_results serial rid r acts in ((xs ++ ys)%list, st')
    end.

  (** EvalRuleCondition.Do + actions, for each when-binding of one rule.
      Returns the executions, and Some disposition if the walk must stop. *)
  Fixpoint walk_conditions (sy : system) (rid : string) (body : json) (bss : list bindings)
    : system * list exec_rec * option (outcome unit) :=
    match bss with
    | [] => (sy, [], None)
    | bs :: r =>
        let bs' := inject bs event name rid in
        let '(sy1, qres) :=
          match jget "condition" body with
          | None | Some JNull => (sy, Ok [bs'])
          | Some q =>
              match parse_query sem (parse_fuel q) q with
              | Ok pq => exec system (sys_search_locs name c e) sem pq sy [bs']
              | Err x => (sy, Err x)
              | Panic w => (sy, Panic w)
              | OutOfFuel => (sy, OutOfFuel)
              end
          end in
        match qres with
        | Ok results =>
            let '(xs, stopped) := run_results (rule_serial body) rid results (rule_actions body) in
            if stopped then (sy1, xs, Some (Err (if (1 <? length results)%nat then "action failed*" else "action failed")))
            else let '(sy2, ys, st) := walk_conditions sy1 rid body r in (sy2, (xs ++ ys)%list, st)
        | Err x => (sy1, [], Some (Err "condition failed"))
        | Panic w => (sy1, [], Some (Panic w))
        | OutOfFuel => (sy1, [], Some OutOfFuel)
        end
    end.

  (** RuleDone.Do *)
  Definition rule_done (sy : system) (rid : string) (body : json) : system * option (outcome unit) :=
    if one_shot (rule_schedule body) then
      match with_loc_e sy name (fun l => loc_rem_rule l c e rid) with
      | (sy', Ok _) => (sy', None)
      | (sy', Err x) => (sy', Some (Err x))
      | (sy', Panic w) => (sy', Some (Panic w))
      | (sy', OutOfFuel) => (sy', Some OutOfFuel)
      end
    else (sy, None).

  Fixpoint walk_rules (sy : system) (children : list (string * json * list bindings))
    : system * list exec_rec * option (outcome unit) :=
    match children with
    | [] => (sy, [], None)
    | (rid, body, bss) :: r =>
        match walk_conditions sy rid body bss with
        | (sy1, xs, Some d) => (sy1, xs, Some d)
        | (sy1, xs, None) =>
            match rule_done sy1 rid body with
            | (sy2, Some d) => (sy2, xs, Some d)
            | (sy2, None) =>
                let '(sy3, ys, st) := walk_rules sy2 r in (sy3, (xs ++ ys)%list, st)
            end
        end
    end.
End Walk.

Definition values_of (xs : list exec_rec) : list json :=
  flat_map (fun x => match x_res x with Ok v => [v] | _ => [] end) xs.

(** Location.ProcessEvent *)
Definition process_event (sy : system) (name : string) (c : ctx) (e : env) (sem : string -> option code)
           (event : json) : system * walk :=
  match sys_get sy name with
  | None => (sy, mkWalk (Err E_noloc) [] [] false)
  | Some _ =>
      match find_rules_full sy name c e sem event with
      | (sy1, Ok children) =>
          let '(sy2, xs, st) := walk_rules sem name c e event sy1 children in
          (sy2, mkWalk (match st with None => Ok tt | Some d => d end) xs (values_of xs)
                       (match st with
                        | None => false
                        | Some d => (1 <? fold_left (fun n ch => (n + length (snd ch))%nat) children O)%nat ||
                                    match d with Err x => String.eqb x "action failed*" | _ => false end
                        end))
      | (sy1, Err x) => (sy1, mkWalk (Err x) [] [] false)
      | (sy1, Panic w) => (sy1, mkWalk (Panic w) [] [] false)
      | (sy1, OutOfFuel) => (sy1, mkWalk OutOfFuel [] [] false)
      end
  end.

(** Specification of C04: the executions that must happen, written from the
    property text, over a pure condition semantics [cond rid body bs] (the
    list of condition results for one when-binding). *)
Definition spec_execs (cond : string -> json -> bindings -> list bindings)
           (children : list (string * json * list bindings)) : list (string * string * bindings) :=
  flat_map (fun ch =>
              let '(rid, body, bss) := ch in
              flat_map (fun bw =>
                          flat_map (fun bc => map (fun a => (rid, action_code a, bc)) (rule_actions body))
                                   (cond rid body bw)) bss) children.
