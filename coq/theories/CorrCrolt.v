(** Correspondence checker for the domain "crolt": the real crolt service
    (package main, driven as a child process through the verif-tagged line
    driver) against the model of Crolt.v.  After every operation the harness
    scans all buckets; the checker replays the operation through the model and
    compares every bucket key for key (in Bolt's order), then judges the
    observed scans by the specification ([judge]). *)
From Verif Require Import Json Outcome Crolt.

Definition msz : Z := 1000000.
Definition bmargin : Z := 5 * msz.

(** * Projections of entries *)

Definition opt_tid_at (t : option tkey) : Z := match t with Some k => fst k | None => 0 end.
Definition opt_tid_aid (t : option tkey) : string := match t with Some k => snd k | None => "" end.

Definition view (account id : string) (once evict : bool) (tid_at : Z) (tid_aid : string) : json :=
  JObj [("account", JStr account); ("evict", JBool evict); ("id", JStr id); ("once", JBool once);
        ("tid_aid", JStr tid_aid); ("tid_at", JNum tid_at)].

Definition view_model (j : bjob) : json :=
  view (b_account j) (b_id j) (b_once j) (b_evict j) (opt_tid_at (b_tid j)) (opt_tid_aid (b_tid j)).
Definition view_obs (o : json) : json :=
  view (jfS "account" o) (jfS "id" o) (jfB "once" o) (jfB "evict" o) (jfZ "tid_at" o) (jfS "tid_aid" o).

Definition jobs_entry (aid : string) (v : json) : json := JObj [("aid", JStr aid); ("job", v)].
Definition time_entry (k : tkey) (v : json) : json :=
  JObj [("job", v); ("key_aid", JStr (snd k)); ("key_at", JNum (fst k))].

Definition in_part (c : crolt) (p : Z) (j : bjob) : bool := partition (b_account j) (c_parts c) =? p.

Definition model_jobs (c : crolt) (p : Z) : list json :=
  map (fun kv => jobs_entry (fst kv) (view_model (snd kv))) (filter (fun kv => in_part c p (snd kv)) (c_jobs c)).
Definition model_time (c : crolt) (p : Z) : list json :=
  map (fun kv => time_entry (fst kv) (view_model (snd kv))) (filter (fun kv => in_part c p (snd kv)) (c_time c)).

Definition bucket (scan : json) (base : string) (p : Z) : list json :=
  jfL (String.append base (Z_to_string p)) (jget_d "buckets" scan).

Definition obs_jobs (scan : json) (p : Z) : list json :=
  map (fun o => jobs_entry (jfS "key" o) (view_obs o)) (bucket scan "jobs" p).
Definition obs_key (o : json) : tkey := (jfZ "key_at" o, jfS "key_aid" o).
Definition obs_time (scan : json) (p : Z) : list json :=
  map (fun o => time_entry (obs_key o) (view_obs o)) (bucket scan "time" p).

Fixpoint zseq (from : Z) (n : nat) : list Z :=
  match n with O => [] | S n' => from :: zseq (from + 1) n' end.
Definition parts_of (c : crolt) : list Z := zseq 0 (Z.to_nat (c_parts c)).

Definition jl_eqb (a b : list json) : bool := list_eqb json_eqb a b.

(** First bucket that differs, with the model's content. *)
Fixpoint scan_diff (c : crolt) (scan : json) (ps : list Z) : option (string * json) :=
  match ps with
  | [] => None
  | p :: r =>
      if negb (jl_eqb (model_jobs c p) (obs_jobs scan p))
      then Some (String.append "jobs" (Z_to_string p), JArr (model_jobs c p))
      else if negb (jl_eqb (model_time c p) (obs_time scan p))
      then Some (String.append "time" (Z_to_string p), JArr (model_time c p))
      else scan_diff c scan r
  end.

(** * Replay *)

Definition client_job (o : json) : bjob :=
  mkB (jfS "account" o) (jfS "id" o) (jfS "kind" o) (jfB "once" o) (jfB "evict" o)
      (if String.eqb (jfS "tid" o) "" then None
       else Some (jfZ "tid_in_at" o, jfS "tid_in_aid" o)).

Definition cls {A} (r : outcome A) : string :=
  match r with Ok _ => "" | Err e => e | Panic _ => "panic" | OutOfFuel => "outoffuel" end.

Definition lookup_new_at (scan : json) (c : crolt) (aid : string) : Z :=
  let all := flat_map (fun p => bucket scan "jobs" p) (parts_of c) in
  match filter (fun o => String.eqb (jfS "key" o) aid) all with
  | o :: _ => jfZ "tid_at" o
  | [] => 0
  end.

(** Entries of the snapshot that fire: up to the first eviction. *)
Fixpoint firing_prefix (snap : list (tkey * bjob)) : list (tkey * bjob) :=
  match snap with
  | [] => []
  | (k, j) :: r => if b_evict j then [] else (k, j) :: firing_prefix r
  end.

Record bres := mkBRes {
  r_c : crolt;
  r_fail : option (Z * string * json);
  r_amb : Z;
  r_feats : list string;
  r_blind : bool;
  r_steal : bool    (* an Add carried the tid of another job (ignored since the repair of D40) *)
}.

Definition near (at_ t0 t1 : Z) : bool := (t0 - bmargin <=? at_) && (at_ <=? t1 + bmargin).

Definition replay_op (k : Z) (r : bres) (o : json) : bres :=
  match r_fail r with Some _ => r | None =>
  let c := r_c r in
  let op := jfS "op" o in
  let res := jget_d "res" o in
  let scan := jget_d "scan" o in
  let finish (c' : crolt) (fs : list string) (amb : bool) (steal : bool) : bres :=
    let blind := r_blind r || amb in
    let namb := if amb && negb (r_blind r) then r_amb r + 1 else r_amb r in
    if blind then mkBRes c' None namb (r_feats r) true (r_steal r || steal)
    else match scan_diff c' scan (parts_of c') with
         | Some (b, m) => mkBRes c' (Some (k, String.append (String.append op ": bucket differs: ") b, m))
                                 namb (r_feats r) false (r_steal r || steal)
         | None => mkBRes c' None namb (fs ++ r_feats r)%list false (r_steal r || steal)
         end in
  let failv why m := if r_blind r then mkBRes c None (r_amb r) (r_feats r) true (r_steal r)
                     else mkBRes c (Some (k, why, m)) (r_amb r) (r_feats r) false (r_steal r) in
  if String.eqb op "add" then
    let j := client_job o in
    let '(c', out) := c_add c j (jfZ "at" res) in
    if negb (String.eqb (cls out) (jfS "err" res)) then failv "Add: error class differs" (JStr (cls out))
    else
      let steal := match b_tid j with
                   | Some t => match tlookup t (c_time c) with
                               | Some j' => negb (String.eqb (aid_of j') (aid_of j))
                               | None => false
                               end
                   | None => false
                   end in
      finish c' [match out with Ok _ => String.append "add-" (jfS "kind" o) | _ => String.append "add-err-" (cls out) end;
                 if steal then "add-foreign-tid" else "";
                 if jfB "evict" o then "add-client-evict" else "";
                 if jfB "once" o then "add-client-once" else ""] false (steal && match out with Ok _ => true | _ => false end)
  else if String.eqb op "delete" then
    let '(c', out) := c_delete c (jfS "account" o) (jfS "id" o) in
    if negb (String.eqb (cls out) (jfS "err" res)) then failv "Delete: error class differs" (JStr (cls out))
    else finish c' [match gen_aid (jfS "account" o) (jfS "id" o) with
                    | Ok aid => match alookup aid (c_jobs c) with Some _ => "delete-found" | None => "delete-missing" end
                    | _ => "delete-err"
                    end] false false
  else if String.eqb op "deleteAccount" then
    if negb (String.eqb (jfS "err" res) "") then failv "DeleteAccount: error" JNull
    else let c' := c_delete_account c (jfS "account" o) in
         finish c' [if (length (c_jobs c') <? length (c_jobs c))%nat then "deleteAccount-some" else "deleteAccount-none"] false false
  else if String.eqb op "work" then
    let part := jfZ "partn" o in
    let t0 := jfZ "t0" res in
    let t1 := jfZ "t1" res in
    let inpart := filter (fun kv => in_part c part (snd kv)) (c_time c) in
    let s0 := due_snapshot c part t0 in
    let s1 := due_snapshot c part t1 in
    let amb := negb (list_eqb tkey_eqb (map fst s0) (map fst s1))
               || existsb (fun kv => near (fst (fst kv)) t0 t1) inpart in
    let ats := map (fun kv => lookup_new_at scan c (aid_of (snd kv))) (firing_prefix s0) in
    let '(c', fs, out) := c_work c part t0 ats in
    if negb amb && negb (String.eqb (cls out) (jfS "err" res)) then failv "work: error class differs" (JStr (cls out))
    else finish c'
           [match s0 with [] => "work-idle" | _ => "work-due" end;
            if existsb (fun f => fd_once f) fs then "fire-oneshot" else "";
            if existsb (fun f => negb (fd_once f)) fs then "fire-recurring" else "";
            if existsb (fun kv => b_evict (snd kv)) s0 then "evict" else "";
            if (10 <=? length s0)%nat then "work-limit-10" else "";
            if existsb (fun kv => key_due (fst kv) t0 && (fst (fst kv) mod Crolt.sec =? 0)
                                  && (fst (fst kv) / Crolt.sec =? t0 / Crolt.sec)) inpart
            then "whole-second-key-due-in-its-second" else ""]
           amb false
  else if String.eqb op "reopen" then
    if negb (String.eqb (jfS "err" res) "") then failv "reopen: error" JNull
    else finish (c_reopen c) ["reopen"] false false
  else failv (String.append "unknown op " op) JNull
  end.

Fixpoint replay (k : Z) (r : bres) (ops : list json) : bres :=
  match ops with
  | [] => r
  | o :: rest => replay (k + 1) (replay_op k r o) rest
  end.

(** * The specification, judged on the observed scans *)

Definition all_entries (scan : json) (base : string) (ps : list Z) : list (Z * json) :=
  flat_map (fun p => map (fun o => (p, o)) (bucket scan base p)) ps.

Definition jobs_lookup (es : list (Z * json)) (aid : string) : option (Z * json) :=
  match filter (fun e => String.eqb (jfS "key" (snd e)) aid) es with x :: _ => Some x | [] => None end.
Definition time_lookup (es : list (Z * json)) (key : string) : option (Z * json) :=
  match filter (fun e => String.eqb (jfS "key" (snd e)) key) es with x :: _ => Some x | [] => None end.

Definition obs_aid (o : json) : string :=
  String.append (jfS "account" o) (String.append "," (jfS "id" o)).

(** buckets_consistent on one scan: every job has its time entry (same
    bucket number, same value) under its TId, every time entry is the TId of
    its job, and every entry sits in the partition of its account. *)
Definition consistent_scan (parts : Z) (scan : json) : bool :=
  let ps := zseq 0 (Z.to_nat parts) in
  let js := all_entries scan "jobs" ps in
  let ts := all_entries scan "time" ps in
  forallb (fun e =>
             let o := snd e in
             String.eqb (jfS "key" o) (obs_aid o) &&
             (partition (jfS "account" o) parts =? fst e) &&
             match time_lookup ts (jfS "tid" o) with
             | Some (p, t) => (p =? fst e) && json_eqb (view_obs t) (view_obs o)
             | None => false
             end) js &&
  forallb (fun e =>
             let o := snd e in
             String.eqb (jfS "key" o) (jfS "tid" o) &&
             match jobs_lookup js (obs_aid o) with
             | Some (p, j) => (p =? fst e) && String.eqb (jfS "tid" j) (jfS "key" o)
             | None => false
             end) ts.

Definition scan_eqb (parts : Z) (a b : json) : bool :=
  let ps := zseq 0 (Z.to_nat parts) in
  forallb (fun p => jl_eqb (obs_jobs a p) (obs_jobs b p) && jl_eqb (obs_time a p) (obs_time b p)) ps.

(** The job entries of a scan outside a set of aids are the same in both. *)
Definition same_except (parts : Z) (keep : json -> bool) (a b : json) : bool :=
  let ps := zseq 0 (Z.to_nat parts) in
  forallb (fun p =>
             jl_eqb (map view_obs (filter keep (bucket a "jobs" p))) (map view_obs (filter keep (bucket b "jobs" p))) &&
             jl_eqb (map view_obs (filter keep (bucket a "time" p))) (map view_obs (filter keep (bucket b "time" p)))) ps.

Definition first_fail (l : list (string * string * bool)) : option (string * string) :=
  match filter (fun x => negb (snd x)) l with
  | (op, why, _) :: _ => Some (op, why)
  | [] => None
  end.

(** The entry with the smallest instant. *)
Fixpoint earliest (l : list json) : option json :=
  match l with
  | [] => None
  | e :: r => match earliest r with
              | Some e' => if jfZ "key_at" e' <? jfZ "key_at" e then Some e' else Some e
              | None => Some e
              end
  end.

Fixpoint sorted_by_at (l : list json) : bool :=
  match l with
  | [] => true
  | e :: r => match r with
              | [] => true
              | e' :: _ => (jfZ "key_at" e <=? jfZ "key_at" e') && sorted_by_at r
              end
  end.

(** Judging one work call: every entry of the partition's time bucket before
    the call either is unchanged, or fired (new TId), or was evicted. *)
Definition judge_work (parts ttl : Z) (o prev scan : json) : list (string * string * bool) :=
  let part := jfZ "partn" o in
  let res := jget_d "res" o in
  let t0 := jfZ "t0" res in
  let t1 := jfZ "t1" res in
  let ps := zseq 0 (Z.to_nat parts) in
  let js := all_entries scan "jobs" ps in
  let before := bucket prev "time" part in
  let changed := filter (fun e => match jobs_lookup js (obs_aid e) with
                                  | Some (_, j) => negb (String.eqb (jfS "tid" j) (jfS "key" e))
                                  | None => true
                                  end) before in
  flat_map (fun e =>
     match jobs_lookup js (obs_aid e) with
     | None =>
         [("oneshot_evicted_after_ttl", "an entry that was not marked evict disappeared in work", jfB "evict" e);
          ("work_fires_due_only", "an entry was evicted before its instant", jfZ "key_at" e <=? t1)]
     | Some (_, j) =>
         if String.eqb (jfS "tid" j) (jfS "key" e) then [] else
         [("work_fires_due_only", "an entry fired before its due instant", jfZ "key_at" e <=? t1);
          ("oneshot_fires_once", "an entry already marked evict fired again", negb (jfB "evict" e));
          ("oneshot_evicted_after_ttl", "a one-shot that fired is not marked evict with instant >= now + TTL",
           if jfB "once" e then jfB "evict" j && (t0 + ttl <=? jfZ "tid_at" j) else negb (jfB "evict" j));
          ("work_reschedules_later", "a fired entry was not moved to a later instant", t0 <=? jfZ "tid_at" j)]
     end) before
  ++ [("work_other_partitions_untouched", "work changed an entry of another partition or account",
       same_except parts (fun e => negb (partition (jfS "account" e) parts =? part)) prev scan);
      ("work_at_most_10", "more than 10 entries handled in one work call", (length changed <=? 10)%nat);
      ("work_progress", "work handled nothing although an entry is due for more than a second",
       if existsb (fun e => jfZ "key_at" e + Crolt.sec <=? t0) before
       then negb (length changed =? 0)%nat else true);
      ("work_serves_earliest_due", "the entry with the earliest instant was due and was neither fired nor evicted",
       match earliest before with
       | Some e => if jfZ "key_at" e + bmargin <=? t0
                   then existsb (fun x => String.eqb (jfS "key" x) (jfS "key" e)) changed else true
       | None => true
       end)]%list.

Fixpoint judge_ops (parts ttl : Z) (prev : json) (ops : list json) : list (string * string * bool) :=
  match ops with
  | [] => []
  | o :: rest =>
      let scan := jget_d "scan" o in
      let res := jget_d "res" o in
      let op := jfS "op" o in
      let ps := zseq 0 (Z.to_nat parts) in
      let js := all_entries scan "jobs" ps in
      let ts := all_entries scan "time" ps in
      let has_aid aid := existsb (fun e => String.eqb (obs_aid (snd e)) aid) (js ++ ts)%list in
      (("buckets_consistent", String.append "jobs and time buckets disagree after " op, consistent_scan parts scan)
       :: ("time_keys_in_time_order", "the keys of a time bucket are not in the order of their instants",
           forallb (fun p => sorted_by_at (bucket scan "time" p)) ps)
       :: (if String.eqb op "add" then
             let aid := obs_aid o in
             if String.eqb (jfS "err" res) "" then
               [("add_stores_job", "the added job is not stored under its instant",
                 match jobs_lookup js aid with
                 | Some (_, j) => jfZ "tid_at" j =? jfZ "at" res
                 | None => false
                 end);
                ("add_touches_only_its_job", "Add changed another job",
                 same_except parts (fun e => negb (String.eqb (obs_aid e) aid)) prev scan)]
             else [("refused_add_no_effect", "a refused Add changed the buckets", scan_eqb parts prev scan)]
           else if String.eqb op "delete" then
             let aid := obs_aid o in
             [("delete_removes_both", "the deleted job is still in a bucket",
               if String.eqb (jfS "err" res) "" then negb (has_aid aid) else true);
              ("delete_touches_only_its_job", "Delete changed another job",
               same_except parts (fun e => negb (String.eqb (obs_aid e) aid)) prev scan)]
           else if String.eqb op "deleteAccount" then
             let acc := jfS "account" o in
             [("delete_removes_both", "a job of the deleted account is still in a bucket",
               negb (existsb (fun e => String.eqb (jfS "account" (snd e)) acc) (js ++ ts)%list));
              ("delete_touches_only_its_job", "DeleteAccount changed another account",
               same_except parts (fun e => negb (String.eqb (jfS "account" e) acc)) prev scan)]
           else if String.eqb op "work" then judge_work parts ttl o prev scan
           else if String.eqb op "reopen" then
             [("reopen_preserves", "the buckets differ after closing and re-opening the file", scan_eqb parts prev scan)]
           else [])
       ++ judge_ops parts ttl scan rest)%list
  end.

Definition empty_scan : json := JObj [("buckets", JObj [])].

Definition check_crolt (c : json) : json :=
  match jget "build_error" c with
  | Some (JStr e) =>
      JObj [("ok", JBool false); ("at", JNull); ("why", JStr (String.append "driver build/run failed: " e));
            ("model", JNull); ("spec_ok", JBool true); ("spec_op", JStr ""); ("spec_why", JStr "");
            ("kf", JArr []); ("features", JArr []); ("nontrivial", JBool false); ("ambiguous", JNum 0)]
  | _ =>
  let parts := jfZ "partitions" c in
  let ttl := jfZ "ttl_ms" c * msz in
  let ops := jfL "ops" c in
  let r := replay 0 (mkBRes (crolt_init parts) None 0 [] false false) ops in
  let j := first_fail (judge_ops parts ttl empty_scan ops) in
  (* D40 and D39 are repaired: their clauses (buckets_consistent after an Add
     with a foreign TId; time_keys_in_time_order, work_serves_earliest_due,
     work_fires_due_only) are plain spec failures *)
  let kf : list string := [] in
  let feats := filter (fun f => negb (String.eqb f "")) (dedup_str (r_feats r)) in
  JObj [("ok", JBool (match r_fail r with None => true | Some _ => false end));
        ("at", match r_fail r with Some (k, _, _) => JNum k | None => JNull end);
        ("why", match r_fail r with Some (_, w, _) => JStr w | None => JStr "" end);
        ("model", match r_fail r with Some (_, _, m) => m | None => JNull end);
        ("spec_ok", JBool (match j with None => true | Some _ => false end));
        ("spec_op", match j with Some (op, _) => JStr op | None => JStr "" end);
        ("spec_why", match j with Some (_, w) => JStr w | None => JStr "" end);
        ("kf", jstrs_of kf);
        ("features", jstrs_of feats);
        ("nontrivial", JBool (existsb (fun f => has_prefix "fire-" f || String.eqb f "evict") feats));
        ("ambiguous", JNum (r_amb r))]
  end.
