(** Correspondence checker for the throttle domain: one observed schedule of
    Submit / Disable on a real core.Throttle (over a real OutboundBreaker) is
    replayed through the event system of Breaker.v ([tstep2]: [submit_enter],
    [submit_exit], [set_disabled]).

    The observation: submissions are launched one after another (each from
    its own goroutine, a settle delay after each launch); for each one the
    harness records the instant just before Submit was called ([tb]), the
    instant just after it returned ([ta]), what it returned and how often the
    submitted function ran.  Entries are therefore totally ordered; an exit is
    ordered against an entry by its return instant, with a margin: an exit
    whose return instant lies within [margin] of a launch may have happened
    before or after that entry.  Such an entry is compared with the model only
    if both orders predict the same outcome (otherwise it is counted as
    ambiguous and the order that explains the observation is taken).

    [ok]: the model predicts every (unambiguous) entry outcome, the pending
    counter read at every drain, that a successful Submit returns the
    function's own result, and that an exhausted Submit has slept its pauses.
    [spec_ok]: judged on the observation alone -- never more than
    pendingLimit+1 submissions certainly in flight when one more is admitted;
    every function ran at most once, exactly once iff Submit reported that it
    worked, never when Submit returned ThrottleOverflow / ThrottleExhausted.
    Definitions only. *)
From Verif Require Import Json Breaker.

Fixpoint exits (n : nat) (s : tstate) : tstate :=
  match n with O => s | S k => exits k (tstep2 s (TEv TExit)) end.

Record cst := mkC {
  c_s : tstate;                               (* the model *)
  c_fl : list (Z * Z);                        (* admitted, exit not replayed yet: (op index, return instant) *)
  c_err : option (Z * string * string);       (* first difference: at, why, what the model said *)
  c_spec : option (Z * string * string);      (* first spec failure: at, why, clause *)
  c_feats : list string;
  c_notes : list string;
  c_amb : Z;
  c_k : Z;                                    (* index of the current op *)
  c_run : Z;                                  (* overflows in a row just before *)
  c_drained : bool
}.

Definition first_of {A} (a b : option A) : option A := match a with Some _ => a | None => b end.

Definition worked (res : string) : bool := String.eqb res "nil" || String.eqb res "ferr".

Definition bstr (b : bool) : string := if b then "admitted" else "overflow".

Definition when {A} (b : bool) (x : A) : list A := if b then [x] else [].

Definition step_submit (P M pause attempts : Z) (st : cst) (o : json) : cst :=
  let tb := jfZ "tb" o in
  let ta := jfZ "ta" o in
  let res := jfS "result" o in
  let runs := jfZ "runs" o in
  let k := c_k st in
  let pre := filter (fun x => snd x <? tb - M) (c_fl st) in
  let win := filter (fun x => (tb - M <=? snd x) && (snd x <=? tb + M)) (c_fl st) in
  let rest := filter (fun x => tb + M <? snd x) (c_fl st) in
  let s1 := exits (length pre) (c_s st) in
  let sB0 := exits (length win) s1 in
  let pA := enter_admits s1 in            (* the exits of the window come after this entry *)
  let pB := enter_admits sB0 in           (* ... or before it *)
  let adm := negb (String.eqb res "overflow") in
  let certain := Bool.eqb pA pB in
  let s' := if Bool.eqb pA adm then exits (length win) (tstep2 s1 (TEv TEnter))
            else tstep2 sB0 (TEv TEnter) in
  let nrest := Z.of_nat (length rest) in
  let nmay := Z.of_nat (length win) + nrest in
  let dis := t_disabled (ts_thr s1) in
  let err :=
    if certain && negb (Bool.eqb pA adm) then
      Some (k, "entry outcome differs from the model", bstr pA)
    else if String.eqb res "stuck" then Some (k, "Submit did not return", "returns")
    else if worked res && negb (Bool.eqb (String.eqb res "ferr") (jfB "err" o)) then
      Some (k, "a successful Submit did not return the function's own result", "the function's result")
    else if String.eqb res "exhausted" && (ta - tb <? attempts * pause) then
      Some (k, "ThrottleExhausted before attempts pauses had elapsed", "attempts polls, a pause after each")
    else None in
  let spec :=
    if adm && (P + 1 <? nrest + 1) then
      Some (k, String.append "admitted while "
                 (String.append (Z_to_string nrest) " earlier submissions were still in flight (more than pendingLimit+1 waiting)"),
            "throttle-bound")
    else if 1 <? runs then Some (k, "the submitted function ran more than once", "throttle-once")
    else if worked res && negb (runs =? 1) then
      Some (k, "Submit reported success but the function did not run", "throttle-once")
    else if (String.eqb res "overflow" || String.eqb res "exhausted") && negb (runs =? 0) then
      Some (k, "the function ran although Submit returned ThrottleOverflow/ThrottleExhausted", "throttle-once")
    else if String.eqb res "other" then
      Some (k, "Submit returned an error that is neither the function's nor a throttle condition", "throttle-once")
    else None in
  let feats :=
    ([if adm then "admitted" else "overflow"] ++
     when (adm && (nrest + 1 =? P + 1)) "at-limit" ++
     when (adm && (nrest + 1 =? P + 1) && c_drained st) "at-limit-after-drain" ++
     when (negb adm && (1 <=? c_run st)) "overflow-run" ++
     when ((1 <=? c_run st) && (1 <=? nrest)) "submit-after-overflow-in-flight" ++
     when ((2 <=? c_run st) && (P + 1 <=? nrest)) "probe-after-overflow-run-at-limit" ++
     when (String.eqb res "ferr") "ferr" ++
     when (String.eqb res "exhausted") "exhausted" ++
     when (worked res && (ta - tb <? pause)) "worked-at-once" ++
     when (worked res && (pause <=? ta - tb) && negb (jfB "hold" o)) "worked-after-polling" ++
     when (jfB "hold" o) "hold" ++
     when (negb certain) "ambiguous-entry" ++
     when (negb (length win =? 0)%nat) "exit-near-launch" ++
     when (dis && negb adm) "disabled-leak" ++
     when (dis && adm) "disabled-admitted")%list in
  let notes :=
    when (negb adm && (nmay <? P + 1))
         (String.append "op " (String.append (Z_to_string k)
            ": ThrottleOverflow although fewer than pendingLimit+1 submissions can be waiting (the counter leaked while disabled)")) in
  mkC s' (rest ++ when adm (k, ta))%list
      (first_of (c_err st) err) (first_of (c_spec st) spec)
      (feats ++ c_feats st)%list (c_notes st ++ notes)%list
      (if certain then c_amb st else c_amb st + 1)
      (k + 1) (if adm then 0 else c_run st + 1) (c_drained st).

Definition step_drain (st : cst) (o : json) : cst :=
  let s' := exits (length (c_fl st)) (c_s st) in
  let mp := t_pending (ts_thr s') in
  let err := if mp =? jfZ "pending" o then None
             else Some (c_k st, "pending counter after the drain differs from the model", Z_to_string mp) in
  mkC s' [] (first_of (c_err st) err) (c_spec st)
      (("drain" :: when (negb (mp =? 0)) "pending-left-after-drain") ++ c_feats st)%list (c_notes st)
      (c_amb st) (c_k st + 1) 0 true.

Definition step_disable (st : cst) (o : json) : cst :=
  let d := jfB "on" o in
  mkC (tstep2 (c_s st) (TDisable d)) (c_fl st) (c_err st) (c_spec st)
      ((if d then "disable" else "enable") :: c_feats st) (c_notes st)
      (c_amb st) (c_k st + 1) (c_run st) (c_drained st).

Definition step_other (st : cst) (o : json) : cst :=
  mkC (c_s st) (c_fl st) (c_err st) (c_spec st) (jfS "op" o :: c_feats st) (c_notes st)
      (c_amb st) (c_k st + 1) (c_run st) (c_drained st).

Definition step_throttle (P M pause attempts : Z) (st : cst) (o : json) : cst :=
  let op := jfS "op" o in
  if String.eqb op "submit" then step_submit P M pause attempts st o
  else if String.eqb op "drain" then step_drain st o
  else if String.eqb op "disable" then step_disable st o
  else step_other st o.

Definition check_throttle (c : json) : json :=
  let P := jfZ "plimit" c in
  let attempts := jfZ "attempts" c in
  let pause := jfZ "pause" c in
  let M := jfZ "margin" c in
  let st0 := mkC (fresh_throttle P (Z.to_nat attempts) false) [] None None [] [] 0 0 0 false in
  let st := fold_left (step_throttle P M pause (Z.max 0 attempts)) (jfL "ops" c) st0 in
  let feats := dedup_str (c_feats st) in
  JObj [("ok", JBool (match c_err st with None => true | Some _ => false end));
        ("at", match c_err st with Some (k, _, _) => JNum k | None => JNull end);
        ("why", JStr (match c_err st with Some (_, w, _) => w | None => "" end));
        ("model", match c_err st with Some (_, _, m) => JStr m | None => JNull end);
        ("spec_ok", JBool (match c_spec st with None => true | Some _ => false end));
        ("spec_at", match c_spec st with Some (k, _, _) => JNum k | None => JNull end);
        ("spec_why", JStr (match c_spec st with Some (_, w, _) => w | None => "" end));
        ("spec_op", JStr (match c_spec st with Some (_, _, op) => op | None => "throttle" end));
        ("kf", JArr []);
        ("notes", jstrs_of (c_notes st));
        ("features", jstrs_of feats);
        ("nontrivial", JBool (mem_str "overflow" feats || mem_str "at-limit" feats));
        ("ambiguous", JNum (c_amb st))].
