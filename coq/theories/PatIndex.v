(** Model of core/patternindex.go (PatternIndex: the trie that finds the
    rules whose `when` may match an event) as it is in /repo after the
    fix: commits for D1 (ids of the node itself when the pairs are
    exhausted), D4 (array variables before sorted constants) and D5
    (booleans are ordered).  Model file: definitions only. *)
From Verif Require Import Json Outcome.

Inductive pnode : Type :=
| PN (strs : list (string * pnode)) (pvar : option pnode) (pmap : option pnode) (ids : list string).

Definition pn_empty : pnode := PN [] None None [].
Definition pn_strs (n : pnode) := match n with PN s _ _ _ => s end.
Definition pn_var (n : pnode) := match n with PN _ v _ _ => v end.
Definition pn_map (n : pnode) := match n with PN _ _ m _ => m end.
Definition pn_ids (n : pnode) := match n with PN _ _ _ i => i end.
Definition pn_set_str (n : pnode) (k : string) (c : pnode) : pnode :=
  match n with PN s v m i => PN (ainsert k c s) v m i end.
Definition pn_set_var (n : pnode) (c : pnode) : pnode :=
  match n with PN s _ m i => PN s (Some c) m i end.
Definition pn_set_map (n : pnode) (c : pnode) : pnode :=
  match n with PN s v _ i => PN s v (Some c) i end.
Definition pn_set_ids (n : pnode) (i : list string) : pnode :=
  match n with PN s v m _ => PN s v m i end.

Definition get_or_empty (o : option pnode) : pnode :=
  match o with Some n => n | None => pn_empty end.

(** String sets as sorted lists without duplicates. *)
Fixpoint sset_add (x : string) (l : list string) : list string :=
  match l with
  | [] => [x]
  | y :: r => match String.compare x y with
              | Lt => x :: l
              | Eq => l
              | Gt => y :: sset_add x r
              end
  end.
Definition sset_rem (x : string) (l : list string) : list string :=
  filter (fun y => negb (String.eqb x y)) l.
Definition sset_union (a b : list string) : list string := fold_right sset_add b a.
Definition sset_inter (a b : list string) : list string := filter (fun x => mem_str x b) a.

(** picast *)
Definition picast (v : json) : json :=
  match v with
  | JBool b => JStr (if b then "B_true" else "B_false")
  | JNum z => JStr (String.append "F_" (Z_to_string z))
  | JStr s =>
      if has_prefix "?" s || has_prefix "F_" s || has_prefix "B_" s || has_prefix "S_" s
      then JStr s else JStr (String.append "S_" s)
  | JNull => JStr "null"
  | _ => v
  end.

(** SortValues / IsSortable / ThingSlice.Less *)
Definition type_code (v : json) : Z :=
  match v with JStr _ => 1 | JNum _ => 2 | JBool _ => 4 | _ => 0 end.

Definition is_sortable (l : list json) : bool :=
  match l with
  | [] | [_] => true
  | x :: r => negb (type_code x =? 0) && forallb (fun y => type_code y =? type_code x) r
  end.

Definition thing_leb (a b : json) : bool :=
  match a, b with
  | JStr x, JStr y => str_leb x y
  | JNum x, JNum y => x <=? y
  | JBool x, JBool y => implb x y
  | _, _ => true
  end.

Fixpoint insert_thing (x : json) (l : list json) : list json :=
  match l with
  | [] => [x]
  | y :: r => if thing_leb x y then x :: l else y :: insert_thing x r
  end.

Definition sort_values (l : list json) : option (list json) :=
  if is_sortable l then Some (fold_right insert_thing [] l) else None.

Definition is_var_json (v : json) : bool :=
  match v with JStr s => is_var s | _ => false end.

Inductive piop := OpAdd | OpRem.

(** Measure that decreases along mod/search recursion (used as fuel). *)
Fixpoint vsize (v : json) : nat :=
  match v with
  | JArr l => S (fold_right (fun x n => (S (vsize x) + n)%nat) O l)
  | JObj kvs => S (fold_right (fun kv n => (S (vsize (snd kv)) + n)%nat) O kvs)
  | _ => 1%nat
  end.
Definition pairs_size (pairs : list (string * json)) : nat :=
  fold_right (fun kv n => (S (vsize (snd kv)) + n)%nat) O pairs.

(** mod: add or remove [id] along the path of [pairs].  Returns the new trie
    and an error if the pattern cannot be indexed (nodes created on the way
    stay, as in the code). *)
Fixpoint pmod (fuel : nat) (op : piop) (id : string) (n : pnode) (pairs : list (string * json))
  : pnode * option string :=
  match fuel with
  | O => (n, Some "fuel")
  | S f =>
      match pairs with
      | [] => (pn_set_ids n (match op with
                             | OpAdd => sset_add id (pn_ids n)
                             | OpRem => sset_rem id (pn_ids n)
                             end), None)
      | (k, v) :: rest =>
          let k' := if is_var k then "?" else k in
          let ki := match alookup k' (pn_strs n) with Some c => c | None => pn_empty end in
          match picast v with
          | JStr vv =>
              if is_var vv then
                let '(c, e) := pmod f op id (get_or_empty (pn_var ki)) rest in
                (pn_set_str n k' (pn_set_var ki c), e)
              else
                let i := match alookup vv (pn_strs ki) with Some c => c | None => pn_empty end in
                let '(c, e) := pmod f op id i rest in
                (pn_set_str n k' (pn_set_str ki vv c), e)
          | JObj mp =>
              let '(c, e) := pmod f op id (get_or_empty (pn_map ki)) (mp ++ rest)%list in
              (pn_set_str n k' (pn_set_map ki c), e)
          | JArr vv =>
              let vars := filter is_var_json vv in
              let consts := filter (fun x => negb (is_var_json x)) vv in
              match sort_values consts with
              | None => (pn_set_str n k' ki, Some "not sortable")
              | Some sorted =>
                  pmod f op id (pn_set_str n k' ki)
                       (map (fun x => (k, x)) vars ++ map (fun x => (k, x)) sorted ++ rest)%list
              end
          | _ => (pn_set_str n k' ki, Some "can't handle")
          end
      end
  end.

Fixpoint search_all (rec : pnode -> outcome (list string)) (next : list pnode) (acc : list string)
  : outcome (list string) :=
  match next with
  | [] => Ok acc
  | n :: r => do more <- rec n; search_all rec r (sset_union more acc)
  end.

Fixpoint psearch (fuel : nat) (n : pnode) (pairs : list (string * json)) : outcome (list string) :=
  match fuel with
  | O => OutOfFuel
  | S f =>
      match pairs with
      | [] => Ok (pn_ids n)
      | (k, v) :: rest =>
          if is_var k && (1 <? length pairs)%nat
          then Err "Can't have variable key with other keys" else
          match pn_strs n with
          | [] => psearch f n rest
          | si =>
              match (match alookup k si with Some c => Some c | None => alookup "?" si end) with
              | None => psearch f n rest
              | Some ki =>
                  let ids0 := match pn_var ki with Some vi => pn_ids vi | None => [] end in
                  let next0 := (n :: match pn_var ki with Some vi => [vi] | None => [] end)%list in
                  match picast v with
                  | JStr vv =>
                      if is_var vv then Err "Can't have variables in these things" else
                      match alookup vv (pn_strs ki) with
                      | Some i => search_all (fun m => psearch f m rest) (next0 ++ [i])%list
                                             (sset_union (pn_ids i) ids0)
                      | None => search_all (fun m => psearch f m rest) next0 ids0
                      end
                  | JObj mp =>
                      match pn_map ki with
                      | Some mi =>
                          do more <- psearch f mi (mp ++ rest)%list;
                          search_all (fun m => psearch f m rest) (next0 ++ [mi])%list
                                     (sset_union more ids0)
                      | None => search_all (fun m => psearch f m rest) next0 ids0
                      end
                  | JArr vv =>
                      match sort_values vv with
                      | None => Err "not sortable"
                      | Some sorted =>
                          let rest' := (map (fun x => (k, x)) sorted ++ rest)%list in
                          search_all (fun m => psearch f m rest') next0 ids0
                      end
                  | _ => Err "can't handle"
                  end
              end
          end
      end
  end.

Definition pi_fuel (m : json) : nat := (2 * vsize m + 4)%nat.

Definition pi_add (n : pnode) (pattern : json) (id : string) : pnode * option string :=
  pmod (pi_fuel pattern) OpAdd id n (jO pattern).
Definition pi_rem (n : pnode) (pattern : json) (id : string) : pnode * option string :=
  pmod (pi_fuel pattern) OpRem id n (jO pattern).
Definition pi_search (n : pnode) (event : json) : outcome (list string) :=
  psearch (pi_fuel event) n (jO event).
