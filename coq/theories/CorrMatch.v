(** Correspondence checker for the matcher domain (C05). *)
From Verif Require Import Json Outcome Match.

Definition bs_of_json (j : json) : bindings := jO (jnorm j).
Definition json_of_bs (b : bindings) : json := JObj b.

Definition has_ineq_names (p : json) (bs : bindings) : bool :=
  existsb is_ineq_name (pvars p) || existsb (fun kv => is_ineq_name (fst kv)) bs.

Definition same_multiset (a b : list json) : bool :=
  list_eqb json_eqb (canon_multiset a) (canon_multiset b).
Definition same_set (a b : list json) : bool :=
  list_eqb json_eqb (canon_set a) (canon_set b).

(** One observed result: {"err": bool, "bss": [...]}. *)
Definition obs_agrees_model (m : outcome (list bindings)) (o : json) : bool :=
  match m with
  | Ok bss => negb (jfB "err" o) && same_multiset (map json_of_bs bss) (map jnorm (jfL "bss" o))
  | Err _ => jfB "err" o
  | Panic _ => jfB "panic" o
  | OutOfFuel => jfB "hang" o
  end.

Definition obs_agrees_spec (spec : list bindings) (o : json) : bool :=
  negb (jfB "err" o) && negb (jfB "panic" o) && negb (jfB "hang" o) &&
  same_set (map json_of_bs spec) (map jnorm (jfL "bss" o)).

Definition check_match (c : json) : json :=
  let p := jnorm (jget_d "pattern" c) in
  let d := jnorm (jget_d "data" c) in
  let b0 := bs_of_json (jget_d "bindings" c) in
  let obs := jfL "results" c in
  let wf := wfp p in
  let gr := ground d && ground_bs b0 in
  let risk := struct_risk p d b0 in
  let ineq := has_ineq_names p b0 in
  let m := core_match p d b0 in
  let frag := wf && gr && negb risk in
  (* (outside the fragment: an OPTIONAL variable that occurs twice may be bound by one occurrence and
     "absent" at the other, or fail, depending on Go's map order: not compared) *)
  let opt_twice := let vs := pvars p in existsb (fun v => is_optvar v && (2 <=? count_str v vs)%nat) vs in
  let determ := gr && negb risk && negb ineq && negb opt_twice in
  let model_ok :=
    if frag then forallb (obs_agrees_model m) obs
    else if determ then
      forallb (fun o => obs_agrees_model m o || jfB "err" o ||
                        match m with Err _ => true | _ => false end) obs
    else true in
  let small := (spec_space p d b0 <=? 4000)%nat in
  let spec := if frag && small then spec_match p d b0 else [] in
  let spec_ok :=
    if small then
      if frag then forallb (obs_agrees_spec spec) obs
      else if wf && negb ineq then
        (* outside the fragment only because of D10/D12: still judge, flagged as known finding *)
        forallb (obs_agrees_spec (spec_match p d b0)) obs
      else true
    else true in
  let unmodified := jfB "unmodified" c in
  (* the Go-typed twin (core.Map, []string, []core.Map, typed empty slices) of the same triple:
     same answer as the JSON form (judged inside the fragment only: outside it the answer
     may depend on Go's map order), inputs untouched (type-sensitively) *)
  let typed_agree := negb frag || match jget "typed_agree" c with Some (JBool b) => b | _ => true end in
  let typed_unmod := match jget "typed_unmodified" c with Some (JBool b) => b | _ => true end in
  (* a returned binding set substituted into the pattern (Bindings.Bind) matches the data and binds
     nothing more (inside the fragment, for ground data and no initial bindings) *)
  let rebind_ok := negb frag || negb gr || negb (Nat.eqb (length b0) 0) || (jfZ "rebind_bad" c =? 0) in
  let kf := ((if risk then ["D10"] else []) ++ (if negb gr then ["D12"] else []) ++
             (if ineq then ["D11"] else []))%list in
  let nres := match m with Ok bss => length bss | _ => O end in
  JObj [("ok", JBool model_ok);
        ("why", JStr (if model_ok then "" else String.append "model says " (outcome_class m)));
        ("model", match m with Ok bss => JArr (map json_of_bs bss) | _ => JStr (outcome_class m) end);
        ("spec_ok", JBool (spec_ok && unmodified && typed_agree && typed_unmod && rebind_ok));
        ("spec_why", JStr (if negb unmodified || negb typed_unmod then "pattern, data or initial bindings were modified by the call"
                           else if negb typed_agree then "Go-typed inputs (core.Map, []string, ...) give another answer than their JSON form"
                           else if negb rebind_ok then "a returned binding set, substituted into the pattern, does not match the data (or binds more)"
                           else if spec_ok then "" else "observed result set differs from the set of partial-match layings"));
        ("kf", jstrs_of kf);
        ("nontrivial", JBool (frag && negb (Nat.eqb (length (pvars p)) 0)));
        ("features", jstrs_of ((if frag then ["fragment"] else ["outside-fragment"]) ++
                               (match m with
                                | Ok [] => ["nomatch"]
                                | Ok [_] => ["one"]
                                | Ok _ => ["many"]
                                | Err _ => ["error"]
                                | Panic _ => ["panic"]
                                | OutOfFuel => ["outoffuel"]
                                end) ++
                               (if small then [] else ["spec-skipped-large"]) ++
                               (if negb (Nat.eqb (length b0) 0) then ["initial-bindings"] else []) ++
                               (if existsb (fun s => (2 <=? count_str s (pvars p))%nat) (pvars p) then ["repeated-var"] else []))%list)].
