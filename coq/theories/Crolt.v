(** Model of the Bolt-backed cron service (crolt/cron.go, package main),
    after the repairs of D40 (Add clears the TId decoded from the request) and
    D39 (time keys are rendered with the fixed-width layout TimeKeyLayout).
    Model file: definitions only, no proofs (proofs: proofs/CroltProofs.v).

    The Bolt file holds, per partition p, a bucket jobs<p> (key aid =
    "account,id", value = the job as JSON) and a bucket time<p> (key tid =
    "<instant>,<aid>", value = the same JSON); [Job.TId] links the two.  The
    partition of a job is a function of its account only ([partition]), so the
    model keeps ONE jobs map and ONE time map and reads bucket p as "the
    entries whose account hashes to p".

    Time keys.  A tid is modelled as the pair (instant in ns, aid).  The
    instant is rendered with nine fraction digits in UTC
    ("2006-01-02T15:04:05.000000000Z07:00"), so for years 0000-9999 the
    rendering has a fixed width and Bolt's bytewise order of the keys
    "<instant>,<aid>" is the order of the pairs: by instant, then by aid
    (bytewise) ([tkey_cmp]).  The bound of work is the rendering of now alone:
    a key is <= it iff its instant is strictly earlier ([key_due]).

    Instants computed from the clock ([set]: now+duration, now+TTL, next cron
    occurrence) are inputs of the operations. *)
From Verif Require Import Json Outcome.

Definition sec : Z := 1000000000.

Definition tkey := (Z * string)%type.

Record bjob := mkB {
  b_account : string;
  b_id : string;
  b_kind : string;        (* how set() reads the schedule: "dur", "cron", anything else = unparsable *)
  b_once : bool;
  b_evict : bool;
  b_tid : option tkey     (* None = "" *)
}.

Record crolt := mkC {
  c_jobs : list (string * bjob);   (* sorted by aid (bytewise) *)
  c_time : list (tkey * bjob);     (* sorted by the key order of Bolt *)
  c_parts : Z
}.

Definition crolt_init (parts : Z) : crolt := mkC [] [] parts.

(** ** Keys *)

Definition tkey_cmp (a b : tkey) : comparison :=
  match Z.compare (fst a) (fst b) with
  | Eq => String.compare (snd a) (snd b)
  | c => c
  end.
Definition tkey_ltb (a b : tkey) : bool := match tkey_cmp a b with Lt => true | _ => false end.
Definition tkey_eqb (a b : tkey) : bool := (fst a =? fst b) && String.eqb (snd a) (snd b).

(** work: [bytes.Compare(k, max) <= 0] with max = now rendered with the same
    fixed-width layout: the key "<instant>,<aid>" is longer than max, so it is
    <= max iff its instant is strictly earlier than now. *)
Definition key_due (k : tkey) (now : Z) : bool := fst k <? now.

(** ** The time bucket (ordered map on tkey) *)

Fixpoint tlookup (k : tkey) (m : list (tkey * bjob)) : option bjob :=
  match m with
  | [] => None
  | (k', v) :: r => if tkey_eqb k k' then Some v else tlookup k r
  end.

Fixpoint tremove (k : tkey) (m : list (tkey * bjob)) : list (tkey * bjob) :=
  match m with
  | [] => []
  | (k', v) :: r => if tkey_eqb k k' then tremove k r else (k', v) :: tremove k r
  end.

Fixpoint tins (k : tkey) (v : bjob) (m : list (tkey * bjob)) : list (tkey * bjob) :=
  match m with
  | [] => [(k, v)]
  | (k', v') :: r => if tkey_ltb k k' then (k, v) :: m else (k', v') :: tins k v r
  end.

(** Bucket.Put: replace or insert in key order. *)
Definition tput (k : tkey) (v : bjob) (m : list (tkey * bjob)) : list (tkey * bjob) :=
  tins k v (tremove k m).

(** ** Ids and partitions *)

Fixpoint has_comma (s : string) : bool :=
  match s with
  | EmptyString => false
  | String c r => Ascii.eqb c "," || has_comma r
  end.

(** genAId *)
Definition gen_aid (account id : string) : outcome string :=
  if String.eqb account "" then Err "init"
  else if String.eqb id "" then Err "init"
  else if has_comma account then Err "init"
  else if has_comma id then Err "init"
  else Ok (String.append account (String.append "," id)).

Definition aid_of (j : bjob) : string := String.append (b_account j) (String.append "," (b_id j)).

Fixpoint bytes_of (s : string) : list N :=
  match s with
  | EmptyString => []
  | String c r => N_of_ascii c :: bytes_of r
  end.

(** Cron.Partition: [fnv.New64a().Sum([]byte(account))] APPENDS the hash of
    nothing (the FNV-64a offset basis, cb f2 9c e4 84 22 23 25) to the account
    bytes, so h[0..3] are the first bytes of the account itself. *)
Definition partition (account : string) (parts : Z) : Z :=
  let h := (bytes_of account ++ [203; 242; 156; 228]%N)%list in
  let b i := nth i h 0%N in
  Z.of_N (N.lxor (N.lxor (b 0%nat) (b 1%nat)) (N.lxor (b 2%nat) (b 3%nat))) mod parts.

(** ** Operations *)

(** Cron.set without the clock: which flags change; the instant is an input. *)
Definition set_flags (j : bjob) : outcome bjob :=
  if b_evict j then Ok j
  else if String.eqb (b_kind j) "dur" then Ok (mkB (b_account j) (b_id j) (b_kind j) true (b_evict j) (b_tid j))
  else if String.eqb (b_kind j) "cron" then Ok j
  else Err "schedule".

(** Cron.update + the transaction it returns: put under aid, delete the old
    tid, put under the new tid. *)
Definition update (c : crolt) (j : bjob) (at_ : Z) : crolt :=
  let aid := aid_of j in
  let tid := (at_, aid) in
  let j' := mkB (b_account j) (b_id j) (b_kind j) (b_once j) (b_evict j) (Some tid) in
  let jobs := ainsert aid j' (c_jobs c) in
  let time1 := match b_tid j with Some old => tremove old (c_time c) | None => c_time c end in
  mkC jobs (tput tid j' time1) (c_parts c).

(** Cron.Add.  [j] is the client's job (AddHandler unmarshals the request
    body straight into a Job, so [b_once], [b_evict] and [b_tid] are client
    controlled; Add overwrites [b_tid] with ""); [at_] is the instant [set] computes. *)
Definition c_add (c : crolt) (j : bjob) (at_ : Z) : crolt * outcome unit :=
  match gen_aid (b_account j) (b_id j) with
  | Ok aid =>
      match alookup aid (c_jobs c) with
      | Some _ => (c, Err "exists")
      | None =>
          match set_flags j with
          | Ok j' =>
              (* j.TId = "": a new job has no time entry yet *)
              (update c (mkB (b_account j') (b_id j') (b_kind j') (b_once j') (b_evict j') None) at_, Ok tt)
          | Err e => (c, Err e)
          | Panic w => (c, Panic w)
          | OutOfFuel => (c, OutOfFuel)
          end
      end
  | Err e => (c, Err e)
  | Panic w => (c, Panic w)
  | OutOfFuel => (c, OutOfFuel)
  end.

(** The transaction of Cron.delete for a valid aid. *)
Definition delete_aid (c : crolt) (aid : string) : crolt :=
  match alookup aid (c_jobs c) with
  | None => c
  | Some j =>
      let time1 := match b_tid j with Some t => tremove t (c_time c) | None => c_time c end in
      mkC (aremove aid (c_jobs c)) time1 (c_parts c)
  end.

Definition c_delete (c : crolt) (account id : string) : crolt * outcome unit :=
  match gen_aid account id with
  | Ok aid => (delete_aid c aid, Ok tt)
  | Err e => (c, Err e)
  | Panic w => (c, Panic w)
  | OutOfFuel => (c, OutOfFuel)
  end.

(** Cron.DeleteAccount: every key of the jobs bucket with the prefix
    "account," (cursor over the snapshot), each through delete. *)
Definition c_delete_account (c : crolt) (account : string) : crolt :=
  let pre := String.append account "," in
  let aids := map fst (filter (fun kv => has_prefix pre (fst kv)) (c_jobs c)) in
  fold_left delete_aid aids c.

(** One firing of work (not an eviction): what was fired, when. *)
Record fired := mkFired { fd_aid : string; fd_key : tkey; fd_now : Z; fd_once : bool }.

(** The loop of Cron.work over the snapshot [snap] of the due entries of the
    partition (the cursor walks the pages as they were when the transaction
    began).  [ats] supplies the instants computed by [set] for the entries
    that fire, in order.  An eviction ends the whole call ([return f(tx)]). *)
Fixpoint work_loop (c : crolt) (snap : list (tkey * bjob)) (now : Z) (ats : list Z)
         (acc : list fired) : crolt * list fired * outcome unit :=
  match snap with
  | [] => (c, acc, Ok tt)
  | (k, j) :: rest =>
      if b_evict j then (delete_aid c (aid_of j), acc, Ok tt)
      else
        let j1 := if b_once j then mkB (b_account j) (b_id j) (b_kind j) true true (b_tid j) else j in
        match set_flags j1 with
        | Ok j2 =>
            let at_ := match ats with a :: _ => a | [] => now end in
            work_loop (update c j2 at_) rest now (tl ats)
                      (mkFired (aid_of j) k now (b_once j) :: acc)
        | Err e => (c, acc, Err e)
        | Panic w => (c, acc, Panic w)
        | OutOfFuel => (c, acc, OutOfFuel)
        end
  end.

Fixpoint take_while {A} (p : A -> bool) (l : list A) : list A :=
  match l with
  | [] => []
  | x :: r => if p x then x :: take_while p r else []
  end.

(** The entries work looks at: bucket time<part> from its first key while
    key <= max, at most 10. *)
Definition due_snapshot (c : crolt) (part : Z) (now : Z) : list (tkey * bjob) :=
  firstn 10 (take_while (fun kv => key_due (fst kv) now)
                        (filter (fun kv => partition (b_account (snd kv)) (c_parts c) =? part) (c_time c))).

(** db.Update(work(part)): an error rolls the transaction back (the HTTP
    requests already made are not undone). *)
Definition c_work (c : crolt) (part : Z) (now : Z) (ats : list Z) : crolt * list fired * outcome unit :=
  let '(c', fs, r) := work_loop c (due_snapshot c part now) now ats [] in
  match r with
  | Ok _ => (c', fs, r)
  | _ => (c, fs, r)
  end.

(** Closing and re-opening the Bolt file: the committed buckets are what the
    next process sees (Bolt's transaction atomicity and durability are
    trusted; the harness checks it on the real file). *)
Definition c_reopen (c : crolt) : crolt := c.

Inductive bop :=
| BAdd (j : bjob) (at_ : Z)
| BDelete (account id : string)
| BDeleteAccount (account : string)
| BWork (part : Z) (now : Z) (ats : list Z)
| BReopen.

Definition bstep (c : crolt) (o : bop) : crolt :=
  match o with
  | BAdd j at_ => fst (c_add c j at_)
  | BDelete a i => fst (c_delete c a i)
  | BDeleteAccount a => c_delete_account c a
  | BWork p now ats => fst (fst (c_work c p now ats))
  | BReopen => c_reopen c
  end.

Definition brun (ops : list bop) (c : crolt) : crolt := fold_left bstep ops c.

(** Firings of one step / of a run (newest first). *)
Definition bfires (c : crolt) (o : bop) : list fired :=
  match o with
  | BWork p now ats => snd (fst (c_work c p now ats))
  | _ => []
  end.

Fixpoint brun_fires (ops : list bop) (c : crolt) (acc : list fired) : list fired :=
  match ops with
  | [] => acc
  | o :: r => brun_fires r (bstep c o) (bfires c o ++ acc)%list
  end.
