(** Typed operations of the Location API over a system of named locations:
    the step function that the correspondence checker replays (CorrLoc.run_op
    decodes an observed operation into [lop] and calls [sys_step]) and that
    the history theorems of C01, C06, C07, C09, C10 quantify over.
    Definitions only. *)
From Verif Require Import Json Outcome Match PatIndex State Location.

Inductive lop :=
| LAddFact (id : string) (fact : json)
| LAddRule (id : string) (rule : json)
| LRemFact (id : string)
| LRemRule (id : string)
| LGetFact (id : string)
| LGetRule (id : string)
| LEnableRule (id : string) (enable : bool)
| LClear
| LSetParents (ps : list string)
| LGetParents
| LSize
| LSetReadOnly (ro : bool)
| LReload
| LSearch (pattern : json) (inherited : bool)
| LEvent (event : json).

Inductive lres :=
| RId (o : outcome string)
| RBool (o : outcome bool)
| RJson (o : outcome json)
| RUnit (o : outcome unit)
| RParents (o : outcome (list string))
| RSize (o : outcome Z)
| RFound (o : outcome (list (string * list (string * list bindings))))
| RChildren (o : outcome (list (string * list bindings))).

Definition with_loc {A} (sy : system) (name : string) (f : loc -> loc * outcome A)
  : system * outcome A :=
  match sys_get sy name with
  | None => (sy, Err E_noloc)
  | Some l => let '(l', r) := f l in (sys_set sy name l', r)
  end.

Definition sys_step (sy : system) (name : string) (c : ctx) (e : env) (op : lop) : system * lres :=
  match op with
  | LAddFact id fact =>
      let '(sy', r) := with_loc sy name (fun l => loc_add_fact l c e id fact) in (sy', RId r)
  | LAddRule id rule =>
      let '(sy', r) := with_loc sy name (fun l => loc_add_rule l c e id rule) in (sy', RId r)
  | LRemFact id =>
      let '(sy', r) := with_loc sy name (fun l => loc_rem_fact l c e id) in (sy', RBool r)
  | LRemRule id =>
      let '(sy', r) := with_loc sy name (fun l => loc_rem_rule l c e id) in (sy', RBool r)
  | LGetFact id =>
      let '(sy', r) := with_loc sy name (fun l => loc_get_fact l c e id) in (sy', RJson r)
  | LGetRule id =>
      let '(sy', r) := with_loc sy name (fun l => loc_get_rule l c e id) in (sy', RJson r)
  | LEnableRule id en =>
      let '(sy', r) := with_loc sy name (fun l => loc_enable_rule l c e id en) in (sy', RUnit r)
  | LClear =>
      let '(sy', r) := with_loc sy name (fun l => loc_clear l c e) in (sy', RUnit r)
  | LSetParents ps =>
      let '(sy', r) := with_loc sy name (fun l => loc_set_parents l c e ps) in (sy', RId r)
  | LGetParents =>
      let '(sy', r) := with_loc sy name (fun l => loc_get_parents l c e) in (sy', RParents r)
  | LSize =>
      let '(sy', r) := with_loc sy name (fun l => loc_size l c e) in (sy', RSize r)
  | LSetReadOnly ro =>
      let '(sy', r) := with_loc sy name (fun l => (mkLoc (l_state l) ro (l_max l), Ok tt)) in (sy', RUnit r)
  | LReload =>
      let '(sy', r) := with_loc sy name (fun l => loc_reload l (e_now e)) in (sy', RUnit r)
  | LSearch pattern inh =>
      match sys_get sy name with
      | None => (sy, RFound (Err E_noloc))
      | Some _ => let '(sy', r) := sys_search sy name c e pattern inh in (sy', RFound r)
      end
  | LEvent event =>
      match sys_get sy name with
      | None => (sy, RChildren (Err E_noloc))
      | Some _ => let '(sy', r) := sys_find_rules sy name c e event in (sy', RChildren r)
      end
  end.

(** A request: which location, with which keys, at which instant (and the
    trace-supplied fresh id / parsed RFC3339 instant), doing what. *)
Record request := mkReq { r_loc : string; r_ctx : ctx; r_env : env; r_op : lop }.

Definition sys_do (sy : system) (q : request) : system :=
  fst (sys_step sy (r_loc q) (r_ctx q) (r_env q) (r_op q)).

Definition sys_run (sy : system) (h : list request) : system := fold_left sys_do h sy.
