(** Model of core/breaker.go: OutboundBreaker (sliding window of 20 slots),
    Throttle.Submit bookkeeping, SimpleBreaker.Do.

    Time is an explicit parameter (nanoseconds on the monotonic clock); the
    code reads the clock inside the mutex, so calls are serialised with
    non-decreasing instants.  Model file: definitions only. *)
From Verif Require Import Json.

Definition ticksN : nat := 20.
Definition ticksZ : Z := 20.

Record breaker := mkBreaker {
  b_limit : Z;
  b_interval : Z;            (* nanoseconds *)
  b_counts : list Z;         (* length 20 *)
  b_updated : option Z;      (* None = the zero time.Time *)
}.

Definition zeros (n : nat) : list Z := repeat 0 n.

(** init: limit < 1 is an error (None). `updated` is left alone. *)
Definition b_init (old_updated : option Z) (limit interval : Z) : option breaker :=
  if limit <? 1 then None
  else Some (mkBreaker limit interval (zeros ticksN) old_updated).

Definition b_new (limit interval : Z) : option breaker := b_init None limit interval.

Definition resolution (b : breaker) : Z := Z.quot (b_interval b) ticksZ.

(** Number of whole ticks between `updated` and `now` (None: zero time, i.e.
    an enormous saturated duration). *)
Definition raw_ticks (b : breaker) (now : Z) : Z :=
  match b_updated b with
  | None => ticksZ + 1
  | Some u => Z.quot (now - u) (resolution b)
  end.

Definition shift (counts : list Z) (k : nat) : list Z :=
  zeros k ++ firstn (length counts - k) counts.

Inductive variant := Pinned | Fixed.

(** slide.  [Pinned] is the code as it was at the pinned commit
    (`updated = now` on every call); [Fixed] is the code after the
    "fix: breaker" commit: `updated` advances by whole ticks only (and is
    set to `now` when the whole window has aged out). *)
Definition slide (v : variant) (b : breaker) (now : Z) : breaker :=
  let t := raw_ticks b now in
  if ticksZ <=? t then
    mkBreaker (b_limit b) (b_interval b) (zeros (length (b_counts b))) (Some now)
  else
    let k := Z.to_nat t in
    let u' := match v, b_updated b with
              | Fixed, Some u => Some (u + t * resolution b)
              | _, _ => Some now
              end in
    mkBreaker (b_limit b) (b_interval b) (shift (b_counts b) k) u'.

Definition total (b : breaker) : Z := fold_right Z.add 0 (b_counts b).

Definition bump (counts : list Z) : list Z :=
  match counts with [] => [] | c :: r => (c + 1) :: r end.

(** Do: returns the new breaker and whether the call was admitted. *)
Definition b_do (v : variant) (b : breaker) (now : Z) : breaker * bool :=
  let b1 := slide v b now in
  if total b1 <? b_limit b1 then
    (mkBreaker (b_limit b1) (b_interval b1) (bump (b_counts b1))
               (match v with Fixed => Some now | Pinned => b_updated b1 end), true)
  else (b1, false).

(** Status: slides, reports closed. *)
Definition b_status (v : variant) (b : breaker) (now : Z) : breaker * bool :=
  let b1 := slide v b now in (b1, total b1 <? b_limit b1).

Definition b_reset (b : breaker) (now : Z) : breaker :=
  mkBreaker (b_limit b) (b_interval b) (zeros (length (b_counts b))) (Some now).

(** The panic branch: interval < 20ns gives resolution 0 and Go divides by
    zero (only reached when `updated` is not the zero time... Go evaluates the
    division unconditionally, so it panics on every slide). *)
Definition b_panics (b : breaker) : bool := resolution b =? 0.

(** Run a list of call instants through Do; collect verdicts. *)
Fixpoint run_do (v : variant) (b : breaker) (ts : list Z) : breaker * list (Z * bool) :=
  match ts with
  | [] => (b, [])
  | t :: r =>
      let '(b1, adm) := b_do v b t in
      let '(b2, out) := run_do v b1 r in
      (b2, (t, adm) :: out)
  end.

Definition admitted_times (out : list (Z * bool)) : list Z :=
  map fst (filter snd out).

(** * Spec checkers over an observed trace of (instant, admitted) *)

(** Number of admissions with instant in (T - w, T]. *)
Definition count_in_window (adm : list Z) (w T : Z) : Z :=
  Z.of_nat (length (filter (fun a => (T - w <? a) && (a <=? T)) adm)).

(** rate bound, checked at every admission instant (sufficient: a window
    that holds more than [limit] admissions can be slid right until its
    right end is an admission). *)
Definition rate_bound_check (limit w : Z) (adm : list Z) : bool :=
  forallb (fun T => count_in_window adm w T <=? limit) adm.

(** liveness: a call at t with no admission in [t - w, t) must be admitted.
    (limit >= 1.)  [out] is in call order. *)
Fixpoint recovers_check_aux (w : Z) (last : option Z) (out : list (Z * bool)) : bool :=
  match out with
  | [] => true
  | (t, adm) :: r =>
      let must := match last with None => true | Some t0 => t0 + w <=? t end in
      (if must then adm else true) &&
      recovers_check_aux w (if adm then Some t else last) r
  end.
Definition recovers_check (w : Z) (out : list (Z * bool)) : bool :=
  recovers_check_aux w None out.

(** * Throttle.Submit bookkeeping (sequential step machine)

    pending/pendingLimit/disabled as in the code; the breaker is abstracted
    to the list of verdicts its Do returns on successive polls
    (attempted?, and whether the thunk was actually run by that Do). *)
Record throttle := mkThrottle {
  t_pending : Z;
  t_pending_limit : Z;
  t_attempts : nat;
  t_disabled : bool;
}.

Inductive submit_result := SOverflow | SExhausted | SWorked.

(** Entry step of Submit: returns (state, admitted-to-poll?). *)
Definition submit_enter (t : throttle) : throttle * bool :=
  let too_many := t_pending_limit t <? t_pending t in
  let t' := if negb too_many || t_disabled t
            then mkThrottle (t_pending t + 1) (t_pending_limit t) (t_attempts t) (t_disabled t)
            else t in
  (t', negb too_many).

Definition submit_exit (t : throttle) : throttle :=
  mkThrottle (t_pending t - 1) (t_pending_limit t) (t_attempts t) (t_disabled t).

(** Poll loop: [polls] is the sequence of (attempted, ran) pairs returned by
    the embedded breaker's Do.  Returns (number of times the thunk ran,
    worked?). *)
Fixpoint poll (attempts : nat) (polls : list (bool * bool)) : Z * bool :=
  match attempts, polls with
  | O, _ => (0, false)
  | _, [] => (0, false)
  | S n, (attempted, ran) :: r =>
      if attempted then ((if ran then 1 else 0), true)
      else let '(k, w) := poll n r in ((if ran then 1 else 0) + k, w)
  end.

(** SimpleBreaker.Do: (closed, disabled) -> (attempted, ran). *)
Definition simple_do (closed disabled : bool) : bool * bool :=
  (closed, closed || disabled).
(** OutboundBreaker.Do honours the contract attempted = ran. *)
Definition outbound_poll (admitted : bool) : bool * bool := (admitted, admitted).

(** * Throttle under concurrency: the bookkeeping as an event system.
    [TEnter]: a new Submit executes its entry critical section;
    [TExit]: one waiting Submit finishes (executes its exit critical section).
    [waiting] counts the submissions that are really between the two. *)
Inductive tevent := TEnter | TExit.
Record tstate := mkT { ts_thr : throttle; ts_waiting : Z }.

Definition tstep (s : tstate) (e : tevent) : tstate :=
  match e with
  | TEnter =>
      let '(t', admitted) := submit_enter (ts_thr s) in
      mkT t' (if admitted then ts_waiting s + 1 else ts_waiting s)
  | TExit =>
      if 0 <? ts_waiting s then mkT (submit_exit (ts_thr s)) (ts_waiting s - 1) else s
  end.

(** Throttle.Disable(bool) as one more event of the system (it only sets the
    flag), and whether the next Submit entry would be admitted. *)
Definition set_disabled (t : throttle) (d : bool) : throttle :=
  mkThrottle (t_pending t) (t_pending_limit t) (t_attempts t) d.

Inductive tevent2 := TEv (e : tevent) | TDisable (d : bool).

Definition tstep2 (s : tstate) (e : tevent2) : tstate :=
  match e with
  | TEv e => tstep s e
  | TDisable d => mkT (set_disabled (ts_thr s) d) (ts_waiting s)
  end.

Definition enter_admits (s : tstate) : bool := snd (submit_enter (ts_thr s)).

Definition fresh_throttle (plimit : Z) (attempts : nat) (disabled : bool) : tstate :=
  mkT (mkThrottle 0 plimit attempts disabled) 0.
