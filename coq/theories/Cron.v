(** Model of the in-memory cron (cron/cron.go, type cron.Cron) as a step
    machine over an abstract clock (Z, nanoseconds).
    Model file: definitions only, no proofs (proofs: proofs/CronProofs.v).

    This is the model of the code AFTER the repairs of D38 (Rem re-arms the
    timer), D49 (the [suspended] field: resetTimer does not arm and the timer
    branch does not fire while suspended), D50 (schedule checks the limit
    before it removes the pending job of the same id) and D26 (jobs whose
    callback runs are kept in [Cron.running]; rem marks them [removed], and a
    marked job does not re-schedule itself).

    State = the exported [Timeline] (pending jobs, kept sorted by [Next]), the
    list [running] (jobs popped from the timeline by the loop whose [Fn] has
    not returned, each with its [removed] mark), the [suspended] field,
    [Limit], the target of the one [time.Timer] ([None] = stopped or already
    delivered) and the log of fire events.

    Operations (one per critical section of the Go code; every one of them
    runs under [c.Lock()]):
      [CAdd id next recurring now]  Cron.Add -> schedule(job, checkLimit=true)
      [CRem id now]                 Cron.Rem
      [CTick now]                   the loop's [case <-c.timer.C] branch
      [CDone id now next']          the tail of Cron.run after [job.Fn]
                                    returned: the job leaves [running]; a
                                    recurring job that was not removed
                                    meanwhile re-schedules itself
                                    (checkLimit=false) at
                                    [next' = Expression.Next(now)]
      [CSuspend], [CResume now] (setSuspended), [CPause now] (net effect of a
      pause: the loop sleeps, then [resetTimerLocked] at [now]).
    Instants ([now], [next']) are inputs of the trace, never a clock. *)
From Verif Require Import Json.

Record cjob := mkJob { j_id : string; j_next : Z; j_rec : bool }.

Record fire := mkFire { f_id : string; f_now : Z; f_next : Z; f_rec : bool }.

Record cron := mkCron {
  c_tl : list cjob;
  c_inflight : list (cjob * bool);   (* Cron.running: job, CronJob.removed *)
  c_susp : bool;                     (* Cron.suspended *)
  c_limit : Z;
  c_armed : option Z;
  c_fires : list fire   (* newest first *)
}.

Inductive cop :=
| CAdd (id : string) (next : Z) (recurring : bool) (now : Z)
| CRem (id : string) (now : Z)
| CTick (now : Z)
| CDone (id : string) (now : Z) (next' : Z)
| CSuspend
| CResume (now : Z)
| CPause (now : Z).

Definition cron_init (limit : Z) : cron := mkCron [] [] false limit None [].

(** Timeline.Search + Cron.insert: the position is the first index whose
    [Next] is strictly later than the job's (sort.Search over a sorted
    timeline finds exactly that index). *)
Fixpoint tl_insert (j : cjob) (tl : list cjob) : list cjob :=
  match tl with
  | [] => [j]
  | x :: r => if j_next j <? j_next x then j :: tl else x :: tl_insert j r
  end.

(** sort.Search as written in the Go library (binary search), for the
    equivalence lemma [search_is_first_later]. *)
Fixpoint bsearch (fuel : nat) (f : nat -> bool) (i j : nat) : nat :=
  match fuel with
  | O => i
  | S fuel' =>
      if (i <? j)%nat then
        let h := ((i + j) / 2)%nat in
        if f h then bsearch fuel' f i h else bsearch fuel' f (S h) j
      else i
  end.

Definition tl_search (t : Z) (tl : list cjob) : nat :=
  bsearch (S (length tl))
          (fun i => match nth_error tl i with Some x => t <? j_next x | None => true end)
          0 (length tl).

Definition tl_insert_at (j : cjob) (tl : list cjob) : list cjob :=
  let at_ := tl_search (j_next j) tl in
  (firstn at_ tl ++ j :: skipn at_ tl)%list.

(** Cron.rem, timeline part: delete the first job with the id; reports
    whether one was found. *)
Fixpoint tl_rem (id : string) (tl : list cjob) : bool * list cjob :=
  match tl with
  | [] => (false, [])
  | x :: r =>
      if String.eqb (j_id x) id then (true, r)
      else let '(f, r') := tl_rem id r in (f, x :: r')
  end.

(** Cron.rem, running part: every running job with the id that is not marked
    yet is marked [removed]; a recurring one counts as found. *)
Fixpoint mark_removed (id : string) (l : list (cjob * bool)) : bool * list (cjob * bool) :=
  match l with
  | [] => (false, [])
  | (j, removed) :: r =>
      let '(f, r') := mark_removed id r in
      if String.eqb (j_id j) id && negb removed
      then (j_rec j || f, (j, true) :: r')
      else (f, (j, removed) :: r')
  end.

(** Cron.rem. *)
Definition c_rem (id : string) (tl : list cjob) (infl : list (cjob * bool))
  : bool * list cjob * list (cjob * bool) :=
  let '(f1, tl') := tl_rem id tl in
  let '(f2, infl') := mark_removed id infl in
  (f1 || f2, tl', infl').

(** Cron.resetTimer: nothing is armed while suspended; otherwise arm for the
    head (not earlier than now), stop when the timeline is empty. *)
Definition reset_timer (susp : bool) (tl : list cjob) (now : Z) : option Z :=
  if susp then None else
  match tl with
  | [] => None
  | j :: _ => Some (Z.max (j_next j) now)
  end.

Definition on_tl (id : string) (tl : list cjob) : bool :=
  existsb (fun x => String.eqb (j_id x) id) tl.

(** The limit check of Cron.schedule: a pending job with the same id is
    replaced, not added, so it does not count. *)
Definition over_limit (c : cron) (id : string) : bool :=
  c_limit c <=? Z.of_nat (length (c_tl c)) - (if on_tl id (c_tl c) then 1 else 0).

(** Cron.schedule after the [finished] test: limit check first (a refused
    request has no effect), then rem, insert, resetTimer. *)
Definition schedule (c : cron) (j : cjob) (check_limit : bool) (now : Z) : cron * bool :=
  if check_limit && over_limit c (j_id j) then (c, false)
  else
    let '(_, tl1, infl1) := c_rem (j_id j) (c_tl c) (c_inflight c) in
    let tl2 := tl_insert j tl1 in
    (mkCron tl2 infl1 (c_susp c) (c_limit c) (reset_timer (c_susp c) tl2 now) (c_fires c), true).

(** Cron.finished: take the (first) running job with the id off the list. *)
Fixpoint take_inflight (id : string) (l : list (cjob * bool)) : option (cjob * bool * list (cjob * bool)) :=
  match l with
  | [] => None
  | (x, m) :: r =>
      if String.eqb (j_id x) id then Some (x, m, r)
      else match take_inflight id r with
           | Some (y, m', r') => Some (y, m', (x, m) :: r')
           | None => None
           end
  end.

(** A delivered timer value that does not pop anything leaves the timer
    stopped when it was the timer's own expiry (target reached), and armed
    when it was a stale value (Reset does not drain the channel). *)
Definition consume_timer (armed : option Z) (now : Z) : option Z :=
  match armed with
  | Some t => if t <=? now then None else Some t
  | None => None
  end.

Definition step (c : cron) (o : cop) : cron :=
  match o with
  | CAdd id next recurring now => fst (schedule c (mkJob id next recurring) true now)
  | CRem id now =>
      let '(found, tl', infl') := c_rem id (c_tl c) (c_inflight c) in
      mkCron tl' infl' (c_susp c) (c_limit c)
             (if found then reset_timer (c_susp c) tl' now else c_armed c) (c_fires c)
  | CTick now =>
      match c_tl c with
      | j :: r =>
          if negb (c_susp c) && (j_next j <=? now) then
            mkCron r ((j, false) :: c_inflight c) (c_susp c) (c_limit c) (reset_timer (c_susp c) r now)
                   (mkFire (j_id j) now (j_next j) (j_rec j) :: c_fires c)
          else mkCron (c_tl c) (c_inflight c) (c_susp c) (c_limit c) (consume_timer (c_armed c) now) (c_fires c)
      | [] => mkCron [] (c_inflight c) (c_susp c) (c_limit c) (consume_timer (c_armed c) now) (c_fires c)
      end
  | CDone id now next' =>
      match take_inflight id (c_inflight c) with
      | None => c
      | Some (j, removed, rest) =>
          let c1 := mkCron (c_tl c) rest (c_susp c) (c_limit c) (c_armed c) (c_fires c) in
          if j_rec j && negb removed then fst (schedule c1 (mkJob id next' true) false now) else c1
      end
  | CSuspend => mkCron (c_tl c) (c_inflight c) true (c_limit c) None (c_fires c)
  | CResume now =>
      if c_susp c then mkCron (c_tl c) (c_inflight c) false (c_limit c) (reset_timer false (c_tl c) now) (c_fires c)
      else c
  | CPause now =>
      mkCron (c_tl c) (c_inflight c) (c_susp c) (c_limit c) (reset_timer (c_susp c) (c_tl c) now) (c_fires c)
  end.

Definition run (ops : list cop) (c : cron) : cron := fold_left step ops c.

(** Observables of an operation (what the Go call returns). *)
Definition add_ok (c : cron) (id : string) (next : Z) (recurring : bool) (now : Z) : bool :=
  snd (schedule c (mkJob id next recurring) true now).
Definition rem_found (c : cron) (id : string) : bool :=
  fst (fst (c_rem id (c_tl c) (c_inflight c))).

(** The timer will deliver at [now]: armed with a target that has been reached. *)
Definition tick_enabled (c : cron) (now : Z) : bool :=
  match c_armed c with Some t => t <=? now | None => false end.

(** A stalled instance: jobs are pending, the loop is not suspended, and the
    timer is stopped, so nothing fires until some other call resets the timer
    (unreachable after the repair of D38: timer_armed_invariant). *)
Definition stalled (c : cron) : bool :=
  match c_tl c, c_armed c with
  | _ :: _, None => negb (c_susp c)
  | _, _ => false
  end.
