(** Model of the sheens matcher as configured by core/match.go
    (AllowPropertyVariables, CheckForBadPropertyVariables, Inequalities all
    on), written path by path after match.go of github.com/Comcast/sheens.
    Go map iteration is modelled as iteration in key order.
    Model file: definitions only. *)
From Verif Require Import Json Outcome.

Definition bindings := list (string * json).   (* sorted by key, no duplicates *)

Definition bind (x : string) (v : json) (bs : bindings) : bindings := ainsert x v bs.

(** ** Inequalities (match.go: inequal) *)

Definition ineq_ops : list string := ["<="; ">="; "!="; ">"; "<"].

Fixpoint find_ineq (ops : list string) (rest : string) : option (string * string) :=
  match ops with
  | [] => None
  | op :: r => if has_prefix op rest
               then Some (op, String.append "?" (substring (String.length op) (String.length rest - String.length op) rest))
               else find_ineq r rest
  end.

Definition ineq_sat (op : string) (a b : Z) : bool :=
  if String.eqb op "<" then a <? b
  else if String.eqb op "<=" then a <=? b
  else if String.eqb op ">" then b <? a
  else if String.eqb op ">=" then b <=? a
  else negb (a =? b).

(** Some r: the inequality machinery handled the variable ("using"), with result r. *)
Definition inequal (d : json) (bs : bindings) (v : string) : option (list bindings) :=
  match alookup v bs with
  | Some (JNum b) =>
      match d with
      | JNum a =>
          if (String.length v <=? 2)%nat then None else
          match find_ineq ineq_ops (substring 1 (String.length v - 1) v) with
          | None => None
          | Some (op, vv) =>
              if negb (ineq_sat op a b) then Some [] else
              match alookup vv bs with
              | Some (JNum c) => if c =? a then Some [bs] else Some []
              | Some _ => None
              | None => Some [bind vv (JNum a) bs]
              end
          end
      | _ => None
      end
  | _ => None
  end.

(** ** getVariable: first variable of an array pattern and the other elements *)
Fixpoint get_variable (xs : list json) (v : string) (acc : list json)
  : outcome (string * list json) :=
  match xs with
  | [] => Ok (v, rev acc)
  | JStr s :: r =>
      if is_var s then
        if String.eqb v "" then get_variable r s acc
        else if String.eqb v s then Err "repeated variables not supported"
        else Err "multiple variables not supported here"
      else get_variable r v (JStr s :: acc)
  | x :: r => get_variable r v (x :: acc)
  end.

Definition any_var_key (kvs : list (string * json)) : bool :=
  existsb (fun kv => is_var (fst kv)) kvs.

(** Scalars of a data array as a set (first occurrences), structured elements
    with their positions. *)
Fixpoint split_array (i : nat) (l : list json) (fxs : list json) (fxa : list (nat * json))
  : list json * list (nat * json) :=
  match l with
  | [] => (rev fxs, rev fxa)
  | y :: r => if is_scalar y
              then split_array (S i) r (if mem_json y fxs then fxs else y :: fxs) fxa
              else split_array (S i) r fxs ((i, y) :: fxa)
  end.

Fixpoint remove_nth {A} (n : nat) (l : list A) : list A :=
  match n, l with
  | _, [] => []
  | O, _ :: r => r
  | S n', x :: r => x :: remove_nth n' r
  end.

(** Left-over scalars are appended to the remaining elements with fresh positions. *)
Definition combine_extra (n : nat) (left : list json) : list (nat * json) :=
  List.combine (seq n (length left)) left.

Section MatchBody.
  (** [rec] is the recursive call with less fuel. *)
  Variable rec : json -> json -> bindings -> outcome (list bindings).

  (** matchWithBindingss *)
  Fixpoint match_all (bss : list bindings) (p d : json) : outcome (list bindings) :=
    match bss with
    | [] => Ok []
    | bs :: r =>
        do m <- rec p d bs;
        do rest <- match_all r p d;
        Ok (m ++ rest)%list
    end.

  (** Property variable: iterate over the data's entries. *)
  Fixpoint propvar_match (bss : list bindings) (k : string) (pv : json)
           (dk : list (string * json)) : outcome (list bindings) :=
    match dk with
    | [] => Ok []
    | (fk, fv) :: r =>
        do ext <- match_all bss (JStr k) (JStr fk);
        do ext2 <- (match ext with [] => Ok [] | _ => match_all ext pv fv end);
        do rest <- propvar_match bss k pv r;
        Ok (ext2 ++ rest)%list
    end.

  (** mapcatMatch over the pattern's entries (after the bad-property-variable check). *)
  Fixpoint mapcat (bss : list bindings) (single : bool) (pk dk : list (string * json))
    : outcome (list bindings) :=
    match pk with
    | [] => Ok bss
    | (k, pv) :: r =>
        if is_var k then
          if single then propvar_match bss k pv dk
          else Err "can't have a variable as a key with other keys"
        else
          match alookup k dk with
          | None => match pv with
                    | JStr s => if is_optvar s then mapcat bss single r dk else Ok []
                    | _ => Ok []
                    end
          | Some fv =>
              do acc <- match_all bss pv fv;
              match acc with
              | [] => Ok []
              | _ => mapcat acc single r dk
              end
          end
    end.

  (** arraycatMatch: for every (bss, remaining elements) alternative and every
      remaining element that matches, a new alternative without that element. *)
  Fixpoint arraycat_one (bss : list bindings) (p : json) (all : list (nat * json))
           (todo : list (nat * json)) (pos : nat)
    : outcome (list (list bindings * list (nat * json))) :=
    match todo with
    | [] => Ok []
    | (j, fact) :: r =>
        do acc <- match_all bss p fact;
        do rest <- arraycat_one bss p all r (S pos);
        Ok (match acc with
            | [] => rest
            | _ => (acc, remove_nth pos all) :: rest
            end)
    end.

  Fixpoint arraycat (alts : list (list bindings * list (nat * json))) (p : json)
    : outcome (list (list bindings * list (nat * json))) :=
    match alts with
    | [] => Ok []
    | (bss, rem) :: r =>
        do a <- arraycat_one bss p rem rem 0;
        do rest <- arraycat r p;
        Ok (a ++ rest)%list
    end.

  (** The loop over the non-variable pattern elements. *)
  Fixpoint array_elems (xs : list json) (fxs : list json) (fxa0_empty : bool)
           (alts : list (list bindings * list (nat * json)))
    : outcome (option (list json * list (list bindings * list (nat * json)))) :=
    match xs with
    | [] => Ok (Some (fxs, alts))
    | x :: r =>
        if is_scalar x then
          if mem_json x fxs then array_elems r (remove_first_json x fxs) fxa0_empty alts
          else Ok None
        else if fxa0_empty then Ok None
        else
          do alts' <- arraycat alts x;
          match alts' with
          | [] => Ok None
          | _ => array_elems r fxs fxa0_empty alts'
          end
    end.

  Definition combine (alts : list (list bindings * list (nat * json))) : list bindings :=
    concat (map fst alts).

  Definition match_body (p d : json) (bs : bindings) : outcome (list bindings) :=
    match p with
    | JNull => Ok (match d with JNull => [bs] | _ => [] end)
    | JBool x => Ok (match d with JBool y => if Bool.eqb x y then [bs] else [] | _ => [] end)
    | JNum x => Ok (match d with JNum y => if x =? y then [bs] else [] | _ => [] end)
    | JStr s =>
        if negb (is_var s) then
          Ok (match d with JStr t => if String.eqb s t then [bs] else [] | _ => [] end)
        else if is_anon s then Ok [bs]
        else match inequal d bs s with
             | Some r => Ok r
             | None =>
                 match alookup s bs with
                 | Some binding => rec binding d bs
                 | None => Ok [bind s d bs]
                 end
             end
    | JObj pk =>
        match d with
        | JObj dk =>
            match pk with
            | [] => Ok [bs]
            | _ =>
                if (1 <? length pk)%nat && any_var_key pk
                then Err "can't have a variable as a key with other keys"
                else mapcat [bs] (length pk =? 1)%nat pk dk
            end
        | _ => Ok []
        end
    | JArr pl =>
        do vx <- get_variable pl "" [];
        let '(v, xs) := vx in
        match d with
        | JArr dl =>
            let '(fxs, fxa) := split_array 0 dl [] [] in
            do r <- array_elems xs fxs (match fxa with [] => true | _ => false end) [([bs], fxa)];
            match r with
            | None => Ok []
            | Some (lefto, alts) =>
                let n := length dl in
                let extra := combine_extra n lefto in
                let alts1 := map (fun a => (fst a, (snd a ++ extra)%list)) alts in
                if String.eqb v "" then Ok (combine alts1)
                else
                  do alts2 <- arraycat alts1 (JStr v);
                  match alts2 with
                  | [] => if is_optvar v then Ok (combine alts1) else Ok []
                  | _ => Ok (combine alts2)
                  end
            end
        | _ => Ok []
        end
    end.
End MatchBody.

Fixpoint jmatch (fuel : nat) (p d : json) (bs : bindings) : outcome (list bindings) :=
  match fuel with
  | O => OutOfFuel
  | S f => match_body (jmatch f) p d bs
  end.

Definition bsize (bs : bindings) : nat :=
  fold_right (fun kv n => (S (jsize (snd kv)) + n)%nat) O bs.

Definition match_fuel (p d : json) (bs : bindings) : nat :=
  (jsize p + jsize d + bsize bs + 10)%nat.

(** core.Match / core.Matches (cast is the identity on JSON values). *)
Definition core_match (p d : json) (bs : bindings) : outcome (list bindings) :=
  jmatch (match_fuel p d bs) p d bs.

(** * The fragment and the specification *)

(** Variables of a pattern (with repetitions; the anonymous "?" excluded). *)
Fixpoint pvars (p : json) : list string :=
  match p with
  | JStr s => if is_var s && negb (is_anon s) then [s] else []
  | JArr l => flat_map pvars l
  | JObj kvs => flat_map (fun kv => ((if is_var (fst kv) && negb (is_anon (fst kv)) then [fst kv] else []) ++ pvars (snd kv))%list) kvs
  | _ => []
  end.

Definition is_ineq_name (s : string) : bool :=
  match find_ineq ineq_ops (substring 1 (String.length s - 1) s) with
  | Some _ => (2 <? String.length s)%nat
  | None => false
  end.

Fixpoint count_str (s : string) (l : list string) : nat :=
  match l with [] => O | x :: r => ((if String.eqb s x then 1 else 0) + count_str s r)%nat end.

Fixpoint distinct_json (l : list json) : bool :=
  match l with [] => true | x :: r => negb (mem_json x r) && distinct_json r end.

(** Well-formed patterns: no optional variables, no inequality names, at most
    one variable per array, distinct scalar constants per array, a property
    variable only as the single key of its map. *)
Fixpoint wfp (p : json) : bool :=
  match p with
  | JStr s => negb (is_optvar s) && negb (is_var s && is_ineq_name s)
  | JArr l =>
      (length (filter (fun x => match x with JStr s => is_var s | _ => false end) l) <=? 1)%nat &&
      distinct_json (filter (fun x => is_scalar x && negb (match x with JStr s => is_var s | _ => false end)) l) &&
      forallb wfp l
  | JObj kvs =>
      (negb (any_var_key kvs) || (length kvs =? 1)%nat) &&
      forallb (fun kv => negb (is_optvar (fst kv)) && negb (is_var (fst kv) && is_ineq_name (fst kv)) && wfp (snd kv)) kvs
  | _ => true
  end.

(** Ground data: no string value or key starts with "?". *)
Fixpoint ground (d : json) : bool :=
  match d with
  | JStr s => negb (is_var s)
  | JArr l => forallb ground l
  | JObj kvs => forallb (fun kv => negb (is_var (fst kv)) && ground (snd kv)) kvs
  | _ => true
  end.

Definition ground_bs (bs : bindings) : bool := forallb (fun kv => ground (snd kv)) bs.

(** May a variable that must re-match (it occurs twice in the pattern or is
    already bound) land on a structured value?  Over-approximation by walking
    the pattern over the data. *)
Fixpoint lands_struct (fuel : nat) (risky : string -> bool) (p d : json) : bool :=
  match fuel with
  | O => true
  | S f =>
      match p with
      | JStr s => is_var s && risky s && negb (is_scalar d)
      | JObj pk =>
          match d with
          | JObj dk =>
              existsb (fun kv =>
                         if is_var (fst kv)
                         then existsb (fun e => lands_struct f risky (snd kv) (snd e)) dk
                         else match alookup (fst kv) dk with
                              | Some dv => lands_struct f risky (snd kv) dv
                              | None => false
                              end) pk
          | _ => false
          end
      | JArr pl =>
          match d with
          | JArr dl => existsb (fun x => existsb (fun y => lands_struct f risky x y) dl) pl
          | _ => false
          end
      | _ => false
      end
  end.

Definition struct_risk (p d : json) (bs : bindings) : bool :=
  let vs := pvars p in
  let risky s := (2 <=? count_str s vs)%nat || (match alookup s bs with Some _ => true | None => false end) in
  lands_struct (jsize p + 1) risky p d ||
  existsb (fun kv => mem_str (fst kv) vs && negb (is_scalar (snd kv))) bs.

(** ** Specification: [lay fuel p d b] — pattern [p] lays over data [d] as a
    partial match under the (fixed) assignment [b]. *)

(** All ways to pick one element out of a list (element, rest). *)
Fixpoint picks {A} (l : list A) : list (A * list A) :=
  match l with
  | [] => []
  | x :: r => (x, r) :: map (fun pr => (fst pr, x :: snd pr)) (picks r)
  end.

Fixpoint dedup_scalars (l : list json) (seen : list json) : list json :=
  match l with
  | [] => []
  | y :: r => if is_scalar y
              then if mem_json y seen then dedup_scalars r seen else y :: dedup_scalars r (y :: seen)
              else y :: dedup_scalars r seen
  end.

Section LayBody.
  Variable rec : json -> json -> bool.
  (** Injective laying of the pattern elements over the data elements. *)
  Fixpoint lay_inj (fuel : nat) (pl : list json) (dl : list json) : bool :=
    match fuel with
    | O => false
    | S f =>
        match pl with
        | [] => true
        | x :: r => existsb (fun pr => rec x (fst pr) && lay_inj f r (snd pr)) (picks dl)
        end
    end.
End LayBody.

Fixpoint lay (fuel : nat) (b : bindings) (p d : json) : bool :=
  match fuel with
  | O => false
  | S f =>
      match p with
      | JNull => match d with JNull => true | _ => false end
      | JBool x => match d with JBool y => Bool.eqb x y | _ => false end
      | JNum x => match d with JNum y => x =? y | _ => false end
      | JStr s =>
          if negb (is_var s) then match d with JStr t => String.eqb s t | _ => false end
          else if is_anon s then true
          else match alookup s b with Some v => json_eqb v d | None => false end
      | JObj pk =>
          match d with
          | JObj dk =>
              match pk with
              | [(k, pv)] =>
                  if is_var k
                  then existsb (fun e => lay f b (JStr k) (JStr (fst e)) && lay f b pv (snd e)) dk
                  else match alookup k dk with Some dv => lay f b pv dv | None => false end
              | _ =>
                  forallb (fun kv => negb (is_var (fst kv)) &&
                                     match alookup (fst kv) dk with
                                     | Some dv => lay f b (snd kv) dv
                                     | None => false
                                     end) pk
              end
          | _ => false
          end
      | JArr pl =>
          match d with
          | JArr dl => lay_inj (lay f b) (S (length pl)) pl (dedup_scalars dl [])
          | _ => false
          end
      end
  end.

Definition lay_fuel (p : json) : nat := (jsize p + 2)%nat.

(** Sub-values of the data (candidate values for variables), and its keys. *)
Fixpoint subvalues (d : json) : list json :=
  d :: match d with
       | JArr l => flat_map subvalues l
       | JObj kvs => flat_map (fun kv => (JStr (fst kv) :: subvalues (snd kv))%list) kvs
       | _ => []
       end.

Fixpoint dedup_json (l : list json) : list json :=
  match l with [] => [] | x :: r => if mem_json x r then dedup_json r else x :: dedup_json r end.

(** All extensions of [bs] that bind each variable of [vs] (not yet bound) to a candidate. *)
Fixpoint assignments (vs : list string) (cands : list json) (bs : bindings) : list bindings :=
  match vs with
  | [] => [bs]
  | x :: r =>
      match alookup x bs with
      | Some _ => assignments r cands bs
      | None => flat_map (fun v => assignments r cands (bind x v bs)) cands
      end
  end.

(** The specification as a brute-force function: every assignment of the
    pattern's unbound variables to sub-values of the data under which the
    pattern lays over the data. *)
Definition spec_match (p d : json) (bs : bindings) : list bindings :=
  let vs := dedup_str (pvars p) in
  filter (fun b => lay (lay_fuel p) b p d) (assignments vs (dedup_json (subvalues d)) bs).

Definition spec_space (p d : json) (bs : bindings) : nat :=
  Nat.pow (length (dedup_json (subvalues d))) (length (dedup_str (pvars p))).
