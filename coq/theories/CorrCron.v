(** Correspondence checker for the domain "cron": replays an observed timed
    script on the real cron.Cron through the model of Cron.v.

    The model's [CTick]/[CDone] operations are not observed directly: the
    checker derives them from the model's own timer ([c_armed]) and from the
    callbacks' durations (event-driven simulation, [advance]); what is
    compared with the observation is: the result of every Add/Rem, every
    snapshot of the Timeline (ids, Next, order), and the number of firings of
    every id at every snapshot (each observed firing instant must not precede
    the model's tick).  An operation closer than [margin] to a simulated
    event is not compared (ambiguous).

    The specification is judged on the observation alone ([judge]). *)
From Verif Require Import Json Cron.

Definition ms : Z := 1000000.
Definition sec : Z := 1000000000.
Definition margin : Z := 10 * ms.
Definition late : Z := 300 * ms.
Definition op_late : Z := 15 * ms.

Definition next_sec (t : Z) : Z := (t / sec + 1) * sec.

(** * Event-driven simulation *)

Record sim := mkSim {
  s_c : cron;
  s_pend : list (string * Z);       (* running callbacks: id, instant of return *)
  s_block : option Z;               (* the loop sleeps in "pause" until then *)
  s_stall : bool;                   (* a stalled state was reached *)
  s_infl : bool;                    (* Rem/Add of an id whose callback was running *)
  s_suspfire : bool                 (* a job was popped while suspendedLocally *)
}.

Fixpoint min_pend (l : list (string * Z)) : option (string * Z) :=
  match l with
  | [] => None
  | (id, t) :: r =>
      match min_pend r with
      | Some (id', t') => if t' <? t then Some (id', t') else Some (id, t)
      | None => Some (id, t)
      end
  end.

Fixpoint remove_pend (id : string) (t : Z) (l : list (string * Z)) : list (string * Z) :=
  match l with
  | [] => []
  | (id', t') :: r => if String.eqb id id' && (t =? t') then r else (id', t') :: remove_pend id t r
  end.

Inductive evk := EvDone (id : string) | EvUnblock | EvTick.

(** The next simulated event: completions first, then the end of a pause,
    then the timer (which is not served while the loop sleeps). *)
Definition next_event (s : sim) : option (Z * evk) :=
  let d := match min_pend (s_pend s) with Some (id, t) => Some (t, EvDone id) | None => None end in
  let u := match s_block s with Some b => Some (b, EvUnblock) | None => None end in
  let k := match s_block s, c_armed (s_c s) with
           | None, Some t => Some (t, EvTick)
           | _, _ => None
           end in
  let pick (a b : option (Z * evk)) :=
    match a, b with
    | Some (ta, ea), Some (tb, eb) => if tb <? ta then Some (tb, eb) else Some (ta, ea)
    | Some x, None => Some x
    | None, y => y
    end in
  pick (pick d u) k.

Definition upd_flags (s : sim) (c' : cron) (pend' : list (string * Z)) (blk : option Z)
           (infl suspfire : bool) : sim :=
  mkSim c' pend' blk (s_stall s || (stalled c' && match blk with None => true | Some _ => false end))
        (s_infl s || infl) (s_suspfire s || suspfire).

(** [slow id k t]: the instant at which the callback of the k-th firing of
    [id], entered at [t], returns. *)
Definition fires_so_far (c : cron) (id : string) : nat :=
  length (filter (fun f => String.eqb (f_id f) id) (c_fires c)).

Definition apply_event (slow : string -> nat -> Z -> Z) (s : sim) (t : Z) (e : evk) : sim :=
  let c := s_c s in
  match e with
  | EvDone id =>
      upd_flags s (step c (CDone id t (next_sec t))) (remove_pend id t (s_pend s)) (s_block s) false false
  | EvUnblock =>
      upd_flags s (step c (CPause t)) (s_pend s) None false false
  | EvTick =>
      let c' := step c (CTick t) in
      match c_tl c with
      | j :: _ =>
          if negb (c_susp c) && (j_next j <=? t)
          then upd_flags s c' ((j_id j, slow (j_id j) (fires_so_far c (j_id j)) t) :: s_pend s) (s_block s) false (c_susp c)
          else upd_flags s c' (s_pend s) (s_block s) false false
      | [] => upd_flags s c' (s_pend s) (s_block s) false false
      end
  end.

(** Process every event strictly before [T]. *)
Fixpoint advance (fuel : nat) (slow : string -> nat -> Z -> Z) (s : sim) (T : Z) : sim :=
  match fuel with
  | O => s
  | S f =>
      match next_event s with
      | Some (t, e) => if t <? T then advance f slow (apply_event slow s t e) T else s
      | None => s
      end
  end.

Definition next_event_time (s : sim) : option Z :=
  match next_event s with Some (t, _) => Some t | None => None end.

(** * Decoding *)

Definition slow_table (script : list json) : list (string * Z) :=
  flat_map (fun o => if String.eqb (jfS "op" o) "add" && (0 <? jfZ "slow" o)
                     then [(jfS "id" o, jfZ "slow" o * ms)] else []) script.
(** The return instant of a slow callback is taken from the observation when
    the final fire log has it (sleeps overshoot under load). *)
Definition slow_of (tbl : list (string * Z)) (ends : list (string * Z)) (id : string) (k : nat) (t : Z) : Z :=
  match alookup id tbl with
  | Some z =>
      match nth_error (filter (fun p => String.eqb (fst p) id) ends) k with
      | Some (_, e) => if t <? e then e else t + z
      | None => t + z
      end
  | None => t
  end.

Definition enc_job (j : cjob) : json :=
  JObj [("id", JStr (j_id j)); ("next", JNum (j_next j)); ("rec", JBool (j_rec j))].
Definition enc_tl (tl : list cjob) : json := JArr (map enc_job tl).

Definition dec_tl (l : list json) : list cjob :=
  map (fun o => mkJob (jfS "id" o) (jfZ "next" o) (jfB "rec" o)) l.

Definition job_eqb (a b : cjob) : bool :=
  String.eqb (j_id a) (j_id b) && (j_next a =? j_next b) && Bool.eqb (j_rec a) (j_rec b).

(** Jobs with equal [Next] (recurring jobs of one second) are re-inserted by
    racing goroutines: their relative order is not determined.  Timelines are
    compared after ordering such runs by id (the observed timeline's own
    sortedness is judged by the specification clause [timeline_sorted]). *)
Definition job_leb (a b : cjob) : bool :=
  (j_next a <? j_next b) || ((j_next a =? j_next b) && str_leb (j_id a) (j_id b)).
Fixpoint insert_job (x : cjob) (l : list cjob) : list cjob :=
  match l with
  | [] => [x]
  | y :: r => if job_leb x y then x :: l else y :: insert_job x r
  end.
Definition canon_tl (l : list cjob) : list cjob := fold_right insert_job [] l.

Definition has_next (o : json) : bool :=
  match jget "next" o with Some (JNum _) => true | _ => false end.

Fixpoint times_of (id : string) (l : list (string * Z)) : list Z :=
  match l with
  | [] => []
  | (i, t) :: r => if String.eqb i id then t :: times_of id r else times_of id r
  end.

Definition model_fires (c : cron) : list (string * Z) :=
  map (fun f => (f_id f, f_now f)) (rev (c_fires c)).
Definition obs_fires (o : json) : list (string * Z) :=
  map (fun f => (jfS "id" f, jfZ "t" f)) (jfL "fires" o).

(** Per id: same number of firings, no observed firing before the model's
    tick; a firing much later than the tick makes the rest ambiguous. *)
Inductive fcmp := FSame | FLate | FDiff (why : string).

(** [T] is the instant of the snapshot: a firing the model expects less than
    100 ms before it may simply not have started yet. *)
Fixpoint cmp_times (T : Z) (m o : list Z) : fcmp :=
  match m, o with
  | [], [] => FSame
  | tm :: m', to :: o' =>
      if to <? tm then FDiff "a callback ran before the model's tick"
      else match cmp_times T m' o' with
           | FSame => if tm + op_late <? to then FLate else FSame
           | r => r
           end
  | [], _ :: _ => FDiff "the implementation fired more often than the model"
  | tm :: _, [] => if T - 100 * ms <? tm then FLate
                   else FDiff "the model fired more often than the implementation"
  end.

Fixpoint cmp_fires (T : Z) (ids : list string) (m o : list (string * Z)) : fcmp :=
  match ids with
  | [] => FSame
  | id :: r =>
      match cmp_times T (times_of id m) (times_of id o) with
      | FSame => cmp_fires T r m o
      | FLate => match cmp_fires T r m o with FDiff w => FDiff w | _ => FLate end
      | FDiff w => FDiff (String.append (String.append id ": ") w)
      end
  end.

(** * Replay *)

Record res := mkRes {
  r_sim : sim;
  r_fail : option (Z * string * json);
  r_amb : Z;
  r_feats : list string;
  r_stop : bool
}.

Definition inflight_has (c : cron) (id : string) : bool :=
  existsb (fun p => String.eqb (j_id (fst p)) id) (c_inflight c).
Definition tl_has (c : cron) (id : string) : bool :=
  existsb (fun j => String.eqb (j_id j) id) (c_tl c).
Definition head_is (c : cron) (id : string) : bool :=
  match c_tl c with j :: _ :: _ => String.eqb (j_id j) id | _ => false end.

Definition replay_op (slow : string -> nat -> Z -> Z) (start pause : Z) (k : Z) (r : res) (o : json) : res :=
  (* after a failure nothing more is replayed; after an ambiguity the replay
     goes on without comparing (the flags for the known findings stay exact) *)
  match r_fail r with Some _ => r | None =>
  let tb := jfZ "tb" o in
  let ta := jfZ "ta" o in
  let s := advance 4000 slow (r_sim r) (tb - margin) in
  let near := match next_event_time s with Some t => t <? ta + margin | None => false end
              || (start + jfZ "at" o * ms + op_late <? tb) in
  let blind := r_stop r || near in
  let amb := if near && negb (r_stop r) then r_amb r + 1 else r_amb r in
  let c := s_c s in
  let op := jfS "op" o in
  let fail why m :=
    if blind then mkRes s None amb (r_feats r) true
    else mkRes s (Some (k, why, m)) amb (r_feats r) true in
  let cont s' fs := mkRes s' None amb (if blind then r_feats r else (fs ++ r_feats r)%list) blind in
  if String.eqb op "add" then
    let id := jfS "id" o in
    let recurring := String.eqb (jfS "kind" o) "rec" in
    let next := jfZ "next" o in
    let okm := add_ok c id next recurring tb in
    let oko := String.eqb (jfS "err" o) "" in
    if negb blind && negb (Bool.eqb okm oko) then fail "Add: error verdict differs" (JBool okm)
    else if negb blind && oko && negb (has_next o) then fail "Add succeeded but the job is not on the timeline" JNull
    else
      let c' := step c (CAdd id next recurring tb) in
      let infl := inflight_has c id in
      cont (upd_flags s c' (s_pend s) (s_block s) infl false)
           [if negb okm then (if tl_has c id then "add-limit-replace-refused" else "add-limit")
            else if tl_has c id then "add-replace" else "add-new";
            if recurring then "add-rec" else if String.eqb (jfS "kind" o) "far" then "add-far" else "add-soon";
            if infl then "add-inflight" else "";
            if c_susp c then "add-while-suspended" else ""]
  else if String.eqb op "rem" then
    let id := jfS "id" o in
    let fm := rem_found c id in
    if negb blind && negb (Bool.eqb fm (jfB "found" o)) then fail "Rem: found differs" (JBool fm)
    else
      let c' := step c (CRem id tb) in
      let infl := inflight_has c id in
      cont (upd_flags s c' (s_pend s) (s_block s) infl false)
           [if fm then "rem-found" else "rem-missing";
            if head_is c id then "rem-head" else "";
            if infl then "rem-inflight" else ""]
  else if String.eqb op "suspend" then
    cont (upd_flags s (step c CSuspend) (s_pend s) (s_block s) false false) ["suspend"]
  else if String.eqb op "resume" then
    cont (upd_flags s (step c (CResume tb)) (s_pend s) (s_block s) false false)
         [if c_susp c then "resume" else "resume-noop"]
  else if String.eqb op "pause" then
    cont (upd_flags s c (s_pend s) (Some (tb + pause)) false false) ["pause"]
  else if String.eqb op "snap" then
    if blind then cont s [] else
    let otl := dec_tl (jfL "tl" o) in
    let mf := model_fires c in
    let of_ := obs_fires o in
    let ids := dedup_str (map fst mf ++ map fst of_)%list in
    let fc := cmp_fires tb ids mf of_ in
    (* a callback that started late makes everything after it uncertain,
       the timeline of this snapshot included *)
    match fc with
    | FLate => mkRes s None (amb + 1) ("snap" :: r_feats r) true
    | _ =>
    if negb (list_eqb job_eqb (canon_tl (c_tl c)) (canon_tl otl)) then fail "snapshot: Timeline differs" (enc_tl (c_tl c))
    else
      match fc with
      | FDiff w => fail (String.append "snapshot: fire log differs: " w)
                        (JArr (map (fun p => JObj [("id", JStr (fst p)); ("t", JNum (snd p))]) mf))
      | _ =>
          cont s ["snap";
                  if existsb (fun f => negb (f_rec f)) (c_fires c) then "fire-oneshot" else "";
                  if existsb f_rec (c_fires c) then "fire-rec" else "";
                  if s_stall s then "stall" else "";
                  if s_suspfire s then "fire-while-suspended" else ""]
      end
    end
  else fail (String.append "unknown op " op) JNull
  end.

Fixpoint replay (slow : string -> nat -> Z -> Z) (start pause : Z) (k : Z) (r : res) (ops : list json) : res :=
  match ops with
  | [] => r
  | o :: rest => replay slow start pause (k + 1) (replay_op slow start pause k r o) rest
  end.

(** * The specification, judged on the observation *)

Record oadd := mkOAdd { a_id : string; a_rec : bool; a_next : Z; a_tb : Z; a_ta : Z; a_ok : bool }.

Definition dec_add (o : json) : oadd :=
  mkOAdd (jfS "id" o) (String.eqb (jfS "kind" o) "rec") (jfZ "next" o) (jfZ "tb" o) (jfZ "ta" o)
         (String.eqb (jfS "err" o) "" && has_next o).

Definition is_op (name : string) (o : json) : bool := String.eqb (jfS "op" o) name.

Definition inf : Z := 4000000000000000000.

(** End of the life of the job added as [id]: the next successful Add or any
    Rem of that id, later in the script: (tb, ta), or (inf, inf). *)
Fixpoint life_end (id : string) (rest : list json) : Z * Z :=
  match rest with
  | [] => (inf, inf)
  | o :: r =>
      if String.eqb (jfS "id" o) id &&
         ((is_op "add" o && a_ok (dec_add o)) || is_op "rem" o)
      then (jfZ "tb" o, jfZ "ta" o) else life_end id r
  end.

(** Next successful Add of [id] later in the script (its tb), or inf. *)
Fixpoint next_add (id : string) (rest : list json) : Z :=
  match rest with
  | [] => inf
  | o :: r =>
      if String.eqb (jfS "id" o) id && is_op "add" o && a_ok (dec_add o)
      then jfZ "tb" o else next_add id r
  end.

(** Suspension intervals [(from, to)] ([to = inf] when never resumed) and
    pause intervals. *)
Fixpoint suspensions (pause : Z) (script : list json) : list (Z * Z) :=
  match script with
  | [] => []
  | o :: r =>
      if is_op "suspend" o then
        let fix find (l : list json) : Z :=
          match l with
          | [] => inf
          | x :: l' => if is_op "resume" x then jfZ "ta" x else find l'
          end in
        (jfZ "tb" o, find r) :: suspensions pause r
      else if is_op "pause" o then (jfZ "tb" o, jfZ "ta" o + pause) :: suspensions pause r
      else suspensions pause r
  end.

(** The instant from which the job must be served: its due time, or the end
    of the suspension that covers it. *)
Fixpoint deadline (due : Z) (susp : list (Z * Z)) : Z :=
  match susp with
  | [] => due
  | (a, b) :: r => if (a - margin <=? due) && (due <=? b) then deadline b r else deadline due r
  end.

Definition count_in (id : string) (lo hi : Z) (fires : list (string * Z)) : Z :=
  Z.of_nat (length (filter (fun f => String.eqb (fst f) id && (lo <=? snd f) && (snd f <? hi)) fires)).

Fixpoint distinct_secs (l : list Z) : bool :=
  match l with
  | [] => true
  | t :: r => negb (existsb (fun u => u / sec =? t / sec) r) && distinct_secs r
  end.

(** The latest successful Add of [id] that started before [t]. *)
Fixpoint latest_add (id : string) (t : Z) (script : list json) (acc : option oadd) : option oadd :=
  match script with
  | [] => acc
  | o :: r =>
      if is_op "add" o && String.eqb (jfS "id" o) id && a_ok (dec_add o) && (jfZ "tb" o <=? t)
      then latest_add id t r (Some (dec_add o)) else latest_add id t r acc
  end.

Fixpoint sorted_next (l : list cjob) : bool :=
  match l with
  | [] => true
  | x :: r => match r with
              | [] => true
              | y :: _ => (j_next x <=? j_next y) && sorted_next r
              end
  end.

Fixpoint nodup_str (l : list string) : bool :=
  match l with [] => true | x :: r => negb (mem_str x r) && nodup_str r end.

Definition first_fail (l : list (string * string * bool)) : option (string * string) :=
  match filter (fun x => negb (snd x)) l with
  | (op, why, _) :: _ => Some (op, why)
  | [] => None
  end.

(** Clauses judged for the job added by [o] (rest = the script after it). *)
Definition judge_add (o : json) (rest : list json) (fires : list (string * Z)) (susp : list (Z * Z))
           (tend : Z) : list (string * string * bool) :=
  let a := dec_add o in
  if negb (a_ok a) then [] else
  let '(etb, eta) := life_end (a_id a) rest in
  let n := count_in (a_id a) (a_tb a) eta fires in
  if a_rec a then
    let wend := Z.min etb tend in
    let occ := if wend <? a_next a then 0 else (wend - a_next a) / sec + 1 in
    let ts := map snd (filter (fun f => String.eqb (fst f) (a_id a) && (a_tb a <=? snd f) && (snd f <? eta)) fires) in
    [("recurring_once_per_occurrence", "two firings of a recurring job within one second", distinct_secs ts);
     ("recurring_once_per_occurrence", "more firings than occurrences", n <=? occ + 1);
     ("recurring_fires", "fewer firings than occurrences",
      match susp with [] => occ - 1 <=? n | _ => true end)]
  else
    let dl := deadline (a_next a) susp in
    [("oneshot_fires_at_most_once", "a one-shot job fired more than once", n <=? 1);
     ("oneshot_fires", "a pending one-shot job did not fire although its due time passed",
      if dl + late <=? Z.min etb tend then 1 <=? n else true)].

Fixpoint judge_script (script : list json) (all : list json) (fires : list (string * Z))
         (susp : list (Z * Z)) (tend : Z) : list (string * string * bool) :=
  match script with
  | [] => []
  | o :: rest =>
      ((if is_op "add" o then
          (("refused_add_no_effect", "a refused Add removed the pending job of that id",
            if negb (String.eqb (jfS "err" o) "") && jfB "had" o then has_next o else true)
           :: judge_add o rest fires susp tend)
        else if is_op "rem" o then
          let id := jfS "id" o in
          [("removed_never_fires", "a job fired after its removal",
            count_in id (jfZ "ta" o + 1) (next_add id rest) fires =? 0)]
        else if is_op "snap" o then
          let tl := dec_tl (jfL "tl" o) in
          [("timeline_sorted", "Timeline not sorted by Next", sorted_next tl);
           ("unique_ids", "two pending entries with one id", nodup_str (map j_id tl))]
        else [])
       ++ judge_script rest all fires susp tend)%list
  end.

Definition judge_fires (script : list json) (fires : list (string * Z)) (susp : list (Z * Z))
  : list (string * string * bool) :=
  (map (fun f =>
          ("no_early_fire", "a callback ran before the due time of the latest Add of its id",
           match latest_add (fst f) (snd f) script None with
           | Some a => a_next a <=? snd f
           | None => false
           end)) fires
   ++ map (fun ab =>
          ("suspend_no_fire", "a callback ran while the instance was suspended or paused",
           negb (existsb (fun f => (fst ab + 2 * margin <? snd f) && (snd f <? snd ab - 2 * margin)) fires)))
        susp)%list.

Fixpoint last_snap (script : list json) (acc : json) : json :=
  match script with
  | [] => acc
  | o :: r => last_snap r (if is_op "snap" o then o else acc)
  end.

Definition judge (pause : Z) (script : list json) : option (string * string) :=
  let fin := last_snap script JNull in
  let fires := obs_fires fin in
  let tend := jfZ "tb" fin in
  let susp := map (fun ab => (fst ab, Z.min (snd ab) tend)) (suspensions pause script) in
  let susp_open := suspensions pause script in
  first_fail (judge_script script script fires susp_open tend ++ judge_fires script fires susp)%list.

Definition jstrs := jstrs_of.

Definition check_cron (c : json) : json :=
  let script := jfL "script" c in
  let pause := jfZ "pause_ms" c * ms in
  let tbl := slow_table script in
  let s0 := mkSim (cron_init (jfZ "limit" c)) [] None false false false in
  let ends := map (fun f => (jfS "id" f, jfZ "e" f)) (jfL "fires" (last_snap script JNull)) in
  let r := replay (slow_of tbl ends) (jfZ "start" c) pause 0 (mkRes s0 None 0 [] false) script in
  let s := r_sim r in
  let j := judge pause script in
  (* D26, D38, D49 and D50 are repaired: a failure of their clauses is a
     violation, not a known finding (the flags stay as features) *)
  let kf : list string := [] in
  let feats := filter (fun f => negb (String.eqb f "")) (dedup_str (r_feats r)) in
  JObj [("ok", JBool (match r_fail r with None => true | Some _ => false end));
        ("at", match r_fail r with Some (k, _, _) => JNum k | None => JNull end);
        ("why", match r_fail r with Some (_, w, _) => JStr w | None => JStr "" end);
        ("model", match r_fail r with Some (_, _, m) => m | None => JNull end);
        ("spec_ok", JBool (match j with None => true | Some _ => false end));
        ("spec_op", match j with Some (op, _) => JStr op | None => JStr "" end);
        ("spec_why", match j with Some (_, w) => JStr w | None => JStr "" end);
        ("kf", jstrs kf);
        ("features", jstrs feats);
        ("nontrivial", JBool (mem_str "snap" feats && (mem_str "fire-oneshot" feats || mem_str "fire-rec" feats)));
        ("ambiguous", JNum (r_amb r))].
