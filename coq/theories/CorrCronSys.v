(** Specification checker for the cron-sys domain (C15): scheduled rules run
    when due, once (one-shot), in their OWN location, and never after removal
    or replacement - also when locations share rule ids.  The expected
    observation for every (location, id) is computed from the last successful
    operation on that pair during the set-up phase (which ends well before the
    first due time). *)
From Verif Require Import Json Outcome.

(** last successful op on (loc, id): "addsched" | "addplain" | "addfar" | "remrule" | "" *)
Definition last_op (ops : list json) (loc id : string) : string :=
  fold_left (fun acc o => if String.eqb (jfS "loc" o) loc && String.eqb (jfS "id" o) id && jfB "ok" o
                          then (* "remdep" removes the fact that an "adddepsched" rule names in deleteWith: the
                                  cascade removes that rule (and only such a rule) *)
                               if String.eqb (jfS "op" o) "remdep"
                               then (if String.eqb acc "adddepsched" then "remrule" else acc)
                               else jfS "op" o
                          else acc) ops "".

Definition expected (ops : list json) (loc id : string) : Z * bool :=
  let l := last_op ops loc id in
  if String.eqb l "addsched" || String.eqb l "adddepsched" then (1, false)      (* ran once, then the one-shot rule deleted itself *)
  else if String.eqb l "addplain" || String.eqb l "addfar"
       then (0, true)  (* replaced by an ordinary rule, or by one scheduled far in the future: never runs, stays *)
  else (0, false).                                (* removed, or never added *)

Definition check_cronsys (c : json) : json :=
  let ops := jfL "ops" c in
  let late := 150 <? jfZ "phase1_ms" c in   (* the set-up phase ran into the first due time: not judged *)
  let bad := filter (fun o => let '(ran, present) := expected ops (jfS "loc" o) (jfS "id" o) in
                              negb ((jfZ "ran" o =? ran) && Bool.eqb (jfB "present" o) present)) (jfL "obs" c) in
  let crashed := negb (String.eqb (jfS "crashed" c) "") in   (* the process died or hung while the jobs ran *)
  let good := negb crashed && (late || match bad with [] => true | _ => false end) in
  let shared := existsb (fun id => (1 <? Z.of_nat (length (filter (fun l => String.eqb (last_op ops (jS l) (jS id)) "addsched") (jfL "locs" c)))))
                        (jfL "ids" c) in
  JObj [("ok", JBool good); ("at", JNull);
        ("why", JStr (if good then "" else if crashed then "the process did not survive the scheduled rules' due time"
                      else "a scheduled rule did not run exactly once in its own location, or ran after removal"));
        ("model", match bad with o :: _ => o | [] => JNull end);
        ("spec_ok", JBool good);
        ("spec_why", JStr (match bad with
                           | o :: _ => if late then "" else String.append "scheduled rule: expected runs/presence differ at " (String.append (jfS "loc" o) (String.append "/" (jfS "id" o)))
                           | [] => "" end));
        ("spec_op", JStr "scheduled-rule-runs-once-in-its-location");
        (* (D38, cron.Rem of the head job did not re-arm the timer, is repaired in /repo: nothing is excused) *)
        (* (D28 (e), LinearState.Load did not hand the stored scheduled rules to the add hook, is repaired in
           /repo: after a restart with a non-persistent cron both kinds of state register them again) *)
        ("kf", jstrs_of []);
        ("features", jstrs_of ((if shared then ["same-id-scheduled-in-two-locations"] else []) ++
                               (if existsb (fun o => String.eqb (jfS "op" o) "remrule" && jfB "ok" o) ops then ["removed-before-due"] else []) ++
                               (if existsb (fun o => String.eqb (jfS "op" o) "remdep" && jfB "ok" o) ops then ["dependency-removed-before-due"] else []) ++
                               (if existsb (fun o => String.eqb (jfS "op" o) "addplain" && jfB "ok" o) ops then ["replaced-before-due"] else []) ++
                               (if jfB "restart" c then ["restart"] else []) ++
                               (if late then ["late"] else []))%list);
        ("nontrivial", JBool shared);
        ("ambiguous", JNum (if late then 1 else 0))].
