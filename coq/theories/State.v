(** Model of core/state.go, state_indexed.go, state_linear.go, termindex.go
    over an abstract Storage (id -> stored JSON), as the code is in /repo
    after the fix: commits D2/D3 (unindex the stored rule on overwrite), D13
    (store the prepared fact), D18 (checked 'when'), D29 (non-map rule is
    skipped by the linear state), D52 (the readers only NOTE the expired
    items they meet; the public entry points purge the noted items under the
    write lock, after the read).  Time is a parameter (Unix seconds).
    Model file: definitions only. *)
From Verif Require Import Json Outcome Match PatIndex.

Inductive skind := Indexed | Linear.

Record state := mkState {
  st_kind : skind;
  st_facts : list (string * json);           (* id -> prepared fact *)
  st_tindex : list (string * list string);   (* term -> ids (indexed state) *)
  st_pindex : pnode;                         (* rule index (indexed state) *)
  st_store : list (string * json);           (* contents of the storage *)
  st_hooks : bool;                           (* cron hooks installed (sys.System) *)
  st_calls : nat;                            (* storage calls made so far *)
  st_fail : option nat;                      (* the storage call with this index fails *)
  st_amb : bool;                             (* ghost, no longer set: an expiry cascade happened inside an iteration *)
  st_pending : list string;                  (* expiredIds: ids of the expired items the readers have met, in the
                                                order they were noted; emptied by purge *)
}.

Definition set_facts s f := mkState (st_kind s) f (st_tindex s) (st_pindex s) (st_store s) (st_hooks s) (st_calls s) (st_fail s) (st_amb s) (st_pending s).
Definition set_tindex s t := mkState (st_kind s) (st_facts s) t (st_pindex s) (st_store s) (st_hooks s) (st_calls s) (st_fail s) (st_amb s) (st_pending s).
Definition set_pindex s p := mkState (st_kind s) (st_facts s) (st_tindex s) p (st_store s) (st_hooks s) (st_calls s) (st_fail s) (st_amb s) (st_pending s).
Definition set_store s st := mkState (st_kind s) (st_facts s) (st_tindex s) (st_pindex s) st (st_hooks s) (st_calls s) (st_fail s) (st_amb s) (st_pending s).
Definition set_amb s a := mkState (st_kind s) (st_facts s) (st_tindex s) (st_pindex s) (st_store s) (st_hooks s) (st_calls s) (st_fail s) a (st_pending s).
Definition set_pending s p := mkState (st_kind s) (st_facts s) (st_tindex s) (st_pindex s) (st_store s) (st_hooks s) (st_calls s) (st_fail s) (st_amb s) p.
Definition set_fail s f := mkState (st_kind s) (st_facts s) (st_tindex s) (st_pindex s) (st_store s) (st_hooks s) (st_calls s) f (st_amb s) (st_pending s).

Definition empty_state (k : skind) (hooks : bool) : state :=
  mkState k [] [] pn_empty [] hooks O None false [].

(** One storage call: returns the state with the call counted and whether
    this call fails. *)
Definition store_call (s : state) : state * bool :=
  let failed := match st_fail s with Some n => Nat.eqb n (st_calls s) | None => false end in
  (mkState (st_kind s) (st_facts s) (st_tindex s) (st_pindex s) (st_store s) (st_hooks s)
           (S (st_calls s)) (st_fail s) (st_amb s) (st_pending s), failed).

(** ** Terms and the inverted index *)

Fixpoint extract_terms_raw (x : json) : list string :=
  match x with
  | JStr s => if negb (is_var s) && (String.length s <? 1024)%nat then [s] else []
  | JObj kvs =>
      (fix go (l : list (string * json)) : list string :=
         match l with
         | [] => []
         | (k, v) :: r =>
             ((if negb (is_var k) && (String.length k <? 1024)%nat then [k] else []) ++
              (if String.eqb k "rule" || has_suffix "!" k then [] else extract_terms_raw v) ++
              go r)%list
         end) kvs
  | JArr l =>
      (fix go (l : list json) : list string :=
         match l with [] => [] | y :: r => (extract_terms_raw y ++ go r)%list end) l
  | _ => []
  end.
Definition extract_terms (x : json) : list string := fold_right sset_add [] (extract_terms_raw x).

Definition ti_ids (idx : list (string * list string)) (t : string) : list string :=
  match alookup t idx with Some ids => ids | None => [] end.
Definition ti_add (t id : string) (idx : list (string * list string)) :=
  ainsert t (sset_add id (ti_ids idx t)) idx.
Definition ti_rem (t id : string) (idx : list (string * list string)) :=
  match alookup t idx with
  | None => idx
  | Some ids => match sset_rem id ids with
                | [] => aremove t idx
                | ids' => ainsert t ids' idx
                end
  end.

(** TermIndex.Search, as written (the "smallest" selection never updates
    lowestCount; the result is the intersection whatever it picks). *)
Fixpoint ti_pick_smallest (idx : list (string * list string)) (terms : list string)
         (i : nat) (lowest : nat) (smallest : nat) : option nat :=
  match terms with
  | [] => Some smallest
  | t :: r =>
      let c := length (ti_ids idx t) in
      if Nat.eqb c 0 then None
      else ti_pick_smallest idx r (S i) lowest (if (c <? lowest)%nat then i else smallest)
  end.

Definition ti_search (idx : list (string * list string)) (terms : list string) : outcome (list string) :=
  match terms with
  | [] => Err "No terms given."
  | t0 :: r =>
      match ti_pick_smallest idx r 1 (length (ti_ids idx t0)) 0 with
      | None => Ok []
      | Some sm =>
          Ok (fold_left (fun acc t => sset_inter acc (ti_ids idx t)) terms
                        (ti_ids idx (nth sm terms "")))
      end
  end.

(** ** PrepareFact *)

Definition str_tail (s : string) : string := match s with String _ r => r | EmptyString => "" end.

Definition id_props (m : list (string * json)) : list (string * json) :=
  filter (fun kv => has_prefix "!" (fst kv)) m.

Definition gen_id (m : list (string * json)) (given fresh : string) : outcome string :=
  match id_props m with
  | [] => Ok (if String.eqb given "" then fresh else given)
  | [(p, _)] =>
      match alookup "id" m with
      | None => Ok (String.append "!" (String.append "" (String.append "." (str_tail p))))
      | Some (JStr s) => Ok (String.append "!" (String.append s (String.append "." (str_tail p))))
      | Some _ => Err "bad id value"
      end
  | _ => Err "more than one IdProperty"
  end.

(** Durations: the modelled fragment is "<digits>s". *)
Fixpoint digits_val (s : string) (acc : Z) : option (Z * string) :=
  match s with
  | String c r =>
      let n := Z.of_nat (nat_of_ascii c) in
      if (48 <=? n) && (n <=? 57) then digits_val r (acc * 10 + (n - 48))
      else Some (acc, s)
  | EmptyString => Some (acc, "")
  end.
Definition parse_secs (s : string) : option Z :=
  match s with
  | String c _ =>
      let n := Z.of_nat (nat_of_ascii c) in
      if (48 <=? n) && (n <=? 57) then
        match digits_val s 0 with
        | Some (v, "s") => Some v
        | _ => None
        end
      else None
  | _ => None
  end.

(** setExpires: returns the updated map, whether it expires, and the instant.
    [aux] is the harness's parse of an RFC3339 'expires' string. *)
Definition set_expires (m : list (string * json)) (now : Z) (aux : option Z)
  : outcome (list (string * json) * bool * Z) :=
  do m1 <- match alookup "ttl" m with
           | None => Ok m
           | Some t =>
               let m' := aremove "ttl" m in
               match t with
               | JNum v => Ok (ainsert "expires" (JNum (now + v)) m')
               | JStr s => match parse_secs s with
                           | Some n => Ok (ainsert "expires" (JNum (now + n)) m')
                           | None => Err "bad duration"
                           end
               | _ => Err "bad TTL"
               end
           end;
  match alookup "expires" m1 with
  | None => Ok (m1, false, 0)
  | Some e =>
      do em <- match e with
               | JNum v => Ok (v, m1)
               | JStr _ => match aux with
                           | Some v => Ok (v, ainsert "expires" (JNum v) m1)
                           | None => Err "bad time"
                           end
               | _ => Err "Expected a string or number for expires"
               end;
      let '(E, m2) := em in
      match alookup "rule" m2 with
      | None => Ok (m2, true, E)
      | Some (JObj r) => Ok (ainsert "rule" (JObj (ainsert "expires" (JNum E) r)) m2, true, E)
      | Some _ => Err "'rule' isn't a rule"
      end
  end.

Definition not_after (secs now : Z) : bool := negb (secs =? 0) && (secs <=? now).

Definition prepare_fact (given : string) (x : json) (now : Z) (fresh : string) (aux : option Z)
  : outcome (string * json) :=
  let m := jO x in
  do id <- gen_id m given fresh;
  do r <- set_expires m now aux;
  let '(m', expiring, E) := r in
  if expiring && not_after E now then Err "expired" else Ok (id, JObj m').

Definition fact_expires (fact : json) : Z :=
  match jget "expires" fact with Some (JNum v) => v | _ => 0 end.
Definition fact_expired (fact : json) (now : Z) : bool := not_after (fact_expires fact) now.

(** ExtractRule *)
Definition extract_rule (fact : json) (required : bool) : outcome (option json) :=
  match jget "rule" fact with
  | Some (JObj r) =>
      Ok (Some (JObj (match jget "expires" fact with Some e => ainsert "expires" e r | None => r end)))
  | Some _ => if required then Err "rule body is not a rule" else Ok None
  | None => if required then Err "Rule body missing" else Ok None
  end.

(** GetRulePatterns (after the D18 fix: unchecked assertions are checked). *)
Definition rule_patterns (rule : json) : option json :=
  match jget "when" rule with
  | Some (JObj w) =>
      match alookup "pattern" w with
      | Some (JObj p) => Some (JObj p)
      | Some _ => None
      | None => Some (JObj w)
      end
  | _ => None
  end.

(** isScheduled (after the repair of D66): the member is there and it is
    neither null nor the empty string -- a missing, null or empty schedule is no
    schedule, as in RuleFromMap ([rule_from_map] below).  (`schedule != nil &&
    schedule != ""` on an interface value: anything that is not the string ""
    is different from it, also numbers, booleans, maps, arrays.)  A scheduled
    rule is not in the rule index. *)
Definition is_scheduled (rule : json) : bool :=
  match jget "schedule" rule with
  | None | Some JNull => false
  | Some (JStr sch) => negb (String.eqb sch "")
  | Some _ => true
  end.

(** unindexRule (after the repair of D66): nothing for a scheduled rule, which
    was never indexed whatever its 'when' is. *)
Definition unindex_rule (s : state) (id : string) (rule : json) : state :=
  if is_scheduled rule then s else
  match rule_patterns rule with
  | None => s
  | Some p => set_pindex s (fst (pi_rem (st_pindex s) p id))
  end.

Definition index_rule (s : state) (id : string) (rule : json) : state * option string :=
  match rule_patterns rule with
  | None => (s, Some "No 'when' in rule.")
  | Some p => let '(n, e) := pi_add (st_pindex s) p id in (set_pindex s n, e)
  end.

Definition dw_pattern (id : string) : json := JObj [("deleteWith", JArr [JStr id])].

Definition count_facts (s : state) : nat := length (st_facts s).

(** expiredIds.note *)
Definition note_expired (s : state) (id : string) : state :=
  set_pending s (st_pending s ++ [id])%list.

(** expire (IndexedState.expire / LinearState.expire after the repair of D52):
    nothing is removed here.  An expired fact is reported as such (the reader
    skips it) and its id is noted for [purge]. *)
Definition expire (s : state) (id : string) (fact : json) (now : Z) : state * bool :=
  if fact_expired fact now then (note_expired s id, true) else (s, false).

(** Iterate over candidate ids: skip the ones that are not present, note and
    skip the expired ones, re-match the others.  Result: (id, bindings list)
    of the matching live facts.  The fact map is not modified. *)
Fixpoint search_ids (s : state) (ids : list string) (pattern : json) (now : Z)
         (acc : list (string * list bindings)) : state * outcome (list (string * list bindings)) :=
  match ids with
  | [] => (s, Ok (rev acc))
  | id :: r =>
      match alookup id (st_facts s) with
      | None => search_ids s r pattern now acc
      | Some fact =>
          let '(s1, expired) := expire s id fact now in
          if expired then search_ids s1 r pattern now acc
          else match core_match pattern fact [] with
               | Ok [] => search_ids s1 r pattern now acc
               | Ok bss => search_ids s1 r pattern now ((id, bss) :: acc)
               | Err e => (s1, Err e)
               | Panic w => (s1, Panic w)
               | OutOfFuel => (s1, OutOfFuel)
               end
      end
  end.

(** IndexedState.search / LinearState.search *)
Definition search_state (s : state) (pattern : json) (now : Z)
  : state * outcome (list (string * list bindings)) :=
  match st_kind s with
  | Indexed =>
      match ti_search (st_tindex s) (extract_terms pattern) with
      | Ok ids => search_ids s ids pattern now []
      | Err e => (s, Err e)
      | Panic w => (s, Panic w)
      | OutOfFuel => (s, OutOfFuel)
      end
  | Linear => search_ids s (map fst (st_facts s)) pattern now []
  end.

(** dependsOn: the fact's deleteWith array names [x] literally (string
    equality on the elements; nothing is read as a pattern variable). *)
Definition dw_names (fact : json) (x : string) : bool :=
  match jget "deleteWith" fact with
  | Some (JArr l) => mem_json (JStr x) l
  | _ => false
  end.

(** the candidates of the search whose stored fact depends on [id] (checked
    before anything is removed) *)
Definition dw_targets (s : state) (id : string) (ids : list string) : list string :=
  filter (fun j => match alookup j (st_facts s) with
                   | Some fact => dw_names fact id
                   | None => false
                   end) ids.

Definition skipped (skip : option string) (j : string) : bool :=
  match skip with Some x => String.eqb j x | None => false end.

Section WithRem.
  (** [rem_rec s id now]: the (fuelled) recursive removal. *)
  Variable rem_rec : state -> string -> Z -> state * outcome bool.

  (** the loop over the targets; [skip]: the id that the loop passes over
      (LinearState.deleteDependencies: `if id == target { continue }`) *)
  Fixpoint rem_list (s : state) (ids : list string) (skip : option string) (now : Z) : state * outcome unit :=
    match ids with
    | [] => (s, Ok tt)
    | j :: r =>
        if skipped skip j then rem_list s r skip now
        else match rem_rec s j now with
             | (s1, Ok _) => rem_list s1 r skip now
             | (s1, Err e) => (s1, Err e)
             | (s1, Panic w) => (s1, Panic w)
             | (s1, OutOfFuel) => (s1, OutOfFuel)
             end
    end.

  (** deleteDependencies: the search for {"deleteWith": [id]} finds the
      candidates (it reads an id that starts with "?" as a variable, which
      matches every element: D14); the candidates that name the id literally
      are the targets.  The search only notes the expired items it meets
      (they are purged when the public operation has released its lock). *)
  Definition delete_dependencies (s : state) (id : string) (now : Z) : state * outcome unit :=
    match search_state s (dw_pattern id) now with
    | (s1, Ok found) =>
        (* the linear state passes over a target that is the id itself; the
           indexed state passes over nothing *)
        rem_list s1 (dw_targets s1 id (map fst found))
                 (match st_kind s with Linear => Some id | Indexed => None end) now
    | (s1, Err e) => (s1, Err e)
    | (s1, Panic w) => (s1, Panic w)
    | (s1, OutOfFuel) => (s1, OutOfFuel)
    end.

  Definition rem_body (s : state) (id : string) (now : Z) : state * outcome bool :=
    match st_kind s with
    | Indexed =>
        match alookup id (st_facts s) with
        | Some fact =>
            let s1 := match extract_rule fact false with
                      | Ok (Some rule) => unindex_rule s id rule
                      | _ => s
                      end in
            let s2 := set_facts s1 (aremove id (st_facts s1)) in
            let s3 := set_tindex s2 (fold_left (fun idx t => ti_rem t id idx) (extract_terms fact) (st_tindex s2)) in
            let '(s4, failed) := store_call s3 in
            if failed then (s4, Err "storage") else
            let s5 := set_store s4 (aremove id (st_store s4)) in
            match delete_dependencies s5 id now with
            | (s6, Ok _) => (s6, Ok true)
            | (s6, Err e) => (s6, Err e)
            | (s6, Panic w) => (s6, Panic w)
            | (s6, OutOfFuel) => (s6, OutOfFuel)
            end
        | None =>
            match delete_dependencies s id now with
            | (s6, Ok _) => (s6, Ok false)
            | (s6, Err e) => (s6, Err e)
            | (s6, Panic w) => (s6, Panic w)
            | (s6, OutOfFuel) => (s6, OutOfFuel)
            end
        end
    | Linear =>
        let '(s1, failed) := store_call s in
        if failed then (s1, Err "storage") else
        let s2 := set_store s1 (aremove id (st_store s1)) in
        let had := match alookup id (st_facts s2) with Some _ => true | None => false end in
        let s3 := set_facts s2 (aremove id (st_facts s2)) in
        match delete_dependencies s3 id now with
        | (s6, Ok _) => (s6, Ok had)
        | (s6, Err e) => (s6, Err e)
        | (s6, Panic w) => (s6, Panic w)
        | (s6, OutOfFuel) => (s6, OutOfFuel)
        end
    end.
End WithRem.

Fixpoint rem_fuel (fuel : nat) (s : state) (id : string) (now : Z) : state * outcome bool :=
  match fuel with
  | O => (s, OutOfFuel)
  | S f => rem_body (rem_fuel f) s id now
  end.

Definition cascade_fuel (s : state) : nat := (2 * length (st_facts s) + 4)%nat.

(** State.rem (IndexedState.rem / LinearState.rem with its cascade) *)
Definition st_rem (s : state) (id : string) (now : Z) : state * outcome bool :=
  rem_fuel (cascade_fuel s) s id now.

Definition st_rem_rec (s : state) (id : string) (now : Z) : state * outcome bool :=
  rem_fuel (cascade_fuel s) s id now.

(** ** purge (under the write lock, after the reader has released its lock)

    One round: every noted id that is still present and still expired is
    removed with its cascade; the error of a removal is logged and dropped
    (a Go panic is not). *)
Fixpoint purge_ids (s : state) (ids : list string) (now : Z) : state * outcome unit :=
  match ids with
  | [] => (s, Ok tt)
  | id :: r =>
      match alookup id (st_facts s) with
      | None => purge_ids s r now
      | Some fact =>
          if fact_expired fact now then
            match st_rem s id now with
            | (s1, Ok _) => purge_ids s1 r now
            | (s1, Err _) => purge_ids s1 r now
            | (s1, Panic w) => (s1, Panic w)
            | (s1, OutOfFuel) => (s1, OutOfFuel)
            end
          else purge_ids s r now
      end
  end.

(** `for ; 0 < len(ids); ids = s.expired.take()`: the cascades of a round
    search for dependents and can note more expired items. *)
Fixpoint purge_fuel (fuel : nat) (s : state) (now : Z) : state * outcome unit :=
  match st_pending s with
  | [] => (s, Ok tt)
  | ids =>
      match fuel with
      | O => (s, OutOfFuel)
      | S f =>
          match purge_ids (set_pending s []) ids now with
          | (s1, Ok _) => purge_fuel f s1 now
          | (s1, Err e) => (s1, Err e)
          | (s1, Panic w) => (s1, Panic w)
          | (s1, OutOfFuel) => (s1, OutOfFuel)
          end
      end
  end.

(** a round that notes new ids has removed at least one fact *)
Definition purge_rounds (s : state) : nat := S (length (st_facts s)).

Definition purge (s : state) (now : Z) : state * outcome unit :=
  purge_fuel (purge_rounds s) s now.

(** A public entry point: the operation proper, then the purge (whatever the
    operation answered).  The answer is the operation's; only a panic inside
    the purge would replace it. *)
Definition with_purge {A} (r : state * outcome A) (now : Z) : state * outcome A :=
  let p := purge (fst r) now in
  (fst p,
   match snd r with
   | Panic w => Panic w
   | OutOfFuel => OutOfFuel
   | o => match snd p with
          | Panic w => Panic w
          | OutOfFuel => OutOfFuel
          | _ => o
          end
   end).

(** State.Search *)
Definition st_search (s : state) (pattern : json) (now : Z)
  : state * outcome (list (string * list bindings)) :=
  with_purge (search_state s pattern now) now.

(** State.get (the lookup of State.Get: an expired item is noted and reported
    as not found) *)
Definition get_body (s : state) (id : string) (now : Z) : state * outcome json :=
  match alookup id (st_facts s) with
  | None => (s, Err "notfound")
  | Some fact =>
      let '(s1, expired) := expire s id fact now in
      if expired then (s1, Err "notfound") else (s1, Ok fact)
  end.

(** State.Get *)
Definition st_get (s : state) (id : string) (now : Z) : state * outcome json :=
  with_purge (get_body s id now) now.

(** State.Rem (public): with the cron hooks installed the rem hook first
    fetches the fact (State.Get, with its own purge), so a missing id is
    "not found"; then the removal with its cascade; then the purge of what
    the cascade's searches noted. *)
Definition st_Rem (s : state) (id : string) (now : Z) : state * outcome bool :=
  with_purge
    (if st_hooks s then
       match st_get s id now with
       | (s1, Ok _) => st_rem s1 id now
       | (s1, Err e) => (s1, Err e)
       | (s1, Panic w) => (s1, Panic w)
       | (s1, OutOfFuel) => (s1, OutOfFuel)
       end
     else st_rem s id now) now.

(** State.Add *)
Definition st_add_mem_idx (s : state) (id : string) (fact : json) : state * option string :=
  match extract_rule fact false with
  | Err e => (s, Some e)
  | Panic w => (s, Some w)
  | OutOfFuel => (s, Some "fuel")
  | Ok rule =>
      let oldrule := match alookup id (st_facts s) with
                     | Some old => match extract_rule old false with Ok r => r | _ => None end
                     | None => None
                     end in
      let s1 := match oldrule with Some r => unindex_rule s id r | None => s end in
      let '(s2, err) :=
        match rule with
        | Some r =>
            if is_scheduled r then (s1, None)
            else match index_rule s1 id r with
                 | (s', None) => (s', None)
                 | (s', Some e) =>
                     (match oldrule with
                      | Some o => if is_scheduled o then s' else fst (index_rule s' id o)
                      | None => s'
                      end, Some e)
                 end
        | None => (s1, None)
        end in
      match err with
      | Some e => (s2, Some e)
      | None =>
          let s3 := set_tindex s2 (fold_left (fun idx t => ti_add t id idx) (extract_terms fact) (st_tindex s2)) in
          (set_facts s3 (ainsert id fact (st_facts s3)), None)
      end
  end.

(** The add hook: a validating hook of the harness (rejects facts marked "veto": true),
    then the cron add hook (cron/corehooks.go getSchedule): with hooks installed a
    non-map rule or a non-string schedule is an error. *)
Definition vetoed (fact : json) : bool :=
  match jget "veto" fact with Some (JBool true) => true | _ => false end ||
  match jget "rule" fact with
  | Some (JObj r) => match alookup "veto" r with Some (JBool true) => true | _ => false end
  | _ => false
  end.

Definition add_hook_err (s : state) (fact : json) : option string :=
  if negb (st_hooks s) then None else
  (* the hooks of the harness: a validating hook that rejects what is marked "veto": true, then the cron
     hook (sys.System installs the cron hook alone; its histories never carry a "veto" member) *)
  if vetoed fact then Some "vetoed" else
  match jget "rule" fact with
  | None => None
  | Some (JObj r) =>
      match alookup "schedule" r with
      | None | Some (JStr _) => None
      | Some _ => Some "schedule isn't a string"
      end
  | Some _ => Some "rule isn't a map"
  end.

Definition st_add (s : state) (given : string) (x : json) (now : Z) (fresh : string) (aux : option Z)
  : state * outcome string :=
  match prepare_fact given x now fresh aux with
  | Err e => (s, Err e)
  | Panic w => (s, Panic w)
  | OutOfFuel => (s, OutOfFuel)
  | Ok (id, fact) =>
      match st_kind s with
      | Indexed =>
          match extract_rule fact false with
          | Ok rule =>
              match add_hook_err s fact with
              | Some e =>
                  (* the hook runs after the rule index was updated and before the
                     fact is recorded; on its error the index changes are undone
                     (fix: commit in /repo) and the state is as it was *)
                  (s, Err e)
              | None =>
                  match st_add_mem_idx s id fact with
                  | (s1, Some e) => (s1, Err e)
                  | (s1, None) =>
                      let '(s2, failed) := store_call s1 in
                      if failed then (s2, Err "storage")
                      else (set_store s2 (ainsert id fact (st_store s2)), Ok id)
                  end
              end
          | Err e => (s, Err e)
          | Panic w => (s, Panic w)
          | OutOfFuel => (s, OutOfFuel)
          end
      | Linear =>
          (* the hook is asked first (fix: commit in /repo): on its error nothing was
             written, the storage was not even called, and the state is as it was *)
          match add_hook_err s fact with
          | Some e => (s, Err e)
          | None =>
              let '(s1, failed) := store_call s in
              if failed then (s1, Err "storage") else
              let s2 := set_store s1 (ainsert id fact (st_store s1)) in
              (set_facts s2 (ainsert id fact (st_facts s2)), Ok id)
          end
      end
  end.

(** State.Clear *)
Definition st_clear (s : state) : state * outcome unit :=
  let '(s1, failed) := store_call s in
  match st_kind s with
  | Indexed =>
      if failed then (s1, Err "storage")
      else (set_store (set_pindex (set_tindex (set_facts s1 []) []) pn_empty) [], Ok tt)
  | Linear =>
      let s2 := set_facts s1 [] in
      if failed then (s2, Err "storage") else (set_store s2 [], Ok tt)
  end.

(** State.Load into a fresh state over the same storage. *)
Fixpoint load_idx (s : state) (pairs : list (string * json)) (now : Z) : state * outcome unit :=
  match pairs with
  | [] => (s, Ok tt)
  | (id, x) :: r =>
      match prepare_fact id x now id None with
      | Ok (id', fact) =>
          match st_add_mem_idx s id' fact with
          | (s1, None) => load_idx s1 r now
          | (s1, Some e) => (s1, Err e)
          end
      | Err e =>
          if String.eqb e "expired" then
            let '(s1, failed) := store_call s in
            if failed then (s1, Err "storage")
            else load_idx (set_store s1 (aremove id (st_store s1))) r now
          else (s, Err e)
      | Panic w => (s, Panic w)
      | OutOfFuel => (s, OutOfFuel)
      end
  end.

Definition st_load (k : skind) (hooks : bool) (store : list (string * json)) (now : Z)
  : state * outcome unit :=
  let s0 := set_store (empty_state k hooks) store in
  let '(s1, failed) := store_call s0 in
  if failed then (s1, Err "storage") else
  match k with
  | Indexed => load_idx s1 store now
  | Linear => (set_facts s1 store, Ok tt)
  end.

(** ** FindRules (candidate rule bodies for an event) *)

(** RuleFromMap: json.Unmarshal of the map into the Rule struct (typed
    fields; unknown members are ignored; null is accepted everywhere) and the
    checks of RuleFromJSON.  The condition's ParseQuery is checked separately
    (Events.condition_ok: it needs the script table). *)
Definition j_is_str (j : json) : bool := match j with JStr _ => true | _ => false end.
Definition j_is_bool (j : json) : bool := match j with JBool _ => true | _ => false end.
Definition j_is_num (j : json) : bool := match j with JNum _ => true | _ => false end.
Definition j_is_obj (j : json) : bool := match j with JObj _ => true | _ => false end.

(** a member is absent, null, or satisfies [ok] *)
Definition field_ok (r : json) (k : string) (ok : json -> bool) : bool :=
  match jget k r with None | Some JNull => true | Some v => ok v end.

Definition field_present (r : json) (k : string) : bool :=
  match jget k r with None | Some JNull => false | Some _ => true end.

(** CleanAction.UnmarshalJSON: an object whose code is a string, an array of
    strings or a map (GetCode), endpoint a string, subvars a bool, opts a map *)
Definition action_json_ok (a : json) : bool :=
  match a with
  | JObj _ =>
      (match jget "code" a with
       | Some (JStr _) => true
       | Some (JArr l) => forallb j_is_str l
       | Some (JObj _) => true
       | _ => false
       end) &&
      field_ok a "endpoint" j_is_str && field_ok a "subvars" j_is_bool && field_ok a "opts" j_is_obj
  | _ => false
  end.

Definition rule_from_map (r : json) : outcome json :=
  let types_ok :=
    field_ok r "id" j_is_str &&
    field_ok r "when" (fun w => j_is_obj w && field_ok w "pattern" j_is_obj &&
                                field_ok w "locations" (fun l => match l with JArr xs => forallb j_is_str xs | _ => false end)) &&
    field_ok r "schedule" j_is_str &&
    field_ok r "condition" j_is_obj &&
    field_ok r "actions" (fun l => match l with JArr xs => forallb action_json_ok xs | _ => false end) &&
    field_ok r "action" action_json_ok &&
    field_ok r "policies" (fun p => j_is_obj p && field_ok p "retryFromCondition" j_is_bool &&
                                    field_ok p "verifyEnabled" j_is_bool && field_ok p "serialActions" j_is_bool) &&
    field_ok r "once" j_is_bool && field_ok r "props" j_is_obj && field_ok r "expires" j_is_num in
  let when_present := field_present r "when" in
  let sched := match jget "schedule" r with Some (JStr s) => negb (String.eqb s "") | _ => false end in
  let has_action := field_present r "action" in
  let has_actions := field_present r "actions" in   (* a non-nil slice, possibly empty *)
  let nactions := match jget "actions" r with Some (JArr l) => length l | _ => O end in
  if negb types_ok then Err "syntax"
  else if negb when_present && negb sched then Err "syntax"
  else if when_present && sched then Err "syntax"
  else if has_action && has_actions then Err "syntax"
  else if negb has_action && Nat.eqb nactions 0 then Err "syntax"
  else Ok r.

(** The pattern FindRules.Do re-matches: Rule.When.Pattern (the "pattern"
    member of `when`; an absent one unmarshals to nil, cast to {}). *)
Definition when_pattern (r : json) : option json :=
  match jget "when" r with
  | Some (JObj w) => Some (match alookup "pattern" w with Some (JObj p) => JObj p | _ => JObj [] end)
  | _ => None
  end.

Fixpoint find_ids_idx (s : state) (ids : list string) (now : Z) (acc : list (string * json))
  : state * outcome (list (string * json)) :=
  match ids with
  | [] => (s, Ok (rev acc))
  | id :: r =>
      match alookup id (st_facts s) with
      | None => (s, Err "lost rule")
      | Some fact =>
          let '(s1, expired) := expire s id fact now in
          if expired then find_ids_idx s1 r now acc
          else match extract_rule fact true with
               | Ok (Some body) => find_ids_idx s1 r now ((id, body) :: acc)
               | Ok None => (s1, Err "Rule body missing")
               | Err e => (s1, Err e)
               | Panic w => (s1, Panic w)
               | OutOfFuel => (s1, OutOfFuel)
               end
      end
  end.

Fixpoint find_ids_lin (s : state) (ids : list string) (event : json) (now : Z) (acc : list (string * json))
  : state * outcome (list (string * json)) :=
  match ids with
  | [] => (s, Ok (rev acc))
  | id :: r =>
      match alookup id (st_facts s) with
      | None => find_ids_lin s r event now acc
      | Some fact =>
          match jget "rule" fact with
          | None => find_ids_lin s r event now acc
          | Some rule =>
              let '(s1, expired) := expire s id fact now in
              if expired then find_ids_lin s1 r event now acc
              else match rule with
                   | JObj rm =>
                       match alookup "when" rm with
                       | Some (JObj w) =>
                           let pattern := match alookup "pattern" w with Some p => p | None => JObj w end in
                           match core_match pattern event [] with
                           | Ok [] => find_ids_lin s1 r event now acc
                           | Ok _ => find_ids_lin s1 r event now ((id, rule) :: acc)
                           | Err e => (s1, Err e)
                           | Panic w' => (s1, Panic w')
                           | OutOfFuel => (s1, OutOfFuel)
                           end
                       | _ => find_ids_lin s1 r event now acc
                       end
                   | _ => find_ids_lin s1 r event now acc
                   end
          end
      end
  end.

(** doFindRules (with its deferred purge, which runs after the read lock is released) *)
Definition do_find_rules (s : state) (event : json) (now : Z)
  : state * outcome (list (string * json)) :=
  with_purge
    (match st_kind s with
     | Indexed =>
         match pi_search (st_pindex s) event with
         | Ok ids => find_ids_idx s ids now []
         | Err e => (s, Err e)
         | Panic w => (s, Panic w)
         | OutOfFuel => (s, OutOfFuel)
         end
     | Linear => find_ids_lin s (map fst (st_facts s)) event now []
     end) now.

(** FindCachedRules parses every candidate with RuleFromMap; a candidate that
    does not parse (a fact with an ill-typed "rule" property, accepted by
    AddFact) is logged and skipped (repair of D53: it used to fail the whole
    dispatch). *)
Definition rule_parses (body : json) : bool :=
  match rule_from_map body with Ok _ => true | _ => false end.

Definition check_rules (l : list (string * json)) : list (string * json) :=
  filter (fun kv => rule_parses (snd kv)) l.

(** State.FindCachedRules: id -> rule body of the candidate rules. *)
Definition st_find_rules (s : state) (event : json) (now : Z)
  : state * outcome (list (string * json)) :=
  let '(s1, res) := do_find_rules s event now in
  match res with
  | Ok l => (s1, Ok (check_rules l))
  | _ => (s1, res)
  end.
