(** Extraction of the executable model and checkers to OCaml.
    Only ExtrOcamlBasic is used (its Extract Inductive directives for bool,
    option, unit, list, prod, sumbool, sumor); no Extract Constant; Z, N,
    positive, nat, string and ascii stay the extracted inductives. *)
Require Extraction.
Require Import ExtrOcamlBasic.
From Verif Require Import Json Dispatch.
Extraction Language OCaml.
Set Extraction Optimize.
Extraction "model.ml" Dispatch.check_case Json.json Json.jnorm BinInt.Z.add BinInt.Z.mul BinInt.Z.opp BinInt.Z.of_nat BinInt.Z.to_nat BinInt.Z.ltb BinInt.Z.div BinInt.Z.modulo BinInt.Z.eqb.
