(** C18: clauses the faithful model refutes, kept as findings (each closed by
    vm_compute in proofs/ServiceProofs.v), and the witnesses showing that the
    hypotheses of the theorems of C18.v are needed. *)
From Verif Require Import Json Outcome Service CorrService ServiceSpec ServiceProofs.
(** D24 (repaired): an empty body is a 400. *)
Definition empty_body_repaired := empty_body_is_400.
(** D25 (repaired): a uri member that is not a string is a 400 (an error
    element inside a batch). *)
Definition nonstring_uri_repaired := nonstring_uri_is_error.
Definition envelope_nonstring_uri_checked := envelope_nonstring_uri_is_400.
(** D61 (repaired): an empty text of a json-typed parameter is a 400. *)
Definition empty_typed_param_repaired := empty_typed_param_is_400.
(** D62: /api/loc/facts/take and /replace throw the results of their inner
    requests away: missing parameters and failing operations report success. *)
Definition composite_swallows_errors_refuted := composite_swallows_errors_counterexample.
(** D63: getter errors that are never looked at (required "code" of
    /api/loc/util/js; optional "id" of facts/add and rules/add). *)
Definition unchecked_getter_refuted := unchecked_getter_counterexample.
(** The hypotheses of decode_render are needed: a "uri" member of a body
    overrides the path; an empty form is an empty body; a map under an
    undeclared name stays text in a query string. *)
Definition body_uri_overrides_path_witness := body_uri_overrides_path_counterexample.
Definition empty_form_witness := empty_form_counterexample.
Definition undeclared_map_param_witness := undeclared_map_param_counterexample.
(** Spellings that exist in one encoding only. *)
Definition encoding_specific_spellings_witness := encoding_specific_spellings.
(** DWIMURI eats a version-like first segment and treats "/api" as a bare prefix. *)
Definition dwim_eats_versionlike_segment_witness := dwim_eats_versionlike_segment_counterexample.
