(** C18: the former findings of this property, all repaired in /repo, as
    concrete examples (each closed by vm_compute in proofs/ServiceProofs.v),
    and the witnesses showing that the hypotheses of the theorems of C18.v
    are needed. *)
From Verif Require Import Json Outcome Service CorrService ServiceSpec ServiceProofs.
(** D24 (repaired): an empty body is a 400. *)
Definition empty_body_repaired := empty_body_is_400.
(** D25 (repaired): a uri member that is not a string is a 400 (an error
    element inside a batch). *)
Definition nonstring_uri_repaired := nonstring_uri_is_error.
Definition envelope_nonstring_uri_checked := envelope_nonstring_uri_is_400.
(** D61 (repaired): an empty text of a json-typed parameter is a 400. *)
Definition empty_typed_param_repaired := empty_typed_param_is_400.
(** D62 (repaired): /api/loc/facts/take and /replace return the errors of
    their inner requests; replace without a fact takes nothing. *)
Definition composite_errors_repaired := composite_errors_are_reported.
(** D63 (repaired): a missing "code" of /api/loc/util/js and an ill-typed
    optional "id" of facts/add, rules/add are errors; an absent id is fine. *)
Definition getter_errors_repaired := getter_errors_are_reported.
(** The hypotheses of decode_render are needed: a "uri" member of a body
    overrides the path; an empty form is an empty body; a map under an
    undeclared name stays text in a query string. *)
Definition body_uri_overrides_path_witness := body_uri_overrides_path_counterexample.
Definition empty_form_witness := empty_form_counterexample.
Definition undeclared_map_param_witness := undeclared_map_param_counterexample.
(** Spellings that exist in one encoding only. *)
Definition encoding_specific_spellings_witness := encoding_specific_spellings.
(** DWIMURI eats a version-like first segment and treats "/api" as a bare prefix. *)
Definition dwim_eats_versionlike_segment_witness := dwim_eats_versionlike_segment_counterexample.
