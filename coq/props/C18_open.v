(** C18: clauses the faithful model refutes, kept as findings (each closed by
    vm_compute in proofs/ServiceProofs.v), and the witnesses showing that the
    hypotheses of the theorems of C18.v are needed. *)
From Verif Require Import Json Outcome Service CorrService ServiceSpec ServiceProofs.
(** D24: POST /api/loc/facts/add?location=here&fact=... with an empty body:
    GetHTTPRequest reads js[0] of a zero-length body - a panic, not a 400. *)
Definition empty_body_panics_refuted := empty_body_panics_counterexample.
(** D25: a JSON body whose "uri" member is not a string ({"fact":...,"uri":5})
    panics in ServeHTTP (m["uri"].(string)); likewise an element {"uri":5} of a
    batch (u.(string) in ProcessRequest).  The envelopes check it (400). *)
Definition nonstring_uri_panics_refuted := nonstring_uri_panics_counterexample.
Definition envelope_nonstring_uri_checked := envelope_nonstring_uri_is_400.
(** D61: GET /api/loc/facts/add?location=here&fact= : Unmarshal reads bs[0] of
    the empty text of a json-typed parameter - a panic, not a 400. *)
Definition empty_typed_param_panics_refuted := empty_typed_param_panics_counterexample.
(** D62: /api/loc/facts/take and /replace throw the results of their inner
    requests away: missing parameters and failing operations report success. *)
Definition composite_swallows_errors_refuted := composite_swallows_errors_counterexample.
(** D63: getter errors that are never looked at (required "code" of
    /api/loc/util/js; optional "id" of facts/add and rules/add). *)
Definition unchecked_getter_refuted := unchecked_getter_counterexample.
(** The hypotheses of decode_render are needed: a "uri" member of a body
    overrides the path; an empty form is an empty body; a map under an
    undeclared name stays text in a query string. *)
Definition body_uri_overrides_path_witness := body_uri_overrides_path_counterexample.
Definition empty_form_witness := empty_form_counterexample.
Definition undeclared_map_param_witness := undeclared_map_param_counterexample.
(** Spellings that exist in one encoding only. *)
Definition encoding_specific_spellings_witness := encoding_specific_spellings.
(** DWIMURI eats a version-like first segment and treats "/api" as a bare prefix. *)
Definition dwim_eats_versionlike_segment_witness := dwim_eats_versionlike_segment_counterexample.
