(** C08 — deleteWith removes exactly the dependents, durably, and terminates.
    Property theorems only; proofs in proofs/Cascade*.v. *)
From Verif Require Import Json Outcome Match PatIndex State CascadeSpec CascadeProofs.

(** Termination on EVERY dependency graph and state (cycles, self-loops,
    dangling targets, expired facts, both state kinds, storage failures): the
    removal never exhausts the fuel 2*|facts|+4 ... *)
Theorem cascade_terminates_all_graphs : forall s id now, snd (st_rem s id now) <> OutOfFuel.
Proof. exact cascade_terminates. Qed.

(** ... and fuel is only a device: any larger amount gives the same answer. *)
Theorem cascade_fuel_is_irrelevant : forall s id now fuel,
  (cascade_fuel s <= fuel)%nat -> rem_fuel fuel s id now = st_rem s id now.
Proof. exact cascade_fuel_irrelevant. Qed.

(** Exactness (linear state): removing [id] deletes exactly the least set
    that contains [id] and every stored fact that names a member in its
    deleteWith (rules and property facts are facts with deleteWith too), from
    memory and from the storage, and changes nothing else. *)
Theorem cascade_exact : forall s id now s' had,
  st_kind s = Linear -> st_fail s = None ->
  sorted_keys (map fst (st_facts s)) = true -> sorted_keys (map fst (st_store s)) = true ->
  no_expired s now -> ids_not_varlike s -> is_var id = false ->
  st_rem s id now = (s', Ok had) ->
  (had = match alookup id (st_facts s) with Some _ => true | None => false end) /\
  (forall j, Clo s id j -> alookup j (st_facts s') = None /\ alookup j (st_store s') = None) /\
  (forall j, ~ Clo s id j -> alookup j (st_facts s') = alookup j (st_facts s) /\
                             alookup j (st_store s') = alookup j (st_store s)).
Proof. exact cascade_exact_linear. Qed.

Theorem cascade_succeeds : forall s id now,
  st_kind s = Linear -> st_fail s = None -> no_expired s now ->
  exists s' had, st_rem s id now = (s', Ok had).
Proof. exact cascade_ok_linear. Qed.

(** The purge of the expired items that the readers noted (rounds of cascading
    removals under the write lock, since the repair of D52) terminates on
    EVERY state with the rounds the model allows (|facts| + 1), never panics,
    reports no error of its own, and leaves no id noted ... *)
Theorem purge_terminates_all_states : forall s now,
  snd (purge s now) = Ok tt /\ st_pending (fst (purge s now)) = [].
Proof. exact purge_terminates. Qed.

(** ... so a public entry point answers exactly what its operation proper
    answered, in the state the purge leaves. *)
Theorem purge_keeps_the_answer : forall A (r : state * outcome A) now,
  with_purge r now = (fst (purge (fst r) now), snd r).
Proof. exact purge_keeps_answer. Qed.
