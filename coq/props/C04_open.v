(** C04: the premises of fanout_exact are satisfiable (a chain system A <- B <- C,
    a rule with 3 condition results and 3 actions of which one throws), and the
    serial/concurrent contrast, by computation. *)
From Verif Require Import Json Outcome Events EventsSpec EventsProofs EventsExamples.
Definition tiny_process_event := EventsTiny.tiny_process_event.
Definition serial_failure_prevents_others := serial_failure_prevents_others_example.
