(** C10: refutations kept as findings (each closed by vm_compute in proofs/LocRules.v). *)
From Verif Require Import Json Outcome State Location LocSpec LocRules.
(** D36 (repaired in /repo): StateSize used not to be gated by the enabled property. *)
Definition statesize_reports_disabled := statesize_reports_disabled_example.
(** A rule whose id is the location's own enabled-property ("!.enabled") loses
    its disabled flag when that property expires (the flag depends on it). *)
Definition disable_then_not_enabled_refuted := disable_then_not_enabled_counterexample.
(** Re-enabling rule r also re-enables a rule whose id is r's flag id ("!r.disabled"). *)
Definition enable_is_not_per_id_refuted := enable_is_not_per_id_counterexample.
