(** C05: non-vacuity examples and refutation witnesses (dependency findings D10-D12). *)
From Verif Require Import Json Outcome Match MatchSpec.

Definition ex_p : json :=
  JObj [("a", JStr "?x"); ("k", JArr [JStr "1"; JStr "?y"]); ("m", JArr [JObj [("z", JStr "?x")]])].
Definition ex_d : json :=
  JObj [("a", JNum 7); ("extra", JBool true); ("k", JArr [JStr "0"; JStr "1"; JStr "2"]);
        ("m", JArr [JObj [("z", JNum 7)]; JObj [("z", JNum 8)]])].

(** The fragment hypothesis is satisfiable by a pattern with a repeated
    variable, an array variable and an array of maps, and the result is not
    trivial (two binding sets). *)
Example c05_premises :
  fragment ex_p ex_d [] = true /\
  core_match ex_p ex_d [] =
    Ok [[("?x", JNum 7); ("?y", JStr "0")]; [("?x", JNum 7); ("?y", JStr "2")]].
Proof. split; vm_compute; reflexivity. Qed.

(** D10: a variable that occurs twice and lands on structured data is only
    partially re-matched: the returned binding does not lay the pattern over
    the data (the two occurrences see different values). *)
Definition d10_p : json := JObj [("a", JStr "?x"); ("b", JStr "?x")].
Definition d10_d : json := JObj [("a", JObj [("k", JNum 1)]); ("b", JObj [("j", JNum 2); ("k", JNum 1)])].
Lemma rematch_is_partial_refuted :
  exists out b, core_match d10_p d10_d [] = Ok out /\ In b out /\
                lay (lay_fuel d10_p) b d10_p d10_d = false /\
                fragment d10_p d10_d [] = false.
Proof.
  exists [[("?x", JObj [("k", JNum 1)])]], [("?x", JObj [("k", JNum 1)])].
  repeat split; try (vm_compute; reflexivity). left. reflexivity.
Qed.

(** D11: variable names of the form ?<n trigger sheens' inequalities and bind
    a variable that does not occur in the pattern. *)
Lemma inequality_names_refuted :
  core_match (JObj [("n", JStr "?<n")]) (JObj [("n", JNum 3)]) [("?<n", JNum 10)]
  = Ok [[("?<n", JNum 10); ("?n", JNum 3)]].
Proof. vm_compute. reflexivity. Qed.

(** D12: data strings that start with "?" act as variables on re-entry:
    spurious bindings ... *)
Lemma var_like_data_refuted :
  core_match d10_p (JObj [("a", JStr "?y"); ("b", JNum 5)]) []
  = Ok [[("?x", JStr "?y"); ("?y", JNum 5)]].
Proof. vm_compute. reflexivity. Qed.

(** ... and unbounded recursion (a binding that refers to itself): for every
    amount of fuel the model runs out, as the real matcher overflows its stack. *)
Lemma match_diverges : forall fuel d,
  jmatch fuel (JStr "?x") d [("?x", JStr "?x")] = OutOfFuel.
Proof.
  induction fuel as [|f IH]; intros d; [reflexivity|].
  cbn [jmatch]. unfold match_body.
  change (is_var "?x") with true. change (is_anon "?x") with false. cbn [negb].
  replace (inequal d [("?x", JStr "?x")] "?x") with (@None (list bindings)) by (destruct d; reflexivity).
  change (alookup "?x" [("?x", JStr "?x")]) with (Some (JStr "?x")). apply IH.
Qed.
