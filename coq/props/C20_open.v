(** C20: non-vacuity examples and refutation witnesses. *)
From Coq Require Import Lia.
From Verif Require Import Json Breaker BreakerProofs.

(** The premises of rate_bound / recovers are satisfiable and the run is not trivial. *)
Example c20_premises :
  exists b, b_new 2 400 = Some b /\ 20 <= 400 /\ nondecreasing [1000; 1005; 1010; 1500] /\
  snd (run_do Fixed b [1000; 1005; 1010; 1500]) =
    [(1000, true); (1005, true); (1010, false); (1500, true)].
Proof. eexists. split; [reflexivity|]. repeat split; cbn; intuition lia. Qed.

(** D21 (fixed in /repo by "fix: OutboundBreaker window stalls..."): the
    pinned code never recovers while polled faster than a tick. *)
Lemma polling_starves_refuted :
  exists b, b_new 1 400 = Some b /\
  recovers_check (ticksZ * Z.quot 400 ticksZ) (snd (run_do Pinned b starve_ts)) = false.
Proof. exact polling_starves_pinned. Qed.

(** Why whole-tick advance alone is not the repair. *)
Lemma slide_whole_ticks_alone_unsafe_refuted :
  exists b, b_new 2 400 = Some b /\
  rate_bound_check 2 400 (admitted_times (run_do_A b [1000; 1019; 1400; 1401])) = false.
Proof. exact slide_whole_ticks_alone_unsafe. Qed.

(** D22: SimpleBreaker, disabled and open, runs the thunk on every poll. *)
Lemma simple_breaker_contract_refuted :
  poll 5 (repeat (simple_do false true) 5) = (5, false).
Proof. exact simple_breaker_disabled_open_runs_every_poll. Qed.

(** Throttle: the recovery half (throttle_recovers in C20.v) fails once the
    throttle has been disabled: every overflow on a disabled throttle leaks
    one unit of the pending counter; pendingLimit+1 leaks later nothing waits
    and every Submit overflows, also after Disable(false). *)
Lemma disabled_throttle_never_recovers_refuted :
  let s := fold_left tstep2
             [TDisable true; TEv TEnter; TEv TEnter; TEv TExit; TDisable false]
             (fresh_throttle 0 5 false) in
  ts_waiting s = 0 /\ t_pending (ts_thr s) = 1 /\ enter_admits s = false /\
  forall n, ts_waiting (fold_left tstep2 (repeat (TEv TEnter) n) s) = 0.
Proof. exact disabled_throttle_never_recovers_counterexample. Qed.
