(** C20: non-vacuity examples and refutation witnesses. *)
From Coq Require Import Lia.
From Verif Require Import Json Breaker BreakerProofs.

(** The premises of rate_bound / recovers are satisfiable and the run is not trivial. *)
Example c20_premises :
  exists b, b_new 2 400 = Some b /\ 20 <= 400 /\ nondecreasing [1000; 1005; 1010; 1500] /\
  snd (run_do Fixed b [1000; 1005; 1010; 1500]) =
    [(1000, true); (1005, true); (1010, false); (1500, true)].
Proof. eexists. split; [reflexivity|]. repeat split; cbn; intuition lia. Qed.

(** D21 (fixed in /repo by "fix: OutboundBreaker window stalls..."): the
    pinned code never recovers while polled faster than a tick. *)
Lemma polling_starves_refuted :
  exists b, b_new 1 400 = Some b /\
  recovers_check (ticksZ * Z.quot 400 ticksZ) (snd (run_do Pinned b starve_ts)) = false.
Proof. exact polling_starves_pinned. Qed.

(** Why whole-tick advance alone is not the repair. *)
Lemma slide_whole_ticks_alone_unsafe_refuted :
  exists b, b_new 2 400 = Some b /\
  rate_bound_check 2 400 (admitted_times (run_do_A b [1000; 1019; 1400; 1401])) = false.
Proof. exact slide_whole_ticks_alone_unsafe. Qed.

(** D22: SimpleBreaker, disabled and open, runs the thunk on every poll. *)
Lemma simple_breaker_contract_refuted :
  poll 5 (repeat (simple_do false true) 5) = (5, false).
Proof. exact simple_breaker_disabled_open_runs_every_poll. Qed.
