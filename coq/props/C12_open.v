(** C12: refutations kept as findings; examples. *)
From Verif Require Import Json Outcome Match PatIndex State Location SysOps CorrLoc CorrConc LocSpec GateProofs LockTable ConcSpec ConcProofs.
(** (D44 is repaired: the memory update and the storage write of a write are one critical section
    under the state's write lock; same_id_adds_never_diverge in C12.v replaces the former
    same_id_adds_can_diverge_counterexample.  What the lock model says about the writers of the
    code BEFORE the repair is kept as an example: the model is not vacuous.) *)
Definition lock_model_not_vacuous := prerepair_adds_diverge_example.
Definition a_schedule_of_two_adds_exists := same_id_adds_schedule_exists.
Definition a_schedule_of_add_and_rem_exists := add_rem_schedule_exists.
(** (D52 is repaired: the lock-table theorems of C12.v have no exception list left.) *)
Definition oracle_accepts_somewhere := lin_example_linearizable.
Definition oracle_rejects_somewhere := lin_example_not_linearizable.
Definition storage_disagreement_rejected := lin_example_storage_disagrees.
