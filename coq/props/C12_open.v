(** C12: refutations kept as findings; examples. *)
From Verif Require Import Json Outcome Match PatIndex State Location SysOps CorrLoc CorrConc LocSpec GateProofs LockTable ConcSpec ConcProofs.
(** D44: overlapping Adds to ONE id: 2 of the 6 interleavings of the two phases leave
    memory and storage with different values, in both state kinds. *)
Definition same_id_adds_can_diverge := same_id_adds_can_diverge_counterexample.
Definition same_id_divergence_count := ConcProofs.same_id_divergence_count.
(** (D52 is repaired: the lock-table theorems of C12.v have no exception list left.) *)
Definition oracle_accepts_somewhere := lin_example_linearizable.
Definition oracle_rejects_somewhere := lin_example_not_linearizable.
Definition storage_disagreement_rejected := lin_example_storage_disagrees.
