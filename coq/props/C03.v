(** C03 - condition queries follow and/or/not/pattern/code semantics.
    Property theorems only; proofs are in proofs/QueryProofs.v.
    [exec] (theories/Query.v) is the model of the Go evaluator, loop by loop
    (breadth-first over the incoming bindings, accumulators, early breaks);
    [den] (theories/QuerySpec.v) is the specification written from the
    property text: the meaning of a query for one incoming binding over a pure
    fact search.  The correspondence check runs [exec] against
    core.Location.Query and judges every observed result with [den]. *)
From Verif Require Import Json Outcome Match Query QuerySpec QueryProofs.

(** Refinement: for every query tree (any depth, any arity, shared or fresh
    variables, shortCircuit on or off), every incoming binding list and every
    pure fact search (a state in which nothing expires), the evaluator returns
    exactly the concatenation, over the incoming bindings in order, of the
    query's meaning for each - the same list, hence the same multiset -, and
    it fails exactly when the meaning of some evaluation fails. *)
Theorem exec_correct :
  forall (S : Type) (search : S -> list string -> json -> S * outcome (list bindings))
         (sem : string -> option code) (s0 : S),
    (forall locs p, fst (search s0 locs p) = s0) ->
    forall q bss, scripts_known sem q = true ->
      (forall out, den_all (psearch S search s0) sem q bss = Ok out ->
                   exec S search sem q s0 bss = (s0, Ok out)) /\
      ((forall out, den_all (psearch S search s0) sem q bss <> Ok out) ->
       exists r, exec S search sem q s0 bss = (s0, r) /\ forall out, r <> Ok out).
Proof. exact QueryProofs.exec_correct. Qed.

(** ... in particular for every query that ParseQuery accepts. *)
Theorem exec_correct_parsed :
  forall (S : Type) (search : S -> list string -> json -> S * outcome (list bindings))
         (sem : string -> option code) (s0 : S),
    (forall locs p, fst (search s0 locs p) = s0) ->
    forall fuel j q bss, parse_query sem fuel j = Ok q ->
      (forall out, den_all (psearch S search s0) sem q bss = Ok out ->
                   exec S search sem q s0 bss = (s0, Ok out)) /\
      ((forall out, den_all (psearch S search s0) sem q bss <> Ok out) ->
       exists r, exec S search sem q s0 bss = (s0, r) /\ forall out, r <> Ok out).
Proof. exact QueryProofs.exec_correct_parsed. Qed.

(** Every query is a homomorphism on its incoming bindings (no accumulator is
    shared between incoming bindings, no short-circuit is global). *)
Theorem exec_linear :
  forall (S : Type) (search : S -> list string -> json -> S * outcome (list bindings))
         (sem : string -> option code) (s0 : S),
    (forall locs p, fst (search s0 locs p) = s0) ->
    forall q b1 b2 o1 o2, scripts_known sem q = true ->
      exec S search sem q s0 b1 = (s0, Ok o1) ->
      exec S search sem q s0 b2 = (s0, Ok o2) ->
      exec S search sem q s0 (b1 ++ b2) = (s0, Ok (o1 ++ o2)%list).
Proof. exact QueryProofs.exec_linear. Qed.

(** The empty query is the identity. *)
Theorem empty_identity :
  forall S search sem (s : S) bss, exec S search sem QEmpty s bss = (s, Ok bss).
Proof. exact QueryProofs.empty_identity. Qed.

(** `and` is the left-to-right composition of its conjuncts. *)
Theorem and_nil :
  forall S search sem (s : S) bss, exec S search sem (QAnd []) s bss = (s, Ok bss).
Proof. exact QueryProofs.and_nil. Qed.

Theorem and_cons :
  forall S search sem q r (s : S) bss,
    exec S search sem (QAnd (q :: r)) s bss =
    (let (s', o) := exec S search sem q s bss in
     match o with
     | Ok out => exec S search sem (QAnd r) s' out
     | Err e => (s', Err e)
     | Panic why => (s', Panic why)
     | OutOfFuel => (s', OutOfFuel)
     end).
Proof. exact QueryProofs.and_cons. Qed.

(** `or` without shortCircuit concatenates each disjunct's result, per incoming binding. *)
Theorem or_concat :
  forall search sem qs b,
    den search sem (QOr qs false) b = ocat (map (fun q => den search sem q b) qs).
Proof. exact QueryProofs.or_concat. Qed.

(** With shortCircuit it stops at the first non-empty disjunct. *)
Theorem or_shortcircuit_first_nonempty :
  forall search sem qs b k qk xs,
    nth_error qs k = Some qk ->
    (forall i qi, (i < k)%nat -> nth_error qs i = Some qi -> den search sem qi b = Ok []) ->
    den search sem qk b = Ok xs -> xs <> [] ->
    den search sem (QOr qs true) b = Ok xs.
Proof. exact QueryProofs.or_shortcircuit_first_nonempty. Qed.

Theorem or_shortcircuit_all_empty :
  forall search sem qs sc b,
    Forall (fun q => den search sem q b = Ok []) qs -> den search sem (QOr qs sc) b = Ok [].
Proof. exact QueryProofs.or_shortcircuit_all_empty. Qed.

(** `not` keeps exactly the incoming bindings for which the negated query yields nothing. *)
Theorem not_filter :
  forall search sem q b,
    (den search sem (QNot q) b = Ok [b] <-> den search sem q b = Ok []) /\
    (den search sem (QNot q) b = Ok [] <-> exists x xs, den search sem q b = Ok (x :: xs)).
Proof. exact QueryProofs.not_filter. Qed.

(** A `code` term keeps a binding iff its script's value is true or otherwise
    non-null, and merges a returned object into the binding; a failing script
    aborts the query. *)
Theorem code_keep_iff :
  forall search sem js c b v,
    sem js = Some c -> run_code c b = Ok v ->
    (v = JBool true \/ (exists z, v = JNum z) \/ (exists s, v = JStr s) \/ (exists l, v = JArr l) ->
     den search sem (QCode js) b = Ok [b]) /\
    (v = JBool false \/ v = JNull <-> den search sem (QCode js) b = Ok []) /\
    (forall fields, v = JObj fields -> den search sem (QCode js) b = Ok [code_merge b fields]).
Proof. exact QueryProofs.code_keep_iff. Qed.

Theorem code_error_aborts :
  forall search sem js c b e,
    sem js = Some c -> run_code c b = Err e -> den search sem (QCode js) b = Err e.
Proof. exact QueryProofs.code_error_aborts. Qed.

(** `pattern`: every extension of the incoming binding by a fact (local or
    inherited: that is what [search] returns, C02 + C09) that matches the
    pattern after substituting that binding. *)
Theorem pattern_exact :
  forall search sem p locs b out,
    den search sem (QPattern p locs) b = Ok out <->
    exists m mores, bind_pat b p = JObj m /\ search locs (JObj m) = Ok mores /\
                    out = map (extend_bindings b) mores.
Proof. exact QueryProofs.pattern_exact. Qed.

Theorem extend_bindings_spec :
  forall b more k, sorted_keys (map fst more) = true ->
    alookup k (extend_bindings b more) =
    match alookup k more with Some v => Some v | None => alookup k b end.
Proof. exact QueryProofs.extend_bindings_spec. Qed.

(** The evaluator itself is total (structural recursion: it can only run out
    of fuel if the fact search does). *)
Theorem exec_total :
  forall S search sem,
    (forall (s : S) locs p, snd (search s locs p) <> OutOfFuel) ->
    forall q s bss, snd (exec S search sem q s bss) <> OutOfFuel.
Proof. exact QueryProofs.exec_total. Qed.
