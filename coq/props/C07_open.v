(** C07: how the two state kinds treat an expired record at load time. *)
From Verif Require Import Json Outcome State StateSpec DurableSpec DurableReload.
From Verif Require DurableFail.
Definition load_linear_keeps_expired := load_linear_keeps_expired_example.
Definition load_indexed_drops_expired := load_indexed_drops_expired_example.
(** purged_once_seen: "the item has left memory and storage when the Get returns" holds when NO
    storage call fails; that the removal of the item alone would succeed is no longer enough
    (the purge that ends the Get removes every noted id, in the order they were noted). *)
Definition purged_once_seen_alone_refuted := Verif.DurableFail.purged_once_seen_alone_counterexample.
