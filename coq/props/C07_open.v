(** C07: how the two state kinds treat an expired record at load time. *)
From Verif Require Import Json Outcome State StateSpec DurableSpec DurableReload.
Definition load_linear_keeps_expired := load_linear_keeps_expired_example.
Definition load_indexed_drops_expired := load_indexed_drops_expired_example.
