(** C01: refutations kept as findings (each closed by vm_compute in proofs/PatIndexProofs.v). *)
From Verif Require Import Json Outcome Match PatIndex PatIndexSpec PatIndexProofs.
(** D6: a pattern with a property-variable key is shadowed by a concrete key. *)
Definition propvar_shadow := propvar_shadow_refuted.
(** D32 (repaired in /repo): a `null` element of a pattern array used to be cast
    twice when the pattern was indexed ("S_null") but once when an event is
    searched ("null"); now it is found. *)
Definition null_in_array_found := null_in_array_now_found.
(** Two variables in one array pattern (outside the documented fragment). *)
Definition two_array_vars_refuted := two_array_vars_counterexample.
