(** C01: refutations kept as findings (each closed by vm_compute in proofs/PatIndexProofs.v). *)
From Verif Require Import Json Outcome Match PatIndex PatIndexSpec PatIndexProofs DispatchSpec DispatchProofs.
(** D6: a pattern with a property-variable key is shadowed by a concrete key. *)
Definition propvar_shadow := propvar_shadow_refuted.
(** D32 (repaired in /repo): a `null` element of a pattern array used to be cast
    twice when the pattern was indexed ("S_null") but once when an event is
    searched ("null"); now it is found. *)
Definition null_in_array_found := null_in_array_now_found.
(** Two variables in one array pattern (outside the documented fragment). *)
Definition two_array_vars_refuted := two_array_vars_counterexample.

(** D30: a rule whose `when` has no "pattern" member is indexed under the whole
    `when` map but re-matched against the empty pattern. *)
Definition direct_when_matched_by_index_only := direct_when_matched_by_index_only_counterexample.
(** D59/D66 (repaired in /repo): a stored rule with a "schedule" member AND a
    `when` used to be left out of the rule index whatever the schedule was, so
    a rule with an empty (or null) schedule - an ordinary event rule to
    RuleFromMap - was dispatched by the linear state only.  Now both kinds
    dispatch it; a rule with a real schedule and a `when` (AddFact accepts it)
    is dispatched by neither. *)
Definition empty_schedule_dispatched_by_both := empty_schedule_dispatched_by_both_example.
(** ... and a scheduled rule whose `when` the index cannot sort can be replaced
    and removed (it used to be stuck: "... is not sortable"). *)
Definition scheduled_unsortable_when_removable := scheduled_unsortable_when_removable_example.
(** The hypotheses of dispatch_exact_indexed are satisfiable: a concrete history
    with an overwritten, a removed and a fact-overwritten rule. *)
Definition dispatch_hypotheses_satisfiable := dispatch_example.
(** After a removal / an overwrite the old pattern never dispatches the id. *)
Definition removed_rule_never_dispatched := DispatchProofs.removed_rule_never_dispatched.
Definition overwritten_rule_never_dispatched := DispatchProofs.overwritten_rule_never_dispatched.
