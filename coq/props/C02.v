(** C02 — fact search returns exactly the stored facts that match.
    Property theorems only; proofs in proofs/StateProofs.v, proofs/Match*.v. *)
From Verif Require Import Json Outcome Match PatIndex State MatchSpec MatchProofs StateSpec StateProofs PendingProofs.

(** The inverted index is a superset index in every reachable state: for
    every history of add / overwrite / remove / get / search / dispatch /
    clear operations at arbitrary times (one storage call may fail), every
    term of every stored fact points back to the fact's id. *)
Theorem index_superset_invariant : forall hooks fail ops,
  let s := reachable Indexed hooks fail ops in st_wf s /\ Idx_sup s.
Proof. exact idx_sup_reachable. Qed.

(** Exactness behind the index, for every reachable state of the indexed
    implementation: if nothing has expired, the pattern has a term, has no
    property variable and is in the matcher's fragment w.r.t. every stored
    fact, then the indexed search returns exactly the (id, bindings) pairs
    that matching the pattern against EVERY stored fact yields (the linear
    search over the same fact map) — no more, no fewer — and changes nothing. *)
Theorem search_exact_reachable : forall hooks fail ops pattern now,
  let s := reachable Indexed hooks fail ops in
  no_expired s now ->
  extract_terms pattern <> [] -> no_propvar pattern = true ->
  (forall id fact, alookup id (st_facts s) = Some fact -> fragment pattern fact [] = true) ->
  exists f1 f2,
    st_search s pattern now = (s, Ok f1) /\
    st_search (as_linear s) pattern now = (as_linear s, Ok f2) /\
    forall x, In x f1 <-> In x f2.
Proof.
  intros hooks fail ops pattern now s Hne Hterms Hpv Hfrag.
  destruct (fold_sstep_P ops _ (P_empty hooks fail)) as (Hk & Hwf & Hsup).
  fold (reachable Indexed hooks fail ops) in Hk, Hwf, Hsup. fold s in Hk, Hwf, Hsup.
  assert (Hok : forall id fact, alookup id (st_facts s) = Some fact ->
                 exists bss, core_match pattern fact [] = Ok bss).
  { intros id fact Hl. destruct (match_exact pattern fact [] (Hfrag id fact Hl)) as (out & Hm & _).
    exists out. exact Hm. }
  assert (Hsub : forall id fact bss, alookup id (st_facts s) = Some fact ->
                 core_match pattern fact [] = Ok bss -> bss <> [] ->
                 forall t, In t (extract_terms pattern) -> In t (extract_terms fact)).
  { intros id fact bss Hl Hm Hnz t Ht.
    pose proof (Hfrag id fact Hl) as Hf.
    destruct (match_exact pattern fact [] Hf) as (out & Hm' & Hiff).
    rewrite Hm in Hm'. injection Hm' as <-.
    destruct bss as [|b bss']; [congruence|].
    destruct (proj1 (Hiff b) (or_introl eq_refl)) as (_ & _ & _ & Hlay).
    unfold fragment in Hf. repeat (apply andb_prop in Hf; destruct Hf as [Hf ?]).
    eapply (terms_subset pattern fact b); eauto. }
  assert (Hpend : st_pending s = []) by apply pending_empty_reachable.
  destruct (search_exact s pattern now Hk Hwf Hsup Hne Hpend Hterms Hok Hsub) as (r1 & r2 & H1 & H2 & H3).
  destruct r1 as [f1| | |], r2 as [f2| | |]; try contradiction.
  exists f1, f2. auto.
Qed.

(** The key lemma that makes stale index entries harmless. *)
Theorem matching_fact_contains_pattern_terms : forall p fact b,
  no_propvar p = true -> wf_json p = true -> wf_json fact = true ->
  lay (lay_fuel p) b p fact = true ->
  forall t, In t (extract_terms p) -> In t (extract_terms fact).
Proof. exact terms_subset. Qed.

(** get returns the value last written under an id, or not-found (in a state
    with no purge pending: the list of noted expired ids is empty between any
    two operations, see [no_purge_left_pending]). *)
Theorem get_last_write : forall s id now,
  st_wf s -> st_pending s = [] ->
  match alookup id (st_facts s) with
  | Some fact => fact_expired fact now = false -> st_get s id now = (s, Ok fact)
  | None => st_get s id now = (s, Err "notfound")
  end.
Proof. exact get_exact. Qed.

(** Caller-supplied ids are kept, omitted ids are the generated one, and a
    successful add is visible (memory and storage) and touches no other id;
    both state implementations. *)
Theorem ids_kept_and_add_visible : forall s given x now fresh aux s' id,
  st_wf s -> st_add s given x now fresh aux = (s', Ok id) ->
  (id_props (jO x) = [] -> id = if String.eqb given "" then fresh else given) /\
  exists fact, prepare_fact given x now fresh aux = Ok (id, fact) /\
               alookup id (st_facts s') = Some fact /\
               alookup id (st_store s') = Some fact /\
               (forall j, j <> id -> alookup j (st_facts s') = alookup j (st_facts s)).
Proof. exact add_visible. Qed.

(** No purge is left pending by an operation: the list of the expired ids that
    the readers noted (the repair of D52) is empty in every reachable state,
    whatever the storage does. *)
Theorem no_purge_left_pending : forall k hooks fail ops, st_pending (reachable k hooks fail ops) = [].
Proof. exact pending_empty_reachable. Qed.
