(** C11: the hypothesis of the interleaving theorems is needed; premises are satisfiable. *)
From Verif Require Import Json Outcome Match PatIndex State Location SysOps CorrLoc CorrConc LocSpec GateProofs LockTable ConcSpec ConcProofs.
(** A location with a parent is NOT unrelated to it: an inherited search purges the
    parent's expired fact, so results and final state differ from the sequential runs. *)
Definition related_interleaving := related_interleaving_counterexample.
Definition premises_satisfiable := interleaving_example.
Definition premises_satisfiable_by_theorem := interleaving_example_by_theorem.
