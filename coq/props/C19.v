(** C19 — access controls and enablement are enforced on every path.
    Property theorems only; proofs in proofs/GateProofs.v.  The table
    gen/GateTable.v is regenerated from /repo's Go source on every run. *)
From Verif Require Import Json Outcome State Location GateTable GateProofs.

(** Every exported Location method that can reach a write access of the
    state (Add, Rem, Clear, Delete, SetProp, RemProp — directly or through
    other Location methods, event processing and rule actions included)
    passes the Enabled and CheckWrite gates first.  The explicit exceptions
    are the raw, ungated helpers of [ungated_helpers]. *)
Theorem writers_need_write_gate : forall m,
  In m exported_methods -> mem_str m ungated_helpers = false ->
  guarded m write_accesses ["gate:Enabled"; "gate:CheckWrite"] = true.
Proof. exact writers_guarded. Qed.

(** Every exported method that reveals facts or rules passes Enabled and
    CheckRead first. *)
Theorem readers_need_read_gate : forall m,
  In m exported_methods -> mem_str m ungated_helpers = false -> String.eqb m "EnableRule" = false ->
  guarded m reveal_accesses ["gate:Enabled"; "gate:CheckRead"] = true.
Proof. exact readers_guarded. Qed.

(** Operations issued from rule actions (the JavaScript location functions)
    go through the same gated methods with the caller's own context. *)
Theorem js_functions_use_callers_context : js_ok = true.
Proof. exact js_ok_true. Qed.

(** The model's gate sequences are the source's, method by method. *)
Theorem model_gates_match_source : forall m,
  In m modelled_methods ->
  list_eqb String.eqb (map gate_name (gates_of m)) (gate_prefix (events_of m)) = true.
Proof. exact model_gates_are_source_gates. Qed.

(** A refusing gate leaves the location — facts, indexes, storage — exactly
    as it was, and the operation reports the gate's error. *)
Theorem refused_unchanged : forall (A : Type) gs l c now (k : loc -> loc * outcome A) l' e,
  nothing_expired l now ->
  run_gates gs l c now = (l', Some e) ->
  gated gs l c now k = (l, Err e).
Proof. exact (@refused_unchanged_main). Qed.

(** The write gate passes exactly for a writable location and a matching (or
    absent) key; likewise the read gate: with the right keys the gates are
    transparent. *)
Theorem write_gate_spec : forall l c now,
  snd (check_write l c now) =
  negb (l_readonly l) &&
  (let k := snd (get_prop_string l "writeKey" now) in String.eqb k "" || String.eqb (c_wk c) k).
Proof. exact check_write_spec. Qed.

Theorem read_gate_spec : forall l c now,
  snd (check_read l c now) =
  (let k := snd (get_prop_string l "readKey" now) in String.eqb k "" || String.eqb (c_rk c) k).
Proof. exact check_read_spec. Qed.
