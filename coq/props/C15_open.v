(** C15: examples (finding D28 is repaired: no refutation witness is left).
    The former bypasses of the cron hooks, each closed by vm_compute, now show
    the registry following the state. *)
From Verif Require Import Json Outcome State CronHooks CronHooksSpec CronHooksProofs.
Definition overwrite_unschedules := overwrite_unschedules_example.
Definition cascade_unschedules := cascade_unschedules_example.
Definition expiry_unschedules := expiry_unschedules_example.
Definition clear_unschedules := clear_unschedules_example.
Definition load_reregisters := load_reregisters_example.
Definition load_drops_expired := load_drops_expired_example.
Definition history_with_every_path := history_example.
