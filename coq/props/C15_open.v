(** C15: the known bypasses of the cron hooks (finding D28), each closed by vm_compute. *)
From Verif Require Import Json Outcome State CronHooks CronHooksSpec CronHooksProofs.
Definition overwrite_keeps_job := overwrite_keeps_job_counterexample.
Definition cascade_keeps_job := cascade_keeps_job_counterexample.
Definition expiry_keeps_job := expiry_keeps_job_counterexample.
Definition linear_clear_keeps_jobs := linear_clear_keeps_jobs_counterexample.
Definition linear_load_misses_jobs := linear_load_misses_jobs_counterexample.
Definition direct_histories_exist := direct_history_satisfiable.
