(** C09: the hypotheses of the exactness and loop theorems are satisfiable
    (a concrete chain A <- B <- C over mixed state kinds, and a 3-cycle). *)
From Verif Require Import Json Outcome State Location SysOps LocSpec LocExamples.
Definition chain_example := ex_chain_by_theorem.
Definition cycle_example := ex_cycle_by_theorem.
