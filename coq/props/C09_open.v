(** C09: the hypotheses of the exactness and loop theorems are satisfiable
    (a concrete chain A <- B <- C over mixed state kinds, and a 3-cycle). *)
From Verif Require Import Json Outcome State Location SysOps LocSpec LocExamples.
From Verif Require LocProofs.
Definition chain_example := ex_chain_by_theorem.
Definition cycle_example := ex_cycle_by_theorem.
(** noninterference_history asks the untouched location to have no purge pending (D52's repair:
    a walk that reads an ancestor's parents runs the ancestor's pending purge). *)
Definition noninterference_history_needs_no_pending :=
  Verif.LocProofs.noninterference_history_pending_counterexample.
