(** C05 — pattern matching is sound and complete for partial (subset) matching.
    Property theorems only; proofs are in proofs/Match*.v. *)
From Verif Require Import Json Outcome Match MatchSpec MatchProofs.

(** On the documented fragment ([fragment]: well-formed pattern — no optional
    or inequality-named variables, at most one variable per array, a property
    variable only as a single key —, ground data and initial bindings, and no
    repeated or pre-bound variable that may land on structured data), the
    matcher returns without error, and the binding sets it returns are exactly
    the canonical assignments [b] that extend the initial bindings, bind exactly
    the pattern's variables in addition, and under which the pattern lays over
    the data as a partial match ([lay]: maps may have extra keys, arrays are
    sets laid injectively, every occurrence of a variable sees an equal
    value).  Soundness is the -> direction, completeness the <- direction;
    no bound on sizes or depths. *)
Theorem match_sound_complete : forall p d b0,
  fragment p d b0 = true ->
  exists out, core_match p d b0 = Ok out /\ forall b, In b out <-> Ext p d b0 b.
Proof. exact match_exact. Qed.

(** Soundness and completeness separately, and totality. *)
Theorem match_sound : forall p d b0 out b,
  fragment p d b0 = true -> core_match p d b0 = Ok out -> In b out -> Ext p d b0 b.
Proof.
  intros p d b0 out b Hf Hm Hin.
  destruct (match_exact p d b0 Hf) as (out' & Hm' & Hiff).
  rewrite Hm in Hm'. injection Hm' as <-. apply Hiff. exact Hin.
Qed.

Theorem match_complete : forall p d b0 out b,
  fragment p d b0 = true -> core_match p d b0 = Ok out -> Ext p d b0 b -> In b out.
Proof.
  intros p d b0 out b Hf Hm Hext.
  destruct (match_exact p d b0 Hf) as (out' & Hm' & Hiff).
  rewrite Hm in Hm'. injection Hm' as <-. apply Hiff. exact Hext.
Qed.

Theorem match_total : forall p d b0,
  fragment p d b0 = true -> exists out, core_match p d b0 = Ok out.
Proof.
  intros p d b0 Hf. destruct (match_exact p d b0 Hf) as (out & Hm & _). exists out. exact Hm.
Qed.
