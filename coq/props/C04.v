(** C04 - an event runs each action exactly once per rule and binding result.
    Property theorems only; proofs are in proofs/EventsProofs.v.
    [process_event]/[walk_rules] (theories/Events.v) model WorkWalk over the
    work tree FindRules -> EvalRule -> EvalRuleCondition -> ExecRuleAction;
    [spec_execs] is the specification written from the property text: for
    every dispatched rule, every when-binding, every condition result, every
    action - one execution. *)
From Verif Require Import Json Outcome Match PatIndex State Location Query QueryOps QuerySpec Events
                          EventsSpec EventsProofs.

(** Fan-out is exact: in a system in which fact search is pure (nothing
    expires during the walk), for dispatched rules that are not serial and not
    one-shot and whose conditions evaluate, the walk executes EXACTLY the
    executions of the specification - same rule, same action, same bindings,
    each exactly once, in order - every execution's result is the action's
    script run on exactly those bindings, and the system is unchanged. *)
Theorem fanout_exact : forall sem name c e event sy children,
  search_pure name c e sy -> Forall (clean_child sem name c e event sy) children ->
  exists xs, walk_rules sem name c e event sy children = (sy, xs, None) /\
    map (fun x => (x_rule x, x_code x, x_bs x)) xs = spec_execs (cond_results sem name c e event sy) children /\
    (js_children children -> forall x, In x xs ->
       x_res x = match sem (x_code x) with Some cd => run_code cd (x_bs x) | None => Err "unknown script" end).
Proof. exact EventsProofs.fanout_exact. Qed.

(** The returned work tree and values list report exactly these executions. *)
Theorem process_event_exact : forall sy name c e sem event l0 sy1 children,
  sys_get sy name = Some l0 -> find_rules_full sy name c e sem event = (sy1, Ok children) ->
  search_pure name c e sy1 -> Forall (clean_child sem name c e event sy1) children ->
  let xs := spec_recs sem (cond_results sem name c e event sy1) children in
  process_event sy name c e sem event = (sy1, mkWalk (Ok tt) xs (values_of xs) false).
Proof. exact EventsProofs.process_event_exact. Qed.

(** The bindings every condition and action sees: the when/condition bindings
    plus event, location and ruleId (never overwriting a binding of that name). *)
Theorem inject_spec : forall bs ev loc rid,
  sorted_keys (map fst bs) = true ->
  sorted_keys (map fst (inject bs ev loc rid)) = true /\
  forall k, alookup k (inject bs ev loc rid) =
    match alookup k bs with
    | Some v => Some v
    | None => if String.eqb k "?event" then Some ev
              else if String.eqb k "?location" then Some (JStr loc)
              else if String.eqb k "?ruleId" then Some (JStr rid) else None
    end.
Proof. exact EventsProofs.inject_spec. Qed.

(** Concurrent (default) actions: every action runs exactly once whatever fails ... *)
Theorem run_actions_concurrent : forall sem rid bs acts,
  run_actions sem false rid bs acts = (map (exec_action sem rid bs) acts, false).
Proof. exact EventsProofs.run_actions_concurrent. Qed.

(** ... and a failing action is reported on its own node and does not prevent,
    duplicate or alter the other executions. *)
Theorem failure_is_local : forall sem rid bs pre a a' post,
  let xs := fst (run_actions sem false rid bs (pre ++ a :: post)) in
  let xs' := fst (run_actions sem false rid bs (pre ++ a' :: post)) in
  length xs = length xs' /\
  nth_error xs (length pre) = Some (exec_action sem rid bs a) /\
  nth_error xs' (length pre) = Some (exec_action sem rid bs a') /\
  (forall i, i <> length pre -> nth_error xs i = nth_error xs' i) /\
  snd (run_actions sem false rid bs (pre ++ a :: post)) = false /\
  snd (run_actions sem false rid bs (pre ++ a' :: post)) = false.
Proof. exact EventsProofs.failure_is_local. Qed.

(** Serial actions stop at (and include) the first failure. *)
Theorem serial_stops_at_first_failure : forall sem rid bs pre a post,
  forallb (action_ok sem rid bs) pre = true -> action_ok sem rid bs a = false ->
  run_actions sem true rid bs (pre ++ a :: post) = (map (exec_action sem rid bs) (pre ++ [a]), true).
Proof. exact EventsProofs.serial_stops_at_first_failure. Qed.

(** The values list holds exactly the results of the completed executions. *)
Theorem values_report_ok_results : forall xs,
  map (@Ok json) (values_of xs) = map x_res (filter res_ok xs) /\
  length (values_of xs) = length (filter res_ok xs) /\
  (forall v, In v (values_of xs) <-> exists x, In x xs /\ x_res x = Ok v).
Proof. exact EventsProofs.values_report_ok_results. Qed.

(** The dispatch step with rule bodies agrees with FindRules.Do of C01/C10. *)
Theorem find_children_full_agrees : forall l rules ev now,
  fst (find_children_full l rules ev now false []) = fst (find_children l rules ev now []) /\
  omap (map forget_body) (snd (find_children_full l rules ev now false [])) = snd (find_children l rules ev now []).
Proof. exact EventsProofs.find_children_full_agrees. Qed.

(** One-shot schedules remove the rule after it ran; other rules stay. *)
Theorem oneshot_removed_after_run : forall name c e sy rid body,
  one_shot (rule_schedule body) = true ->
  rule_done name c e sy rid body =
  match sys_get sy name with
  | None => (sy, Some (Err E_noloc))
  | Some l => (sys_set sy name (fst (loc_rem_rule l c e rid)), done_disp (snd (loc_rem_rule l c e rid)))
  end.
Proof. exact EventsProofs.oneshot_removed_after_run. Qed.

Theorem rule_done_not_oneshot : forall name c e sy rid body,
  one_shot (rule_schedule body) = false -> rule_done name c e sy rid body = (sy, None).
Proof. exact EventsProofs.rule_done_not_oneshot. Qed.
