(** C20 — configured limits are enforced and recover.
    Property theorems only; proofs are in proofs/BreakerProofs.v. *)
From Verif Require Import Json Outcome State Location Breaker BreakerProofs GateProofs CapacityProofs.

(** Safety, for the code before and after the repair ([v]): from a fresh
    breaker, for every non-decreasing sequence of call instants (calls are
    serialised by the mutex, inside which the clock is read), no window
    (T - 20*res, T] contains more than [limit] admissions.  [res] is
    interval/20 in Go integer division; interval < 20ns is the
    divide-by-zero branch and is excluded. *)
Theorem rate_bound : forall v limit interval b ts T,
  b_new limit interval = Some b -> 20 <= interval -> nondecreasing ts ->
  count_in_window (admitted_times (snd (run_do v b ts)))
                  (ticksZ * Z.quot interval ticksZ) T <= limit.
Proof. exact rate_bound_run. Qed.

(** Liveness of the repaired code: a call is admitted whenever every earlier
    admission is at least a window old — whatever was polled in between. *)
Theorem recovers : forall limit interval b ts,
  b_new limit interval = Some b -> 20 <= interval -> nondecreasing ts ->
  recovers_spec (ticksZ * Z.quot interval ticksZ) (snd (run_do Fixed b ts)).
Proof.
  intros limit interval b ts H1 H2 H3.
  exact (recovers_check_spec _ _ (recovers_run limit interval b ts H1 H2 H3)).
Qed.

(** The trace checker applied to implementation observations is equivalent
    to the rate bound. *)
Theorem rate_bound_checker_exact : forall limit w adm,
  0 < w -> 0 <= limit ->
  (rate_bound_check limit w adm = true <-> forall T, count_in_window adm w T <= limit).
Proof.
  intros limit w adm Hw Hl. split.
  - exact (rate_bound_check_complete limit w adm Hw Hl).
  - exact (rate_bound_check_sound limit w adm).
Qed.

(** Throttle: with a breaker that honours "attempted iff ran", a submitted
    function runs at most once (exactly once iff Submit reports success). *)
Theorem throttle_at_most_once : forall attempts polls,
  Forall (fun p => fst p = snd p) polls ->
  let '(k, worked) := poll attempts polls in (k = if worked then 1 else 0).
Proof. exact poll_at_most_once. Qed.

(** Throttle: never more than pendingLimit + 1 submissions waiting, for every
    interleaving of Submit entries and exits. *)
Theorem pending_le_limit_plus_one : forall es attempts disabled plimit,
  0 <= plimit ->
  ts_waiting (fold_left tstep es (mkT (mkThrottle 0 plimit attempts disabled) 0)) <= plimit + 1.
Proof. exact pending_le_limit_plus_one_run. Qed.

(** Capacity: an AddFact or AddRule on a location that is at its maximum is
    refused and changes nothing ... *)
Theorem refused_add_no_effect : forall (m : string) l c e (k : loc -> loc * outcome string),
  (m = "AddFact" \/ m = "AddRule") ->
  nothing_expired l (e_now e) -> at_capacity l = true ->
  exists err, gated (gates_of m) l c (e_now e) k = (l, Err err).
Proof. exact add_at_capacity_refused. Qed.

(** ... and a location within its maximum stays within it after any AddFact,
    whatever the arguments, keys and outcome. *)
Theorem add_respects_capacity : forall l c e id fact,
  lcount l <= l_max l -> nothing_expired l (e_now e) ->
  lcount (fst (loc_add_fact l c e id fact)) <= l_max (fst (loc_add_fact l c e id fact)).
Proof. exact add_respects_capacity_fact. Qed.
