(** C16: refutations kept as findings (each closed by vm_compute in
    proofs/CronProofs.v and proofs/CroltProofs.v). *)
From Verif Require Import Json Outcome Cron Crolt CronSpec CronProofs CroltSpec CroltProofs.

(** D26: a recurring job removed while its callback runs re-inserts itself
    (Rem finds nothing: the job is off the timeline while it runs) ... *)
Definition removed_inflight_recurring_refuted := removed_inflight_recurring_counterexample.
(** ... and a job added under that id meanwhile is dropped by the re-insertion. *)
Definition readd_inflight_lost_refuted := readd_inflight_lost_counterexample.
(** D38: Rem does not reset the timer: after the removal of the head the timer
    expires, finds the new head not ready, and is never armed again. *)
Definition rem_head_stalls_refuted := rem_head_stalls_counterexample.
(** D49: an Add while suspended re-arms the timer; the loop's timer branch does
    not look at the suspended flag: jobs fire while suspended. *)
Definition add_while_suspended_fires_refuted := add_while_suspended_fires_counterexample.
(** D50: schedule removes the pending job of the id before the limit check: a
    refused Add deletes the job. *)
Definition add_at_capacity_drops_job_refuted := add_at_capacity_drops_job_counterexample.
(** D40: crolt's Add trusts the client's TId and deletes that time entry. *)
Definition client_tid_breaks_consistency_refuted := client_tid_breaks_consistency_counterexample.
(** D39: crolt's time keys are ordered as strings: inside one second an entry
    can count as due before its instant, or not be due after it; keys of whole
    seconds are not due before the next second. *)
Definition work_fires_subsecond_early_refuted := work_fires_subsecond_early_counterexample.
Definition work_defers_due_entry_refuted := work_defers_due_entry_counterexample.
Definition whole_second_key_waits_a_second_refuted := whole_second_key_waits_a_second_counterexample.
