(** C16: no refutation is left open.  The traces of the repaired defects
    (cron: D26, D38, D49, D50; crolt: D40, D39) with their outcome after the
    repair (closed by vm_compute in proofs/CronProofs.v and
    proofs/CroltProofs.v). *)
From Verif Require Import Json Outcome Cron Crolt CronSpec CronProofs CroltSpec CroltProofs.

(** Repaired (the trace that refuted the clause on the pinned code, with what
    the repaired code does):
    D26: a recurring job removed while its callback runs stays removed ... *)
Definition removed_inflight_recurring_fixed := removed_inflight_recurring_fixed_example.
(** ... and a job added under that id meanwhile is kept. *)
Definition readd_inflight_kept := readd_inflight_kept_example.
(** D38: Rem of the head re-arms the timer for the new head. *)
Definition rem_head_rearms := rem_head_rearms_example.
(** D49: an Add while suspended does not arm the timer; nothing fires until Resume. *)
Definition add_while_suspended_quiet := add_while_suspended_quiet_example.
(** D50: an Add refused at capacity leaves the pending job of that id in place. *)
Definition add_at_capacity_refused_keeps_job := add_at_capacity_refused_keeps_job_example.
(** D40: an Add that carries the TId of another job: the TId is ignored and the
    buckets stay consistent. *)
Definition client_tid_ignored_fixed := client_tid_ignored_example.
(** D39: with fixed-width keys an entry due 50 ms after now is not due, one due
    50 ms ago is, and a whole-second key is due within its second. *)
Definition subsecond_not_early := subsecond_not_early_example.
Definition due_entry_not_deferred := due_entry_not_deferred_example.
Definition whole_second_key_due_in_its_second := whole_second_key_due_in_its_second_example.
