(** C16: refutations kept as findings (each closed by vm_compute in
    proofs/CroltProofs.v), and the traces of the repaired cron defects
    (D26, D38, D49, D50) with their outcome after the repair
    (proofs/CronProofs.v). *)
From Verif Require Import Json Outcome Cron Crolt CronSpec CronProofs CroltSpec CroltProofs.

(** D40: crolt's Add trusts the client's TId and deletes that time entry. *)
Definition client_tid_breaks_consistency_refuted := client_tid_breaks_consistency_counterexample.
(** D39: crolt's time keys are ordered as strings: inside one second an entry
    can count as due before its instant, or not be due after it; keys of whole
    seconds are not due before the next second. *)
Definition work_fires_subsecond_early_refuted := work_fires_subsecond_early_counterexample.
Definition work_defers_due_entry_refuted := work_defers_due_entry_counterexample.
Definition whole_second_key_waits_a_second_refuted := whole_second_key_waits_a_second_counterexample.

(** Repaired (the trace that refuted the clause on the pinned code, with what
    the repaired code does):
    D26: a recurring job removed while its callback runs stays removed ... *)
Definition removed_inflight_recurring_fixed := removed_inflight_recurring_fixed_example.
(** ... and a job added under that id meanwhile is kept. *)
Definition readd_inflight_kept := readd_inflight_kept_example.
(** D38: Rem of the head re-arms the timer for the new head. *)
Definition rem_head_rearms := rem_head_rearms_example.
(** D49: an Add while suspended does not arm the timer; nothing fires until Resume. *)
Definition add_while_suspended_quiet := add_while_suspended_quiet_example.
(** D50: an Add refused at capacity leaves the pending job of that id in place. *)
Definition add_at_capacity_refused_keeps_job := add_at_capacity_refused_keeps_job_example.
