(** C03: edges of the refinement theorem. *)
From Verif Require Import Json Outcome Match Query QuerySpec QueryProofs.
(** [exec] reports an unknown script even when no binding reaches it; queries
    produced by ParseQuery never contain one ([parse_query_scripts_known]). *)
Definition unknown_script_refuted := exec_correct_unknown_script_counterexample.
Definition parsed_queries_know_their_scripts := parse_query_scripts_known.
(** Which error is reported may differ (the code evaluates breadth-first). *)
Definition error_may_differ := exec_error_may_differ_example.
