(** C08: examples (finding D14 is repaired: no refutation witness is left). *)
From Verif Require Import Json Outcome Match PatIndex State CascadeSpec CascadeProofs.

(** D14 (repaired), on the state of the former witness plus one literal
    dependent: removing the id "?zzz", which looks like a variable, deletes
    "dep" (its deleteWith names "?zzz") and leaves "keep" (its deleteWith
    names "other"); before the repair the search for dependents read the id
    as a variable and "keep" was deleted too. *)
Lemma varlike_id_removes_literal_dependents_example :
  exists s s', st_kind s = Linear /\
    alookup "keep" (st_facts s) <> None /\ ~ Clo s "?zzz" "keep" /\
    alookup "dep" (st_facts s) <> None /\ Clo s "?zzz" "dep" /\
    st_rem s "?zzz" 100 = (s', Ok false) /\
    alookup "keep" (st_facts s') = alookup "keep" (st_facts s) /\
    alookup "dep" (st_facts s') = None.
Proof. exact varlike_id_removes_literal_dependents. Qed.

(** Non-vacuity: a three-node cycle with a dangling target is removed entirely. *)
Definition cyc : state :=
  mkState Linear
    [("a", JObj [("deleteWith", JArr [JStr "c"; JStr "gone"])]);
     ("b", JObj [("deleteWith", JArr [JStr "a"])]);
     ("c", JObj [("deleteWith", JArr [JStr "b"])]);
     ("d", JObj [("x", JNum 1)])] [] pn_empty
    [("a", JNull); ("b", JNull); ("c", JNull); ("d", JNull)] false O None false [].
Example c08_cycle :
  map fst (st_facts (fst (st_rem cyc "a" 100))) = ["d"] /\
  map fst (st_store (fst (st_rem cyc "a" 100))) = ["d"] /\
  snd (st_rem cyc "a" 100) = Ok true.
Proof. repeat split; vm_compute; reflexivity. Qed.
