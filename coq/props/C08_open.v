(** C08: refutation witness (known finding D14). *)
From Verif Require Import Json Outcome Match PatIndex State CascadeSpec CascadeProofs.

(** D14: removing an id that looks like a variable ("?zzz") deletes every fact
    with a non-empty deleteWith: the id is read as a variable by the search
    for dependents. *)
Lemma varlike_id_refuted_witness :
  exists s s', st_kind s = Linear /\
    alookup "keep" (st_facts s) <> None /\ ~ Clo s "?zzz" "keep" /\
    st_rem s "?zzz" 100 = (s', Ok false) /\ alookup "keep" (st_facts s') = None.
Proof. exact varlike_id_refuted. Qed.

(** Non-vacuity: a three-node cycle with a dangling target is removed entirely. *)
Definition cyc : state :=
  mkState Linear
    [("a", JObj [("deleteWith", JArr [JStr "c"; JStr "gone"])]);
     ("b", JObj [("deleteWith", JArr [JStr "a"])]);
     ("c", JObj [("deleteWith", JArr [JStr "b"])]);
     ("d", JObj [("x", JNum 1)])] [] pn_empty
    [("a", JNull); ("b", JNull); ("c", JNull); ("d", JNull)] false O None false [].
Example c08_cycle :
  map fst (st_facts (fst (st_rem cyc "a" 100))) = ["d"] /\
  map fst (st_store (fst (st_rem cyc "a" 100))) = ["d"] /\
  snd (st_rem cyc "a" 100) = Ok true.
Proof. repeat split; vm_compute; reflexivity. Qed.
