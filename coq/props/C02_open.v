(** C02: non-vacuity and refutation witnesses (known findings D8, D9). *)
From Verif Require Import Json Outcome Match PatIndex State MatchSpec StateSpec.
From Verif Require PendingProofs.

Definition f1 : json := JObj [("a", JNum 1); ("b", JStr "x")].
Definition f2 : json := JObj [("a", JNum 2); ("x!", JStr "foo")].
Definition hist : list (sop * Z) :=
  [(SAdd "i1" f1 "" None, 100); (SAdd "i2" f2 "" None, 100); (SAdd "i1" f2 "" None, 101);
   (SAdd "i3" f1 "" None, 102); (SRem "i2", 103)].
Definition s_ex : state := reachable Indexed false None hist.

(** The hypotheses of search_exact_reachable are satisfiable on a state with
    an overwrite (stale index entries) and the search is non-trivial. *)
Example c02_premises :
  let p := JObj [("a", JStr "?v"); ("b", JStr "x")] in
  extract_terms p <> [] /\ no_propvar p = true /\
  forallb (fun kv => fragment p (snd kv) []) (st_facts s_ex) = true /\
  forallb (fun kv => negb (fact_expired (snd kv) 200)) (st_facts s_ex) = true /\
  snd (st_search s_ex p 200) = Ok [("i3", [[("?v", JNum 1)]])] /\
  ti_ids (st_tindex s_ex) "x" = ["i1"; "i3"] (* i1 is stale *).
Proof. cbv zeta. repeat split; try (vm_compute; congruence); vm_compute; reflexivity. Qed.

(** D8: the indexed state refuses a pattern without an indexable term, the
    linear state answers. *)
Lemma no_terms_refuted :
  let p := JObj [("?k", JNum 1)] in
  snd (st_search s_ex p 200) = Err "No terms given." /\
  snd (st_search (as_linear s_ex) p 200) = Ok [("i3", [[("?k", JStr "a")]])].
Proof. split; vm_compute; reflexivity. Qed.

(** D9: a property variable whose key ends in "!" (values under such keys
    are not indexed): the indexed state misses the fact. *)
Lemma propvar_under_bang_refuted :
  let p := JObj [("?k", JStr "foo")] in
  snd (st_search s_ex p 200) = Ok [] /\
  snd (st_search (as_linear s_ex) p 200) = Ok [("i1", [[("?k", JStr "x!")]])].
Proof. split; vm_compute; reflexivity. Qed.

(** Since the repair of D52 (the readers note the expired ids, the public
    entry points purge them): get_last_write / search_exact speak of states
    with no purge pending.  In a state in which an id is noted a read returns
    the same facts, with the list of noted ids emptied - not literally the
    same state.  No reachable state is like that (C02.no_purge_left_pending). *)
Definition reads_keep_state_needs_no_pending :=
  Verif.PendingProofs.reads_keep_state_needs_no_pending_counterexample.
