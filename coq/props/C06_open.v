(** C06: witnesses (each closed by vm_compute in the proofs files) that mark the
    edges of the C06 theorems on the tree as it is.  None of them contradicts
    the property as stated (it speaks about histories of SUCCESSFUL operations
    and about what an interrupted operation may touch); they record what the
    model - and the code, see DESIGN.md - does after a reported failure. *)
From Verif Require Import Json Outcome State StateSpec DurableSpec DurableReach DurableFail DurableReload LocExamples.

(** With the cron hooks installed, an add that the hook rejects leaves nothing
    behind in either state kind (the history that exhibited D33 - the linear
    state wrote the record before it asked the hook - replayed on the repaired
    model; the theorem is C06.hook_reject_leaves_no_residue). *)
Definition hook_reject_leaves_no_residue_witness := hook_reject_leaves_no_residue_example.
(** An indexed-state add whose storage write fails reports the error but keeps
    the new value in memory (the storage keeps the old one). *)
Definition failed_add_modifies_memory_refuted := failed_add_modifies_memory_counterexample.
(** A linear-state clear whose storage call fails has already emptied the memory. *)
Definition failed_clear_empties_memory_refuted := failed_clear_empties_memory_counterexample.
(** The purge that ends a read (or a Rem) logs the storage errors of its removals and drops them,
    in both state kinds (since the repair of D52: before it the linear state's Search and FindRules
    returned them). *)
Definition purge_errors_swallowed := purge_errors_swallowed_example.
Definition purge_errors_dropped_linear := purge_errors_dropped_linear_example.
(** Load re-generates the id of a property fact stored under another key. *)
Definition load_regenerates_property_ids := load_expired_record_in_facts_counterexample.
(** Premises of the theorems are satisfiable: a concrete mixed system. *)
Definition premises_satisfiable := ex_chain_by_theorem.
