(** C13: where totality stops (kept as findings), and a witness that the hypotheses are satisfiable. *)
From Verif Require Import Json Outcome Match PatIndex State Location SysOps Query QueryOps Events.
From Verif Require Import StateSpec GateProofs LocSpec TotalSpec TotalProofs.
(** D12 (sheens matcher, dependency): data containing "?"-strings is outside the
    ground fragment; the matcher recurses without bound on it, for every fuel. *)
Definition nonground_data_diverges := nonground_data_diverges_counterexample.
Definition nonground_data_diverges_every_fuel := TotalProofs.nonground_data_diverges_every_fuel.
(** reachable through the public API: a stored rule (its `when` pattern holds
    variables) is data for a fact search over rules. *)
Definition search_over_stored_rule_diverges := search_over_stored_rule_diverges_counterexample.
