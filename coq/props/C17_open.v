(** C17: refutations kept as findings (closed by vm_compute in proofs/CacheProofs.v). *)
From Verif Require Import Json Outcome Cache CacheSpec CacheProofs.
(** D41: the code before its repair replaced a cache entry that was not loaded
    yet; the schedule A0 A1 B0 B1 of two concurrent first requests loads twice. *)
Definition single_load_refuted := single_load_refuted_counterexample.
Definition never_pending_cachettl := never_pending_cachettl_counterexample.
(** D60: the code before its repair marked an entry in use with a BOOLEAN;
    under a 1 ms TTL the release of one of two overlapping requests lets the
    entry expire, a second instance is loaded while the first is still in use,
    and a write acknowledged through the first is missing from the second. *)
Definition boolean_pending := boolean_pending_counterexample.
Definition boolean_pending_refutes := boolean_pending_replaces_instance_in_use.
Definition premises_satisfiable := CacheExamples.hist_forever.
Definition repaired_premises_satisfiable := CacheExamples.repaired_conf.
