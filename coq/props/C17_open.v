(** C17: refutations kept as findings (closed by vm_compute in proofs/CacheProofs.v). *)
From Verif Require Import Json Outcome Cache CacheSpec CacheProofs.
(** D41: the code as it is replaces a cache entry that is not loaded yet; the
    schedule A0 A1 B0 B1 of two concurrent first requests loads twice. *)
Definition single_load_refuted := single_load_refuted_counterexample.
Definition never_pending_cachettl := never_pending_cachettl_counterexample.
Definition premises_satisfiable := CacheExamples.hist_forever.
