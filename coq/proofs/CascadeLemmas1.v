(** C08 support, part 1: association-list facts, state projections, and the
    behaviour of the matcher on the tiny pattern {"deleteWith":[id]}. *)
From Coq Require Import Lia.
From Verif Require Import Json Outcome Match PatIndex State MatchLemmas1 CascadeSpec.

(** * aremove / afilter *)

Lemma aremove_afilter {A} k (l : list (string * A)) :
  aremove k l = afilter (fun x => negb (String.eqb k x)) l.
Proof.
  induction l as [|[k' v] l IH]; cbn [aremove afilter filter fst]; auto.
  destruct (String.eqb k k'); cbn [negb]; fold (afilter (fun x => negb (String.eqb k x)) l);
    rewrite IH; reflexivity.
Qed.

Lemma alookup_aremove {A} j k (l : list (string * A)) :
  alookup j (aremove k l) = if String.eqb j k then None else alookup j l.
Proof.
  rewrite aremove_afilter, alookup_afilter.
  rewrite (String.eqb_sym k j). destruct (String.eqb j k); reflexivity.
Qed.

Lemma afilter_true {A} (l : list (string * A)) : afilter (fun _ => true) l = l.
Proof. induction l as [|[k v] l IH]; cbn; auto. f_equal. exact IH. Qed.

Lemma afilter_afilter {A} k1 k2 (l : list (string * A)) :
  afilter k1 (afilter k2 l) = afilter (fun x => k2 x && k1 x) l.
Proof.
  induction l as [|[k v] l IH]; cbn [afilter filter fst]; auto.
  destruct (k2 k) eqn:E2; cbn [andb filter fst].
  - destruct (k1 k); fold (afilter k2 l); fold (afilter k1 (afilter k2 l));
      fold (afilter (fun x => k2 x && k1 x) l); rewrite IH; reflexivity.
  - fold (afilter k2 l); fold (afilter k1 (afilter k2 l));
      fold (afilter (fun x => k2 x && k1 x) l); rewrite IH; reflexivity.
Qed.

Lemma afilter_length {A} keep (l : list (string * A)) : (length (afilter keep l) <= length l)%nat.
Proof.
  induction l as [|[k v] l IH]; cbn [afilter filter fst length]; auto.
  fold (afilter keep l). destruct (keep k); cbn [length]; lia.
Qed.

Lemma afilter_length_lt {A} keep j (l : list (string * A)) :
  alookup j l <> None -> keep j = false -> (length (afilter keep l) < length l)%nat.
Proof.
  induction l as [|[k v] l IH]; cbn [afilter filter fst length alookup]; [congruence|].
  fold (afilter keep l). intros Hp Hk.
  destruct (String.eqb j k) eqn:E.
  - apply String.eqb_eq in E. subst k. rewrite Hk.
    pose proof (afilter_length keep l). lia.
  - specialize (IH Hp Hk). destruct (keep k); cbn [length]; lia.
Qed.

(** [fsub l' l]: [l'] is [l] with the entries of some keys deleted. *)
Definition fsub {A} (l' l : list (string * A)) : Prop := exists keep, l' = afilter keep l.

Lemma fsub_refl {A} (l : list (string * A)) : fsub l l.
Proof. exists (fun _ => true). symmetry. apply afilter_true. Qed.

Lemma fsub_trans {A} (a b c : list (string * A)) : fsub a b -> fsub b c -> fsub a c.
Proof.
  intros [k1 ->] [k2 ->]. eexists. apply afilter_afilter.
Qed.

Lemma fsub_aremove {A} k (l : list (string * A)) : fsub (aremove k l) l.
Proof. eexists. apply aremove_afilter. Qed.

Lemma fsub_length {A} (l' l : list (string * A)) : fsub l' l -> (length l' <= length l)%nat.
Proof. intros [k ->]. apply afilter_length. Qed.

Lemma fsub_lookup {A} (l' l : list (string * A)) j f :
  fsub l' l -> alookup j l' = Some f -> alookup j l = Some f.
Proof.
  intros [k ->]. rewrite alookup_afilter. destruct (k j); congruence.
Qed.

Lemma fsub_lookup_None {A} (l' l : list (string * A)) j :
  fsub l' l -> alookup j l = None -> alookup j l' = None.
Proof.
  intros [k ->] H. rewrite alookup_afilter, H. destruct (k j); reflexivity.
Qed.

Lemma fsub_shrink {A} (l' l : list (string * A)) j :
  fsub l' l -> alookup j l <> None -> alookup j l' = None -> (length l' < length l)%nat.
Proof.
  intros [k ->] Hp Ha. rewrite alookup_afilter in Ha.
  destruct (k j) eqn:E; [contradiction|].
  eapply afilter_length_lt; eauto.
Qed.

Lemma aremove_length_lt {A} k (l : list (string * A)) :
  alookup k l <> None -> (length (aremove k l) < length l)%nat.
Proof.
  intros H. rewrite aremove_afilter. apply afilter_length_lt with (j := k); auto.
  rewrite String.eqb_refl. reflexivity.
Qed.

Lemma alookup_In_keys {A} j (f : A) l : alookup j l = Some f -> In j (map fst l).
Proof. intros H. apply alookup_In in H. apply in_map_iff. exists (j, f). auto. Qed.

(** * State projections *)

Lemma facts_unindex_rule s id rule : st_facts (unindex_rule s id rule) = st_facts s.
Proof. unfold unindex_rule. destruct (is_scheduled rule); [reflexivity|]. destruct (rule_patterns rule); reflexivity. Qed.
Lemma tindex_unindex_rule s id rule : st_tindex (unindex_rule s id rule) = st_tindex s.
Proof. unfold unindex_rule. destruct (is_scheduled rule); [reflexivity|]. destruct (rule_patterns rule); reflexivity. Qed.
Lemma store_unindex_rule s id rule : st_store (unindex_rule s id rule) = st_store s.
Proof. unfold unindex_rule. destruct (is_scheduled rule); [reflexivity|]. destruct (rule_patterns rule); reflexivity. Qed.
Lemma kind_unindex_rule s id rule : st_kind (unindex_rule s id rule) = st_kind s.
Proof. unfold unindex_rule. destruct (is_scheduled rule); [reflexivity|]. destruct (rule_patterns rule); reflexivity. Qed.

(** * The targets of deleteDependencies: the candidates that name the id *)

Lemma dw_targets_In s id ids j :
  In j (dw_targets s id ids) <->
  In j ids /\ exists fact, alookup j (st_facts s) = Some fact /\ dw_names fact id = true.
Proof.
  unfold dw_targets. rewrite filter_In. split.
  - intros [H1 H2]. split; [exact H1|].
    destruct (alookup j (st_facts s)) as [fact|]; [eauto|discriminate].
  - intros [H1 (fact & H2 & H3)]. split; [exact H1|]. rewrite H2. exact H3.
Qed.

Lemma dw_targets_sub s id ids j : In j (dw_targets s id ids) -> In j ids.
Proof. intros H. apply dw_targets_In in H. apply H. Qed.

Lemma skipped_Some x j : skipped (Some x) j = String.eqb j x.
Proof. reflexivity. Qed.

Lemma skipped_None j : skipped None j = false.
Proof. reflexivity. Qed.

(** * The matcher on {"deleteWith":[x]} *)

Lemma split_array_In y : forall l i fxs fxa,
  In y (fst (split_array i l fxs fxa)) <-> In y fxs \/ (In y l /\ is_scalar y = true).
Proof.
  induction l as [|a l IH]; intros i fxs fxa; cbn [split_array].
  - cbn [fst In]. rewrite <- in_rev. tauto.
  - destruct (is_scalar a) eqn:Ea.
    + rewrite IH. destruct (mem_json a fxs) eqn:Em.
      * apply mem_json_In in Em. cbn [In]. split.
        -- intros [H|[H1 H2]]; auto.
        -- intros [H|[[H|H] H2]]; subst; auto.
      * cbn [In]. split.
        -- intros [[H|H]|[H1 H2]]; subst; auto.
        -- intros [H|[[H|H] H2]]; subst; auto.
    + rewrite IH. cbn [In]. split.
      * intros [H|[H1 H2]]; auto.
      * intros [H|[[H|H] H2]]; subst; auto. congruence.
Qed.

Lemma split_array_mem_scalar y l :
  is_scalar y = true -> mem_json y (fst (split_array 0 l [] [])) = mem_json y l.
Proof.
  intros Hy. apply eq_true_iff_eq. rewrite !mem_json_In, split_array_In. cbn [In]. tauto.
Qed.

(** Non-variable id: the array pattern [x] matches exactly the arrays that
    contain the string x. *)
Lemma match_body_arr_nonvar rec x d bs :
  is_var x = false ->
  match_body rec (JArr [JStr x]) d bs =
  Ok (match d with JArr dl => if mem_json (JStr x) dl then [bs] else [] | _ => [] end).
Proof.
  intros Hx. unfold match_body. cbn [get_variable]. rewrite Hx. cbn [get_variable obind rev app].
  destruct d; try reflexivity.
  pose proof (split_array_mem_scalar (JStr x) l eq_refl) as Hm.
  destruct (split_array 0 l [] []) as [fxs fxa]. cbn [fst] in Hm.
  cbn [array_elems is_scalar]. rewrite Hm.
  destruct (mem_json (JStr x) l); cbn [array_elems obind]; reflexivity.
Qed.

(** The string pattern against anything, with no bindings: always Ok. *)
Lemma match_body_str_nil rec x d :
  exists r, match_body rec (JStr x) d [] = Ok r.
Proof.
  unfold match_body. destruct (negb (is_var x)); [eauto|].
  destruct (is_anon x); [eauto|].
  unfold inequal. cbn [alookup]. eauto.
Qed.

Lemma arraycat_one_str_ok rec x all :
  (forall d, exists r, rec (JStr x) d [] = Ok r) ->
  forall todo pos, exists a, arraycat_one rec [[]] (JStr x) all todo pos = Ok a.
Proof.
  intros Hrec. induction todo as [|[j fact] todo IH]; intros pos; cbn [arraycat_one].
  - eauto.
  - cbn [match_all]. destruct (Hrec fact) as [r Hr]. rewrite Hr. cbn [obind].
    destruct (IH (S pos)) as [a Ha]. rewrite Ha. cbn [obind]. eauto.
Qed.

Lemma match_body_arr_var_ok rec x d :
  is_var x = true ->
  (forall d, exists r, rec (JStr x) d [] = Ok r) ->
  exists r, match_body rec (JArr [JStr x]) d [] = Ok r.
Proof.
  intros Hx Hrec. unfold match_body. cbn [get_variable]. rewrite Hx.
  cbn [String.eqb get_variable obind rev].
  destruct d; eauto.
  destruct (split_array 0 l [] []) as [fxs fxa].
  cbn [array_elems obind map fst snd].
  destruct (String.eqb x "") eqn:E; [eauto|].
  cbn [arraycat].
  destruct (arraycat_one_str_ok rec x (fxa ++ combine_extra (length l) fxs)%list Hrec
              (fxa ++ combine_extra (length l) fxs)%list 0%nat) as [a Ha].
  match goal with |- context [arraycat_one ?r ?b ?p ?al ?td ?ps] =>
    remember (arraycat_one r b p al td ps) as o eqn:Eo end.
  assert (Ho : o = Ok a) by (subst o; exact Ha). rewrite Ho. cbn [obind].
  destruct (a ++ [])%list; [destruct (is_optvar x)|]; eauto.
Qed.

Lemma match_body_dw rec x d :
  match_body rec (dw_pattern x) d [] =
  match d with
  | JObj dk =>
      match alookup "deleteWith" dk with
      | None => Ok []
      | Some fv => match rec (JArr [JStr x]) fv [] with
                   | Ok m => Ok m
                   | Err e => Err e
                   | Panic w => Panic w
                   | OutOfFuel => OutOfFuel
                   end
      end
  | _ => Ok []
  end.
Proof.
  unfold dw_pattern, match_body. destruct d; try reflexivity.
  change ((1 <? length [("deleteWith", JArr [JStr x])])%nat) with false.
  cbn [andb length Nat.eqb mapcat].
  change (is_var "deleteWith") with false. cbn iota.
  destruct (alookup "deleteWith" kvs) as [fv|]; [|reflexivity].
  cbn [match_all]. destruct (rec (JArr [JStr x]) fv []) as [m| | |]; cbn [obind]; try reflexivity.
  rewrite app_nil_r. destruct m; reflexivity.
Qed.

(** With at least three levels of fuel the deleteWith pattern always gives Ok. *)
Lemma jmatch_dw_ok x fact f :
  exists r, jmatch (S (S (S f))) (dw_pattern x) fact [] = Ok r.
Proof.
  change (jmatch (S (S (S f))) (dw_pattern x) fact [])
    with (match_body (jmatch (S (S f))) (dw_pattern x) fact []).
  rewrite match_body_dw.
  destruct fact; eauto.
  destruct (alookup "deleteWith" kvs) as [fv|]; eauto.
  change (jmatch (S (S f)) (JArr [JStr x]) fv [])
    with (match_body (jmatch (S f)) (JArr [JStr x]) fv []).
  destruct (is_var x) eqn:Hx.
  - destruct (match_body_arr_var_ok (jmatch (S f)) x fv Hx) as [r Hr].
    + intros d. change (jmatch (S f) (JStr x) d []) with (match_body (jmatch f) (JStr x) d []).
      apply match_body_str_nil.
    + rewrite Hr. eauto.
  - rewrite match_body_arr_nonvar by exact Hx. eauto.
Qed.

Lemma match_fuel_ge p d bs : exists f, match_fuel p d bs = S (S (S f)).
Proof.
  unfold match_fuel. rewrite Nat.add_comm. cbn [Nat.add]. eauto.
Qed.

Lemma core_match_dw_ok x fact : exists r, core_match (dw_pattern x) fact [] = Ok r.
Proof.
  unfold core_match. destruct (match_fuel_ge (dw_pattern x) fact []) as [f ->].
  apply jmatch_dw_ok.
Qed.

(** Whether the search finds the fact when removing x. *)
Definition dw_hit (x : string) (fact : json) : bool :=
  match core_match (dw_pattern x) fact [] with
  | Ok [] => false
  | Ok _ => true
  | _ => false
  end.

Lemma dw_hit_names x fact : is_var x = false -> dw_hit x fact = dw_names fact x.
Proof.
  intros Hx. unfold dw_hit, core_match.
  destruct (match_fuel_ge (dw_pattern x) fact []) as [f ->].
  change (jmatch (S (S (S f))) (dw_pattern x) fact [])
    with (match_body (jmatch (S (S f))) (dw_pattern x) fact []).
  rewrite match_body_dw. unfold dw_names, jget.
  destruct fact; try reflexivity.
  destruct (alookup "deleteWith" kvs) as [fv|]; [|reflexivity].
  change (jmatch (S (S f)) (JArr [JStr x]) fv [])
    with (match_body (jmatch (S f)) (JArr [JStr x]) fv []).
  rewrite match_body_arr_nonvar by exact Hx.
  destruct fv; try reflexivity.
  destruct (mem_json (JStr x) l); reflexivity.
Qed.

(** * Any id, variable-looking or not: a fact that names the id literally is
      found by the search (the variable matches every element of a non-empty
      deleteWith), so the literal check after the search loses nothing. *)

Lemma match_body_str_nil_hit rec x d :
  is_var x = true -> exists b r, match_body rec (JStr x) d [] = Ok (b :: r).
Proof.
  intros Hx. unfold match_body. rewrite Hx. cbn [negb].
  destruct (is_anon x); [eauto|].
  unfold inequal. cbn [alookup]. eauto.
Qed.

Lemma arraycat_one_str_hit rec x all :
  (forall d, exists b r, rec (JStr x) d [] = Ok (b :: r)) ->
  forall todo pos, todo <> [] ->
    exists a0 a, arraycat_one rec [[]] (JStr x) all todo pos = Ok (a0 :: a) /\ fst a0 <> [].
Proof.
  intros Hrec [|[j fact] todo] pos Hne; [congruence|].
  cbn [arraycat_one match_all]. destruct (Hrec fact) as (b & r & Hr). rewrite Hr. cbn [obind].
  destruct (arraycat_one_str_ok rec x all) with (todo := todo) (pos := S pos) as [a Ha].
  { intros d. destruct (Hrec d) as (b' & r' & H). eauto. }
  rewrite Ha. cbn [obind app]. eexists _, _. split; [reflexivity|]. cbn [fst]. discriminate.
Qed.

Lemma match_body_arr_var_hit rec x l :
  is_var x = true -> mem_json (JStr x) l = true ->
  (forall d, exists b r, rec (JStr x) d [] = Ok (b :: r)) ->
  exists b r, match_body rec (JArr [JStr x]) (JArr l) [] = Ok (b :: r).
Proof.
  intros Hx Hm Hrec. unfold match_body. cbn [get_variable]. rewrite Hx.
  cbn [String.eqb get_variable obind rev].
  pose proof (split_array_mem_scalar (JStr x) l eq_refl) as Hs. rewrite Hm in Hs.
  destruct (split_array 0 l [] []) as [fxs fxa]. cbn [fst] in Hs.
  cbn [array_elems obind map fst snd].
  destruct (String.eqb x "") eqn:E.
  { cbn. eauto. }
  cbn [arraycat].
  assert (Hall : (fxa ++ combine_extra (length l) fxs)%list <> []).
  { destruct fxs as [|y fxs]; [cbn in Hs; discriminate|].
    unfold combine_extra. cbn [length seq List.combine].
    intros H. apply app_eq_nil in H. destruct H as [_ H]. discriminate. }
  destruct (arraycat_one_str_hit rec x (fxa ++ combine_extra (length l) fxs)%list Hrec
              (fxa ++ combine_extra (length l) fxs)%list 0%nat Hall) as (a0 & a & Ha & Hne).
  match goal with |- context [arraycat_one ?r ?b ?p ?al ?td ?ps] =>
    remember (arraycat_one r b p al td ps) as o eqn:Eo end.
  assert (Ho : o = Ok (a0 :: a)) by (subst o; exact Ha). rewrite Ho. cbn [obind app].
  unfold combine. cbn [map concat]. destruct (fst a0) as [|b r]; [congruence|].
  cbn [app]. eauto.
Qed.

Lemma dw_names_hit x fact : dw_names fact x = true -> dw_hit x fact = true.
Proof.
  intros Hn. destruct (is_var x) eqn:Hx; [|rewrite dw_hit_names by exact Hx; exact Hn].
  unfold dw_hit, core_match.
  destruct (match_fuel_ge (dw_pattern x) fact []) as [f ->].
  change (jmatch (S (S (S f))) (dw_pattern x) fact [])
    with (match_body (jmatch (S (S f))) (dw_pattern x) fact []).
  rewrite match_body_dw. unfold dw_names, jget in Hn.
  destruct fact; try discriminate.
  destruct (alookup "deleteWith" kvs) as [fv|]; [|discriminate].
  destruct fv; try discriminate.
  change (jmatch (S (S f)) (JArr [JStr x]) (JArr l) [])
    with (match_body (jmatch (S f)) (JArr [JStr x]) (JArr l) []).
  destruct (match_body_arr_var_hit (jmatch (S f)) x l Hx Hn) as (b & r & Hr).
  { intros d. change (jmatch (S f) (JStr x) d []) with (match_body (jmatch f) (JStr x) d []).
    apply match_body_str_nil_hit. exact Hx. }
  rewrite Hr. reflexivity.
Qed.
