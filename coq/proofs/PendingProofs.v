(** After the repair of D52: the list of noted expired ids ([st_pending],
    the model of expiredIds) is empty between any two operations - every
    public entry point that can note an id ends with the purge, which empties
    the list (CascadeTerm.purge_clears), and add / clear never touch it. *)
From Verif Require Import Json Outcome Match PatIndex State StateSpec.
From Verif Require StateProofs CascadeTerm LocBasics.

Lemma sstep_pending s o : st_pending s = [] -> st_pending (sstep s o) = [].
Proof.
  destruct o as [op now]. unfold sstep. intros Hp. destruct op.
  - rewrite LocBasics.st_add_pending. exact Hp.
  - apply LocBasics.st_Rem_pending.
  - apply LocBasics.st_get_pending.
  - apply LocBasics.st_search_pending.
  - apply LocBasics.st_find_rules_pending.
  - rewrite LocBasics.st_clear_pending. exact Hp.
Qed.

Lemma fold_sstep_pending ops : forall s, st_pending s = [] -> st_pending (fold_left sstep ops s) = [].
Proof.
  induction ops as [|o r IH]; intros s Hp; cbn [fold_left]; [exact Hp|].
  apply IH. apply sstep_pending. exact Hp.
Qed.

Theorem pending_empty_reachable : pending_empty_reachable_statement.
Proof. intros k hooks fail ops. unfold reachable. apply fold_sstep_pending. reflexivity. Qed.

(** a read (or a Rem) leaves no id noted, whatever the state it starts from *)
Theorem public_ops_leave_nothing_pending : forall s now,
  (forall id, st_pending (fst (st_get s id now)) = []) /\
  (forall id, st_pending (fst (st_Rem s id now)) = []) /\
  (forall p, st_pending (fst (st_search s p now)) = []) /\
  (forall ev, st_pending (fst (st_find_rules s ev now)) = []).
Proof.
  intros s now. repeat split; intros.
  - apply LocBasics.st_get_pending.
  - apply LocBasics.st_Rem_pending.
  - apply LocBasics.st_search_pending.
  - apply LocBasics.st_find_rules_pending.
Qed.

(** Why the statements about "a read changes nothing" (C02 get_exact /
    search_exact, C06 ops_touch_only_named_ids, C13 rejected_input_keeps_state,
    GateProofs.nothing_expired) now ask for an empty list of noted ids: in a
    state in which an id is noted, every read runs the purge, which empties
    the list - the state is no longer literally the same.  (Such a state is
    never reached between two operations: [pending_empty_reachable].) *)
Definition noted_state (k : skind) : state := set_pending (empty_state k false) ["x"].

Lemma reads_keep_state_needs_no_pending_counterexample :
  st_wf (noted_state Indexed) /\ Idx_sup (noted_state Indexed) /\
  no_expired (noted_state Indexed) 0 /\ no_expired (noted_state Linear) 0 /\
  st_get (noted_state Linear) "a" 0 <> (noted_state Linear, Err "notfound") /\
  fst (st_search (noted_state Indexed) (JObj [("a", JStr "b")]) 0) <> noted_state Indexed /\
  fst (st_search (noted_state Linear) (JObj []) 0) <> noted_state Linear /\
  fst (st_find_rules (noted_state Linear) (JObj []) 0) <> noted_state Linear /\
  (* what they do return: the same state with the list emptied *)
  fst (st_get (noted_state Linear) "a" 0) = empty_state Linear false.
Proof.
  repeat split; try (vm_compute; reflexivity); try (intros id fact H; discriminate H);
    try (intros id fact t H; discriminate H); try (vm_compute; discriminate).
Qed.

Print Assumptions pending_empty_reachable.
Print Assumptions reads_keep_state_needs_no_pending_counterexample.
Print Assumptions public_ops_leave_nothing_pending.
