(** C06/C07 support: a frame for reasoning about the removal cascade.
    [rem_body] is split into a non-recursive head ([rem_head]) followed by
    [delete_dependencies]; every relation that is a preorder, is insensitive to
    the ghost flag and is established by the head holds across the whole
    cascade and across every read (get / search / find-rules) and [st_Rem]. *)
From Coq Require Import Lia.
From Verif Require Import Json Outcome Match PatIndex State StateSpec AssocLemmas StateProofs.

Definition wrapb {A B} (r : state * outcome A) (b : B) : state * outcome B :=
  match r with
  | (s6, Ok _) => (s6, Ok b)
  | (s6, Err e) => (s6, Err e)
  | (s6, Panic w) => (s6, Panic w)
  | (s6, OutOfFuel) => (s6, OutOfFuel)
  end.

Lemma fst_wrapb {A B} (r : state * outcome A) (b : B) : fst (wrapb r b) = fst r.
Proof. destruct r as [s [a|e|w|]]; reflexivity. Qed.

(** The indexed state forgets a fact: rule index, fact map, term index. *)
Definition idx_drop (s : state) (id : string) (fact : json) : state :=
  let s1 := match extract_rule fact false with
            | Ok (Some rule) => unindex_rule s id rule
            | _ => s
            end in
  let s2 := set_facts s1 (aremove id (st_facts s1)) in
  set_tindex s2 (fold_left (fun idx t => ti_rem t id idx) (extract_terms fact) (st_tindex s2)).

(** The part of a removal before the dependents are looked for; the boolean
    says whether the removal goes on (false: the storage call failed). *)
Definition rem_head (s : state) (id : string) : state * bool :=
  match st_kind s with
  | Indexed =>
      match alookup id (st_facts s) with
      | Some fact =>
          let '(s4, failed) := store_call (idx_drop s id fact) in
          if failed then (s4, false) else (set_store s4 (aremove id (st_store s4)), true)
      | None => (s, true)
      end
  | Linear =>
      let '(s1, failed) := store_call s in
      if failed then (s1, false)
      else let s2 := set_store s1 (aremove id (st_store s1)) in
           (set_facts s2 (aremove id (st_facts s2)), true)
  end.

Definition had_fact (s : state) (id : string) : bool :=
  match alookup id (st_facts s) with Some _ => true | None => false end.

Lemma rem_body_head rr s id now :
  rem_body rr s id now =
  (if snd (rem_head s id)
   then wrapb (delete_dependencies rr (fst (rem_head s id)) id now) (had_fact s id)
   else (fst (rem_head s id), Err "storage")).
Proof.
  unfold rem_body, rem_head, had_fact. destruct (st_kind s).
  - destruct (alookup id (st_facts s)) as [fact|] eqn:El.
    + fold (idx_drop s id fact).
      destruct (store_call (idx_drop s id fact)) as [s4 failed].
      destruct failed; cbn [fst snd]; [reflexivity|].
      unfold wrapb. destruct (delete_dependencies rr _ id now) as [s6 [u|e|w|]]; reflexivity.
    + cbn [fst snd]. unfold wrapb.
      destruct (delete_dependencies rr s id now) as [s6 [u|e|w|]]; reflexivity.
  - unfold store_call.
    destruct (match st_fail s with Some n => Nat.eqb n (st_calls s) | None => false end);
      cbn [fst snd]; [reflexivity|].
    cbn [st_facts set_store st_store]. unfold wrapb.
    match goal with |- context [delete_dependencies rr ?x id now] =>
      destruct (delete_dependencies rr x id now) as [s6 [u|e|w|]] end; reflexivity.
Qed.

Lemma facts_idx_drop s id fact : st_facts (idx_drop s id fact) = aremove id (st_facts s).
Proof.
  unfold idx_drop. cbn [st_facts set_tindex set_facts].
  destruct (extract_rule fact false) as [[r|]|e|w|]; try reflexivity.
  unfold unindex_rule. destruct (is_scheduled r); [reflexivity|]. destruct (rule_patterns r); reflexivity.
Qed.

Lemma eqp_pre_drop s id fact :
  eqp s (match extract_rule fact false with
         | Ok (Some rule) => unindex_rule s id rule
         | _ => s
         end).
Proof.
  destruct (extract_rule fact false) as [[r|]|e|w|]; try apply eqp_refl. apply eqp_unindex_rule.
Qed.

Lemma idx_drop_fields s id fact :
  st_kind (idx_drop s id fact) = st_kind s /\ st_store (idx_drop s id fact) = st_store s /\
  st_hooks (idx_drop s id fact) = st_hooks s /\ st_calls (idx_drop s id fact) = st_calls s /\
  st_fail (idx_drop s id fact) = st_fail s /\ st_amb (idx_drop s id fact) = st_amb s /\
  st_tindex (idx_drop s id fact) =
    fold_left (fun idx t => ti_rem t id idx) (extract_terms fact) (st_tindex s) /\
  st_pending (idx_drop s id fact) = st_pending s.
Proof.
  unfold idx_drop. pose proof (eqp_pre_drop s id fact) as H.
  cbn [st_kind st_store st_hooks st_calls st_fail st_amb st_pending st_tindex set_tindex set_facts].
  destruct H as (H1 & H2 & H3 & H4 & H5 & H6 & H7 & H8 & H9).
  rewrite H1, H3, H4, H5, H6, H7, H8, H9. repeat split; reflexivity.
Qed.

(** * The frame *)

Section Frame.
  Variable R : state -> state -> Prop.
  Hypothesis R_refl : forall s, R s s.
  Hypothesis R_trans : forall a b c, R a b -> R b c -> R a c.
  Hypothesis R_pending : forall s p, R s (set_pending s p).
  Hypothesis R_head : forall s id, R s (fst (rem_head s id)).

  (** the reads proper only note ids *)
  Lemma expire_R s id fact now : R s (fst (expire s id fact now)).
  Proof.
    unfold expire. destruct (fact_expired fact now); [|apply R_refl].
    cbn [fst]. apply R_pending.
  Qed.

  Lemma search_ids_R ids : forall s pattern now acc,
    R s (fst (search_ids s ids pattern now acc)).
  Proof.
    induction ids as [|id r IH]; intros s pattern now acc; cbn [search_ids].
    - apply R_refl.
    - destruct (alookup id (st_facts s)) as [fact|]; [|apply IH].
      pose proof (expire_R s id fact now) as H.
      destruct (expire s id fact now) as [s1 expired]. cbn [fst] in H.
      destruct expired; [eapply R_trans; [exact H|apply IH]|].
      destruct (core_match pattern fact []) as [[|b bss]|e|w|]; try exact H;
        (eapply R_trans; [exact H|apply IH]).
  Qed.

  Lemma search_state_R s pattern now : R s (fst (search_state s pattern now)).
  Proof.
    unfold search_state. destruct (st_kind s).
    - destruct (ti_search (st_tindex s) (extract_terms pattern)); try apply R_refl.
      apply search_ids_R.
    - apply search_ids_R.
  Qed.

  Section WithRec.
    Variable rr : state -> string -> Z -> state * outcome bool.
    Hypothesis rr_R : forall s id now, R s (fst (rr s id now)).

    Lemma rem_list_R ids : forall s skip now, R s (fst (rem_list rr s ids skip now)).
    Proof.
      induction ids as [|j r IH]; intros s skip now; cbn [rem_list].
      - apply R_refl.
      - destruct (skipped skip j); [apply IH|].
        pose proof (rr_R s j now) as H.
        destruct (rr s j now) as [s1 [b|e|w|]]; cbn [fst] in *; try exact H.
        eapply R_trans; [exact H|apply IH].
    Qed.

    Lemma delete_dependencies_R s id now : R s (fst (delete_dependencies rr s id now)).
    Proof.
      unfold delete_dependencies.
      pose proof (search_state_R s (dw_pattern id) now) as H.
      destruct (search_state s (dw_pattern id) now) as [s1 [found|e|w|]]; cbn [fst] in *; try exact H.
      eapply R_trans; [exact H|apply rem_list_R].
    Qed.

    Lemma rem_body_R s id now : R s (fst (rem_body rr s id now)).
    Proof.
      rewrite rem_body_head. pose proof (R_head s id) as H.
      destruct (rem_head s id) as [h cont]. cbn [fst snd] in *.
      destruct cont; [|exact H]. rewrite fst_wrapb.
      eapply R_trans; [exact H|apply delete_dependencies_R].
    Qed.
  End WithRec.

  Lemma rem_fuel_R fuel : forall s id now, R s (fst (rem_fuel fuel s id now)).
  Proof.
    induction fuel as [|f IH]; intros s id now; cbn [rem_fuel].
    - apply R_refl.
    - apply rem_body_R. exact IH.
  Qed.

  Lemma st_rem_R s id now : R s (fst (st_rem s id now)).
  Proof. apply rem_fuel_R. Qed.

  Lemma st_rem_rec_R s id now : R s (fst (st_rem_rec s id now)).
  Proof. apply rem_fuel_R. Qed.

  (** the purge: rounds of removals *)
  Lemma purge_ids_R ids : forall s now, R s (fst (purge_ids s ids now)).
  Proof.
    induction ids as [|id r IH]; intros s now; cbn [purge_ids]; [apply R_refl|].
    destruct (alookup id (st_facts s)) as [fact|]; [|apply IH].
    destruct (fact_expired fact now); [|apply IH].
    pose proof (st_rem_R s id now) as H.
    destruct (st_rem s id now) as [s1 [b|e|w|]]; cbn [fst] in *; try exact H;
      (eapply R_trans; [exact H|apply IH]).
  Qed.

  Lemma purge_fuel_R fuel : forall s now, R s (fst (purge_fuel fuel s now)).
  Proof.
    induction fuel as [|f IH]; intros s now; cbn [purge_fuel].
    - destruct (st_pending s); apply R_refl.
    - destruct (st_pending s) as [|i ids]; [apply R_refl|].
      pose proof (purge_ids_R (i :: ids) (set_pending s []) now) as H.
      assert (H0 : R s (fst (purge_ids (set_pending s []) (i :: ids) now))).
      { eapply R_trans; [apply R_pending|exact H]. }
      destruct (purge_ids (set_pending s []) (i :: ids) now) as [s1 [u|e|w|]]; cbn [fst] in *; try exact H0.
      eapply R_trans; [exact H0|apply IH].
  Qed.

  Lemma purge_R s now : R s (fst (purge s now)).
  Proof. apply purge_fuel_R. Qed.

  Lemma with_purge_R {A} s (r : state * outcome A) now : R s (fst r) -> R s (fst (with_purge r now)).
  Proof. intros H. unfold with_purge. cbn [fst]. eapply R_trans; [exact H|apply purge_R]. Qed.

  Lemma st_search_R s p now : R s (fst (st_search s p now)).
  Proof. unfold st_search. apply with_purge_R. apply search_state_R. Qed.

  Lemma get_body_R s id now : R s (fst (get_body s id now)).
  Proof.
    unfold get_body. destruct (alookup id (st_facts s)) as [fact|]; [|apply R_refl].
    pose proof (expire_R s id fact now) as H.
    destruct (expire s id fact now) as [s1 [|]]; exact H.
  Qed.

  Lemma st_get_R s id now : R s (fst (st_get s id now)).
  Proof. unfold st_get. apply with_purge_R. apply get_body_R. Qed.

  Lemma st_Rem_R s id now : R s (fst (st_Rem s id now)).
  Proof.
    unfold st_Rem. apply with_purge_R. destruct (st_hooks s); [|apply st_rem_R].
    pose proof (st_get_R s id now) as H.
    destruct (st_get s id now) as [s1 [b|e|w|]]; cbn [fst] in *; try exact H.
    eapply R_trans; [exact H|apply st_rem_R].
  Qed.

  Lemma find_ids_idx_R ids : forall s now acc, R s (fst (find_ids_idx s ids now acc)).
  Proof.
    induction ids as [|id r IH]; intros s now acc; cbn [find_ids_idx].
    - apply R_refl.
    - destruct (alookup id (st_facts s)) as [fact|]; [|apply R_refl].
      pose proof (expire_R s id fact now) as H.
      destruct (expire s id fact now) as [s1 expired]. cbn [fst] in H.
      destruct expired; [eapply R_trans; [exact H|apply IH]|].
      destruct (extract_rule fact true) as [[body|]|e|w|]; try exact H.
      eapply R_trans; [exact H|apply IH].
  Qed.

  Lemma find_ids_lin_R ids : forall s ev now acc, R s (fst (find_ids_lin s ids ev now acc)).
  Proof.
    induction ids as [|id r IH]; intros s ev now acc; cbn [find_ids_lin].
    - apply R_refl.
    - destruct (alookup id (st_facts s)) as [fact|]; [|apply IH].
      destruct (jget "rule" fact) as [rule|]; [|apply IH].
      pose proof (expire_R s id fact now) as H.
      destruct (expire s id fact now) as [s1 expired]. cbn [fst] in H.
      assert (Hn : forall acc', R s (fst (find_ids_lin s1 r ev now acc'))).
      { intros acc'. eapply R_trans; [exact H|apply IH]. }
      destruct expired; [apply Hn|].
      destruct rule as [| | | | |rm]; try apply Hn.
      destruct (alookup "when" rm) as [[| | | | |w]|]; try apply Hn.
      destruct (core_match _ ev []) as [[|b bss]|e|w'|]; try exact H; apply Hn.
  Qed.

  Lemma do_find_rules_R s ev now : R s (fst (do_find_rules s ev now)).
  Proof.
    unfold do_find_rules. apply with_purge_R. destruct (st_kind s).
    - destruct (pi_search (st_pindex s) ev); try apply R_refl. apply find_ids_idx_R.
    - apply find_ids_lin_R.
  Qed.

  Lemma st_find_rules_R s ev now : R s (fst (st_find_rules s ev now)).
  Proof.
    unfold st_find_rules. pose proof (do_find_rules_R s ev now) as H.
    destruct (do_find_rules s ev now) as [s1 res]. cbn [fst] in H.
    destruct res as [l|e|w|]; exact H.
  Qed.
End Frame.

(** Unary invariants as frames. *)
Section FrameInv.
  Variable Q : state -> Prop.
  Hypothesis Q_pending : forall s p, Q s -> Q (set_pending s p).
  Hypothesis Q_head : forall s id, Q s -> Q (fst (rem_head s id)).

  Let R (s s' : state) : Prop := Q s -> Q s'.
  Let R_refl : forall s, R s s := fun s H => H.
  Let R_trans : forall a b c, R a b -> R b c -> R a c := fun a b c H1 H2 H => H2 (H1 H).

  Lemma st_rem_inv s id now : Q s -> Q (fst (st_rem s id now)).
  Proof. exact (st_rem_R R R_refl R_trans Q_pending Q_head s id now). Qed.
  Lemma st_rem_rec_inv s id now : Q s -> Q (fst (st_rem_rec s id now)).
  Proof. exact (st_rem_rec_R R R_refl R_trans Q_pending Q_head s id now). Qed.
  Lemma rem_fuel_inv fuel s id now : Q s -> Q (fst (rem_fuel fuel s id now)).
  Proof. exact (rem_fuel_R R R_refl R_trans Q_pending Q_head fuel s id now). Qed.
  Lemma purge_frame_inv s now : Q s -> Q (fst (purge s now)).
  Proof. exact (purge_R R R_refl R_trans Q_pending Q_head s now). Qed.
  Lemma st_search_inv s p now : Q s -> Q (fst (st_search s p now)).
  Proof. exact (st_search_R R R_refl R_trans Q_pending Q_head s p now). Qed.
  Lemma st_get_inv s id now : Q s -> Q (fst (st_get s id now)).
  Proof. exact (st_get_R R R_refl R_trans Q_pending Q_head s id now). Qed.
  Lemma st_Rem_inv s id now : Q s -> Q (fst (st_Rem s id now)).
  Proof. exact (st_Rem_R R R_refl R_trans Q_pending Q_head s id now). Qed.
  Lemma st_find_rules_inv s ev now : Q s -> Q (fst (st_find_rules s ev now)).
  Proof. exact (st_find_rules_R R R_refl R_trans Q_pending Q_head s ev now). Qed.
End FrameInv.
