(** C08: deleteWith cascades terminate and remove exactly the dependents. *)
From Coq Require Import Lia.
From Verif Require Import Json Outcome Match PatIndex State MatchLemmas1
  CascadeSpec CascadeLemmas1 CascadeTerm CascadeExact.

Theorem cascade_terminates : cascade_terminates_statement.
Proof. intros s id now. apply st_rem_not_oof. Qed.

Theorem purge_terminates : purge_terminates_statement.
Proof. intros s now. split; [apply purge_ok|apply purge_clears]. Qed.

Theorem purge_keeps_answer : purge_keeps_answer_statement.
Proof. intros A r now. apply with_purge_eq. Qed.

Theorem cascade_fuel_irrelevant : cascade_fuel_irrelevant_statement.
Proof. intros s id now fuel H. apply rem_fuel_irrelevant. exact H. Qed.

Theorem cascade_exact_linear : cascade_exact_linear_statement.
Proof.
  intros s id now s' had Hk Hf _ _ Hne Hrem.
  assert (Hg : good s now) by (repeat split; auto).
  unfold st_rem in Hrem.
  destruct (rem_fuel_exact now _ s id s' had Hg Hrem) as (Hhad & D & HxD & HDclo & Hclosed & HR).
  destruct HR as (_ & _ & HF & HS).
  split; [exact Hhad|]. split.
  - intros j Hj. assert (Hm : mem_str j D = true).
    { apply mem_str_In. eapply Closed_Clo; eauto. }
    rewrite HF, HS, Hm. auto.
  - intros j Hj. assert (Hm : mem_str j D = false).
    { destruct (mem_str j D) eqn:E; auto. exfalso. apply Hj. apply HDclo. apply mem_str_In. exact E. }
    rewrite HF, HS, Hm. auto.
Qed.

Theorem cascade_ok_linear : cascade_ok_linear_statement.
Proof.
  intros s id now Hk Hf Hne.
  assert (Hl : lin_ok s now) by (repeat split; auto).
  pose proof (st_rem_not_oof s id now) as Hn.
  unfold st_rem in *.
  destruct (rem_fuel_ok now (cascade_fuel s) s id Hl) as [_ Ho].
  destruct (rem_fuel (cascade_fuel s) s id now) as [s' o]. cbn [snd] in *.
  destruct o as [had| | |]; try contradiction; eauto.
Qed.

(** D14 (repaired): "keep" depends on "other", "dep" on the variable-looking
    id "?zzz"; removing the absent id "?zzz" deletes "dep" only. *)
Definition d14_state : state :=
  mkState Linear [("dep", JObj [("deleteWith", JArr [JStr "?zzz"])]);
                  ("keep", JObj [("deleteWith", JArr [JStr "other"])])] [] pn_empty [] false 0 None false [].

Lemma d14_clo j : Clo d14_state "?zzz" j -> j = "?zzz" \/ j = "dep".
Proof.
  intros H. induction H as [|x j fact H IH Hj Hn]; auto.
  cbn [d14_state st_facts alookup] in Hj.
  destruct (String.eqb j "dep") eqn:E1; [apply String.eqb_eq in E1; auto|].
  destruct (String.eqb j "keep") eqn:E2; [|discriminate].
  inversion Hj; subst fact. exfalso.
  destruct IH as [->| ->]; vm_compute in Hn; discriminate.
Qed.

Theorem varlike_id_removes_literal_dependents : varlike_id_removes_literal_dependents_statement.
Proof.
  exists d14_state, (fst (st_rem d14_state "?zzz" 100)).
  split; [reflexivity|]. split; [vm_compute; discriminate|]. split.
  { intros H. apply d14_clo in H. destruct H; discriminate. }
  split; [vm_compute; discriminate|]. split.
  { eapply Clo_dep; [apply Clo_root|reflexivity|reflexivity]. }
  split; [vm_compute; reflexivity|]. split; vm_compute; reflexivity.
Qed.

Print Assumptions cascade_terminates.
Print Assumptions purge_terminates.
Print Assumptions purge_keeps_answer.
Print Assumptions cascade_fuel_irrelevant.
Print Assumptions cascade_exact_linear.
Print Assumptions cascade_ok_linear.
Print Assumptions varlike_id_removes_literal_dependents.
