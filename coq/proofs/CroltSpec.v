(** C16 (Bolt-backed cron service): the property clauses as statements over
    the model of Crolt.v, for ALL operation sequences
    ([brun ops (crolt_init parts)] is [fold_left bstep ops ...]); proofs are in
    CroltProofs.v. *)
From Coq Require Export Sorting.Sorted.
From Verif Require Import Json Outcome Crolt.

(** The job table and the time index agree: every job is indexed under its
    TId (and only there), every index entry is the TId of its job; the time
    bucket is a map (a Bolt bucket holds a key once). *)
Definition buckets_consistent (c : crolt) : Prop :=
  NoDup (map fst (c_time c)) /\
  (forall aid j, alookup aid (c_jobs c) = Some j ->
     aid_of j = aid /\
     exists t, b_tid j = Some t /\ snd t = aid /\ tlookup t (c_time c) = Some j) /\
  (forall t j, tlookup t (c_time c) = Some j ->
     b_tid j = Some t /\ snd t = aid_of j /\ alookup (aid_of j) (c_jobs c) = Some j).

(** Consistency holds after every operation of every history, a restart
    (BReopen) included, whatever the requests carry (D40 repaired: the TId of
    a request is ignored). *)
Definition buckets_consistent_statement : Prop :=
  forall ops parts, buckets_consistent (brun ops (crolt_init parts)).

(** ... and is an invariant of each single operation from ANY consistent state. *)
Definition buckets_consistent_step_statement : Prop :=
  forall c o, buckets_consistent c -> buckets_consistent (bstep c o).

(** The TId a request carries has no effect at all. *)
Definition with_tid (j : bjob) (t : option tkey) : bjob :=
  mkB (b_account j) (b_id j) (b_kind j) (b_once j) (b_evict j) t.

Definition client_tid_ignored_statement : Prop :=
  forall c j t at_, c_add c (with_tid j t) at_ = c_add c (with_tid j None) at_.

(** At most one pending entry per job id. *)
Definition one_time_entry_per_job_statement : Prop :=
  forall c t1 t2 j1 j2, buckets_consistent c ->
    tlookup t1 (c_time c) = Some j1 -> tlookup t2 (c_time c) = Some j2 ->
    snd t1 = snd t2 -> t1 = t2.

(** Delete removes the job from both buckets. *)
Definition delete_removes_both_statement : Prop :=
  forall c account id aid, buckets_consistent c -> gen_aid account id = Ok aid ->
    let c' := fst (c_delete c account id) in
    alookup aid (c_jobs c') = None /\ (forall t, snd t = aid -> tlookup t (c_time c') = None).

(** A deleted job never fires afterwards (until it is added again): a firing
    of work always comes from an entry of the time bucket. *)
Definition work_fires_stored_entries_statement : Prop :=
  forall c part now ats f, In f (snd (fst (c_work c part now ats))) ->
    exists j, In (fd_key f, j) (c_time c) /\ aid_of j = fd_aid f /\ b_evict j = false /\
              b_once j = fd_once f /\ partition (b_account j) (c_parts c) = part.

(** work fires only entries whose key is <= the rendering of now; with the
    fixed-width keys (D39 repaired) this means exactly: the instant of the
    entry is earlier than now. *)
Definition work_fires_due_only_statement : Prop :=
  forall c part now ats f, In f (snd (fst (c_work c part now ats))) ->
    key_due (fd_key f) now = true /\ fst (fd_key f) < now.

Definition key_due_iff_statement : Prop :=
  forall k now, key_due k now = true <-> fst k < now.

(** The order of the keys is the order of the instants (then of the ids). *)
Definition key_order_is_time_order_statement : Prop :=
  forall a b, (fst a < fst b -> tkey_cmp a b = Lt) /\ (tkey_cmp a b = Lt -> fst a <= fst b).

(** In every reachable state the time bucket is in the order of the instants:
    work meets the entries earliest first. *)
Definition by_instant (x y : tkey * bjob) : Prop := fst (fst x) <= fst (fst y).

Definition time_bucket_in_time_order_statement : Prop :=
  forall ops parts, StronglySorted by_instant (c_time (brun ops (crolt_init parts))).

(** Hence a due entry is never passed over: if an entry of the partition is
    due, the first entry work looks at is due (the due snapshot is not empty). *)
Definition due_entry_is_served_statement : Prop :=
  forall ops parts part now k j,
    let c := brun ops (crolt_init parts) in
    In (k, j) (c_time c) -> partition (b_account j) (c_parts c) = part -> key_due k now = true ->
    due_snapshot c part now <> [].

(** A one-shot entry that fires becomes an evict entry under a new key in both
    buckets; its old key is gone. *)
Definition oneshot_becomes_evict_statement : Prop :=
  forall c part now ats c' fs f, buckets_consistent c ->
    c_work c part now ats = (c', fs, Ok tt) -> In f fs -> fd_once f = true ->
    exists j', alookup (fd_aid f) (c_jobs c') = Some j' /\ b_evict j' = true /\ b_once j' = true.

(** An evict entry that is first in line is deleted from both buckets, nothing
    fires in that call. *)
Definition evict_entry_removed_statement : Prop :=
  forall c part now ats k j rest, buckets_consistent c ->
    due_snapshot c part now = (k, j) :: rest -> b_evict j = true ->
    let '(c', fs, r) := c_work c part now ats in
    r = Ok tt /\ fs = [] /\ alookup (aid_of j) (c_jobs c') = None /\ tlookup k (c_time c') = None.

(** A one-shot job fires at most once per Add, over every history. *)
Definition is_badd (aid : string) (o : bop) : bool :=
  match o with BAdd j _ => String.eqb (aid_of j) aid | _ => false end.
Definition is_once_fire (aid : string) (f : fired) : bool :=
  String.eqb (fd_aid f) aid && fd_once f.

Definition crolt_oneshot_fires_at_most_once_statement : Prop :=
  forall ops parts aid,
    (length (filter (is_once_fire aid) (brun_fires ops (crolt_init parts) []))
     <= length (filter (is_badd aid) ops))%nat.
