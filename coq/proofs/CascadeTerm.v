(** C08 support, part 2: termination of the cascade and fuel irrelevance. *)
From Coq Require Import Lia.
From Verif Require Import Json Outcome Match PatIndex State MatchLemmas1 CascadeSpec CascadeLemmas1.

Lemma ti_search_not_oof idx terms : ti_search idx terms <> OutOfFuel.
Proof.
  unfold ti_search. destruct terms; [discriminate|].
  destruct (ti_pick_smallest idx terms 1 (length (ti_ids idx s)) 0); discriminate.
Qed.

Lemma core_match_dw_not_oof x fact : core_match (dw_pattern x) fact [] <> OutOfFuel.
Proof. destruct (core_match_dw_ok x fact) as [r ->]. discriminate. Qed.

Section Gen.
  Variables rem1 rem2 : state -> string -> Z -> state * outcome bool.
  Variable now : Z.
  Variable F0 : list (string * json).

  Definition okcall (s : state) (j : string) : Prop :=
    rem1 s j now = rem2 s j now /\
    snd (rem1 s j now) <> OutOfFuel /\
    fsub (st_facts (fst (rem1 s j now))) (st_facts s).

  Hypothesis Hrec : forall s j, fsub (st_facts s) F0 ->
    (alookup j (st_facts s) <> None \/ (length (st_facts s) < length F0)%nat) -> okcall s j.

  (** the searches no longer remove anything: they only note ids *)
  Lemma expire_facts s id fact : st_facts (fst (expire s id fact now)) = st_facts s.
  Proof. unfold expire. destruct (fact_expired fact now); reflexivity. Qed.

  Definition search_post (s : state) (acc : list (string * list bindings))
             (r1 r2 : state * outcome (list (string * list bindings))) : Prop :=
    r1 = r2 /\ snd r1 <> OutOfFuel /\ fsub (st_facts (fst r1)) (st_facts s) /\
    forall found, snd r1 = Ok found ->
      forall j, In j (map fst found) -> In j (map fst acc) \/ alookup j F0 <> None.

  Lemma search_ids_gen pattern :
    (forall fact, core_match pattern fact [] <> OutOfFuel) ->
    forall ids s acc, fsub (st_facts s) F0 ->
      search_post s acc (search_ids s ids pattern now acc) (search_ids s ids pattern now acc).
  Proof.
    intros Hm. induction ids as [|id ids IH]; intros s acc Hs; cbn [search_ids].
    - repeat split; cbn [fst snd]; [discriminate|apply fsub_refl|].
      intros found Hf j Hj. inversion Hf; subst found. left.
      rewrite map_rev in Hj. apply in_rev in Hj. exact Hj.
    - destruct (alookup id (st_facts s)) as [fact|] eqn:Hp; [|apply IH; exact Hs].
      pose proof (expire_facts s id fact) as Hf.
      destruct (expire s id fact now) as [s1 ex]. cbn [fst] in Hf.
      assert (Hs1 : fsub (st_facts s1) F0) by (rewrite Hf; exact Hs).
      assert (Hwrap : forall acc', (forall j, In j (map fst acc') -> In j (map fst acc) \/ alookup j F0 <> None) ->
                search_post s acc (search_ids s1 ids pattern now acc') (search_ids s1 ids pattern now acc')).
      { intros acc' Hacc. destruct (IH s1 acc' Hs1) as (H1 & H2 & H3 & H4).
        repeat split; auto.
        - rewrite <- Hf. exact H3.
        - intros found Hfo j Hj. destruct (H4 found Hfo j Hj) as [H|H]; auto. }
      destruct ex; [apply Hwrap; auto|].
      destruct (core_match pattern fact []) as [bss| | |] eqn:Em.
      + destruct bss as [|b bss]; [apply Hwrap; auto|].
        apply Hwrap. intros j Hj. cbn [map fst In] in Hj. destruct Hj as [Hj|Hj]; auto.
        subst j. right. rewrite (fsub_lookup _ _ _ _ Hs Hp). discriminate.
      + repeat split; cbn [fst snd]; try discriminate. rewrite Hf. apply fsub_refl.
      + repeat split; cbn [fst snd]; try discriminate. rewrite Hf. apply fsub_refl.
      + exfalso. eapply Hm; eauto.
  Qed.

  Lemma search_state_gen pattern s :
    (forall fact, core_match pattern fact [] <> OutOfFuel) ->
    fsub (st_facts s) F0 ->
    search_post s [] (search_state s pattern now) (search_state s pattern now).
  Proof.
    intros Hm Hs. unfold search_state. destruct (st_kind s).
    - destruct (ti_search (st_tindex s) (extract_terms pattern)) as [ids| | |] eqn:E.
      + apply search_ids_gen; auto.
      + repeat split; cbn [fst snd]; try discriminate. apply fsub_refl.
      + repeat split; cbn [fst snd]; try discriminate. apply fsub_refl.
      + exfalso. eapply ti_search_not_oof; eauto.
    - apply search_ids_gen; auto.
  Qed.

  Lemma rem_list_gen skip :
    forall ids s, fsub (st_facts s) F0 ->
      (forall j, In j ids -> alookup j F0 <> None) ->
      rem_list rem1 s ids skip now = rem_list rem2 s ids skip now /\
      snd (rem_list rem1 s ids skip now) <> OutOfFuel /\
      fsub (st_facts (fst (rem_list rem1 s ids skip now))) (st_facts s).
  Proof.
    induction ids as [|j ids IH]; intros s Hs Hids; cbn [rem_list].
    - repeat split; cbn [fst snd]; [discriminate|apply fsub_refl].
    - assert (Hids' : forall j0, In j0 ids -> alookup j0 F0 <> None) by (intros; apply Hids; right; auto).
      destruct (skipped skip j); [apply IH; auto|].
      assert (Hok : okcall s j).
      { apply Hrec; auto. destruct (alookup j (st_facts s)) eqn:E; [left; discriminate|right].
        eapply fsub_shrink; eauto. apply Hids. left; auto. }
      destruct Hok as (He & Hn & Hf). rewrite <- He.
      destruct (rem1 s j now) as [s1 o]. cbn [fst snd] in *.
      destruct o as [b| | |].
      + destruct (IH s1) as (H1 & H2 & H3); auto.
        * eapply fsub_trans; eauto.
        * repeat split; auto. eapply fsub_trans; eauto.
      + repeat split; cbn [fst snd]; auto; discriminate.
      + repeat split; cbn [fst snd]; auto; discriminate.
      + contradiction.
  Qed.

  Lemma delete_dependencies_gen s id :
    st_facts s = F0 ->
    delete_dependencies rem1 s id now = delete_dependencies rem2 s id now /\
    snd (delete_dependencies rem1 s id now) <> OutOfFuel /\
    fsub (st_facts (fst (delete_dependencies rem1 s id now))) (st_facts s).
  Proof.
    intros HF. unfold delete_dependencies.
    assert (Hs : fsub (st_facts s) F0) by (rewrite HF; apply fsub_refl).
    destruct (search_state_gen (dw_pattern id) s (core_match_dw_not_oof id) Hs) as (H1 & H2 & H3 & H4).
    destruct (search_state s (dw_pattern id) now) as [s1 o]. cbn [fst snd] in *.
    destruct o as [found| | |].
    - match goal with |- context [rem_list rem1 s1 ?ids ?skip now] =>
        destruct (rem_list_gen skip ids s1) as (G1 & G2 & G3) end.
      + eapply fsub_trans; eauto.
      + intros j Hj. apply dw_targets_sub in Hj.
        destruct (H4 found eq_refl j Hj) as [H|H]; [contradiction|exact H].
      + repeat split; auto. eapply fsub_trans; eauto.
    - repeat split; cbn [fst snd]; auto; discriminate.
    - repeat split; cbn [fst snd]; auto; discriminate.
    - exfalso. apply H2. reflexivity.
  Qed.
End Gen.

Definition body_post (rem1 rem2 : state -> string -> Z -> state * outcome bool) now s id : Prop :=
  rem_body rem1 s id now = rem_body rem2 s id now /\
  snd (rem_body rem1 s id now) <> OutOfFuel /\
  fsub (st_facts (fst (rem_body rem1 s id now))) (st_facts s).

Lemma dd_wrap {B} rem1 rem2 now s0 s id (b : B) :
  fsub (st_facts s) (st_facts s0) ->
  delete_dependencies rem1 s id now = delete_dependencies rem2 s id now /\
  snd (delete_dependencies rem1 s id now) <> OutOfFuel /\
  fsub (st_facts (fst (delete_dependencies rem1 s id now))) (st_facts s) ->
  let wrap r := match r with
                | (s6, Ok _) => (s6, Ok b)
                | (s6, Err e) => (s6, Err e)
                | (s6, Panic w) => (s6, Panic w)
                | (s6, OutOfFuel) => (s6, OutOfFuel)
                end in
  wrap (delete_dependencies rem1 s id now) = wrap (delete_dependencies rem2 s id now) /\
  snd (wrap (delete_dependencies rem1 s id now)) <> OutOfFuel /\
  fsub (st_facts (fst (wrap (delete_dependencies rem1 s id now)))) (st_facts s0).
Proof.
  intros Hs (H1 & H2 & H3) wrap. rewrite <- H1.
  destruct (delete_dependencies rem1 s id now) as [s6 o]. cbn [fst snd] in *.
  assert (fsub (st_facts s6) (st_facts s0)) by (eapply fsub_trans; eauto).
  destruct o; cbn [wrap fst snd]; repeat split; auto; discriminate.
Qed.

(** A removal that deletes the id from memory first (present id, or linear state). *)
Lemma rem_body_gen_rm rem1 rem2 now s id :
  (forall s' j, fsub (st_facts s') (aremove id (st_facts s)) ->
     (alookup j (st_facts s') <> None \/ (length (st_facts s') < length (aremove id (st_facts s)))%nat) ->
     okcall rem1 rem2 now s' j) ->
  (st_kind s = Linear \/ alookup id (st_facts s) <> None) ->
  body_post rem1 rem2 now s id.
Proof.
  intros Hrec Hc. unfold body_post, rem_body.
  destruct (st_kind s) eqn:Hk.
  - destruct Hc as [Hc|Hc]; [discriminate|].
    destruct (alookup id (st_facts s)) as [fact|] eqn:Hp; [|congruence].
    set (s1 := match extract_rule fact false with Ok (Some rule) => unindex_rule s id rule | _ => s end).
    assert (Hf1 : st_facts s1 = st_facts s).
    { unfold s1. destruct (extract_rule fact false) as [[r|]| | |]; auto. apply facts_unindex_rule. }
    cbv zeta.
    match goal with |- context [store_call ?x] => set (s3 := x) end.
    assert (Hf3 : st_facts s3 = aremove id (st_facts s)).
    { unfold s3. cbn [st_facts set_tindex set_facts]. rewrite Hf1. reflexivity. }
    unfold store_call.
    match goal with |- context [if ?c then _ else _] => destruct c end.
    + repeat split; cbn [fst snd st_facts]; try discriminate.
      rewrite Hf3. apply fsub_aremove.
    + match goal with |- context [delete_dependencies rem1 ?x id now] => set (s5 := x) end.
      assert (Hf5 : st_facts s5 = aremove id (st_facts s)) by (unfold s5; cbn [st_facts set_store]; exact Hf3).
      apply (dd_wrap rem1 rem2 now s s5 id true).
      * rewrite Hf5. apply fsub_aremove.
      * apply delete_dependencies_gen with (F0 := aremove id (st_facts s)); auto.
  - unfold store_call.
    match goal with |- context [if ?c then _ else _] => destruct c end.
    + repeat split; cbn [fst snd st_facts]; try discriminate. apply fsub_refl.
    + cbv zeta.
      match goal with |- context [delete_dependencies rem1 ?x id now] => set (s3 := x) end.
      assert (Hf3 : st_facts s3 = aremove id (st_facts s)) by reflexivity.
      match goal with |- context [Ok ?h] => generalize h; intros had end.
      apply (dd_wrap rem1 rem2 now s s3 id had).
      * rewrite Hf3. apply fsub_aremove.
      * apply delete_dependencies_gen with (F0 := aremove id (st_facts s)); auto.
Qed.

(** A removal of an absent id by the indexed state: only the dependents. *)
Lemma rem_body_gen_keep rem1 rem2 now s id :
  (forall s' j, fsub (st_facts s') (st_facts s) ->
     (alookup j (st_facts s') <> None \/ (length (st_facts s') < length (st_facts s))%nat) ->
     okcall rem1 rem2 now s' j) ->
  st_kind s = Indexed -> alookup id (st_facts s) = None ->
  body_post rem1 rem2 now s id.
Proof.
  intros Hrec Hk Hp. unfold body_post, rem_body. rewrite Hk, Hp.
  apply (dd_wrap rem1 rem2 now s s id false).
  - apply fsub_refl.
  - apply delete_dependencies_gen with (F0 := st_facts s); auto.
Qed.

(** * The induction *)

Definition Good (now : Z) (fuel : nat) (s : state) (id : string) : Prop :=
  snd (rem_fuel fuel s id now) <> OutOfFuel /\
  fsub (st_facts (fst (rem_fuel fuel s id now))) (st_facts s) /\
  forall fuel', (fuel <= fuel')%nat -> rem_fuel fuel s id now = rem_fuel fuel' s id now.

Definition T_all now n := forall s id fuel,
  (length (st_facts s) <= n)%nat -> (2 * n + 2 <= fuel)%nat -> Good now fuel s id.
Definition T_present now n := forall s id fuel,
  (length (st_facts s) <= n)%nat -> alookup id (st_facts s) <> None ->
  (2 * n + 1 <= fuel)%nat -> Good now fuel s id.

Lemma Good_of_body now f s id :
  (forall f', (f <= f')%nat -> body_post (rem_fuel f) (rem_fuel f') now s id) ->
  Good now (S f) s id.
Proof.
  intros H. unfold Good. cbn [rem_fuel].
  destruct (H f (le_n _)) as (_ & H2 & H3). repeat split; auto.
  intros fuel' Hle. destruct fuel' as [|f']; [lia|]. cbn [rem_fuel].
  apply (H f'). lia.
Qed.

Lemma okcall_of_Good now f f' s j : (f <= f')%nat -> Good now f s j -> okcall (rem_fuel f) (rem_fuel f') now s j.
Proof. intros Hle (H1 & H2 & H3). repeat split; auto. Qed.

Lemma T_present_step now n : (forall m, (m < n)%nat -> T_all now m) -> T_present now n.
Proof.
  intros IH s id fuel Hlen Hp Hfuel.
  destruct fuel as [|f]; [lia|]. apply Good_of_body. intros f' Hle.
  apply rem_body_gen_rm; [|right; exact Hp].
  intros s' j Hs' _. apply okcall_of_Good; auto.
  pose proof (aremove_length_lt id (st_facts s) Hp) as Hlt.
  pose proof (fsub_length _ _ Hs') as Hl.
  destruct n as [|n]; [lia|].
  apply (IH n); lia.
Qed.

Lemma T_all_step now n : (forall m, (m < n)%nat -> T_all now m) -> T_all now n.
Proof.
  intros IH s id fuel Hlen Hfuel.
  pose proof (T_present_step now n IH) as HP.
  destruct fuel as [|f]; [lia|]. apply Good_of_body. intros f' Hle.
  assert (Hcall : forall F0 s' j, (length F0 <= n)%nat -> fsub (st_facts s') F0 ->
            (alookup j (st_facts s') <> None \/ (length (st_facts s') < length F0)%nat) ->
            okcall (rem_fuel f) (rem_fuel f') now s' j).
  { intros F0 s' j HF0 Hs' Hc. apply okcall_of_Good; auto.
    pose proof (fsub_length _ _ Hs') as Hl.
    destruct Hc as [Hc|Hc].
    - apply (HP s' j f); auto; lia.
    - destruct n as [|n]; [lia|]. apply (IH n); lia. }
  destruct (st_kind s) eqn:Hk.
  - destruct (alookup id (st_facts s)) as [fct|] eqn:Hp.
    + apply rem_body_gen_rm; [|right; congruence].
      intros s' j. apply Hcall.
      pose proof (fsub_length _ _ (fsub_aremove id (st_facts s))). lia.
    + apply rem_body_gen_keep; auto. intros s' j. apply Hcall. exact Hlen.
  - apply rem_body_gen_rm; [|left; exact Hk].
    intros s' j. apply Hcall.
    pose proof (fsub_length _ _ (fsub_aremove id (st_facts s))). lia.
Qed.

Lemma T_all_holds now n : T_all now n.
Proof.
  induction n as [n IH] using (well_founded_induction Wf_nat.lt_wf).
  apply T_all_step. exact IH.
Qed.

Lemma st_rem_Good now s id : Good now (2 * length (st_facts s) + 2) s id.
Proof. apply (T_all_holds now (length (st_facts s))); lia. Qed.

Lemma rem_fuel_stable now s id fuel :
  (2 * length (st_facts s) + 2 <= fuel)%nat ->
  rem_fuel fuel s id now = rem_fuel (2 * length (st_facts s) + 2) s id now.
Proof.
  intros H. destruct (st_rem_Good now s id) as (_ & _ & H3). symmetry. apply H3. exact H.
Qed.

Lemma st_rem_not_oof s id now : snd (st_rem s id now) <> OutOfFuel.
Proof.
  unfold st_rem, cascade_fuel. rewrite rem_fuel_stable by lia.
  apply (st_rem_Good now s id).
Qed.

Lemma st_rem_fsub s id now : fsub (st_facts (fst (st_rem s id now))) (st_facts s).
Proof.
  unfold st_rem, cascade_fuel. rewrite rem_fuel_stable by lia.
  apply (st_rem_Good now s id).
Qed.

Lemma rem_fuel_irrelevant s id now fuel :
  (cascade_fuel s <= fuel)%nat -> rem_fuel fuel s id now = st_rem s id now.
Proof.
  intros H. unfold st_rem. unfold cascade_fuel in *.
  rewrite (rem_fuel_stable now s id fuel) by lia.
  rewrite (rem_fuel_stable now s id (2 * length (st_facts s) + 4)) by lia.
  reflexivity.
Qed.

(** * The purge terminates

    A removal of the purge (a present id) either fails at its storage call
    before anything else happened (linear state: nothing removed, nothing
    noted) or removes the item from memory. *)
Lemma rem_body_progress rem1 now s id :
  (forall s' j, fsub (st_facts s') (aremove id (st_facts s)) ->
     (alookup j (st_facts s') <> None \/ (length (st_facts s') < length (aremove id (st_facts s)))%nat) ->
     okcall rem1 rem1 now s' j) ->
  (st_kind s = Linear \/ alookup id (st_facts s) <> None) ->
  fsub (st_facts (fst (rem_body rem1 s id now))) (aremove id (st_facts s)) \/
  (st_pending (fst (rem_body rem1 s id now)) = st_pending s /\
   st_facts (fst (rem_body rem1 s id now)) = st_facts s).
Proof.
  intros Hrec Hc. unfold rem_body.
  destruct (st_kind s) eqn:Hk.
  - destruct Hc as [Hc|Hc]; [discriminate|].
    destruct (alookup id (st_facts s)) as [fact|] eqn:Hp; [|congruence].
    set (s1 := match extract_rule fact false with Ok (Some rule) => unindex_rule s id rule | _ => s end).
    assert (Hf1 : st_facts s1 = st_facts s).
    { unfold s1. destruct (extract_rule fact false) as [[r|]| | |]; auto. apply facts_unindex_rule. }
    cbv zeta.
    match goal with |- context [store_call ?x] => set (s3 := x) end.
    assert (Hf3 : st_facts s3 = aremove id (st_facts s)).
    { unfold s3. cbn [st_facts set_tindex set_facts]. rewrite Hf1. reflexivity. }
    unfold store_call.
    match goal with |- context [if ?c then _ else _] => destruct c end.
    + left. cbn [fst snd st_facts]. rewrite Hf3. apply fsub_refl.
    + match goal with |- context [delete_dependencies rem1 ?x id now] => set (s5 := x) end.
      assert (Hf5 : st_facts s5 = aremove id (st_facts s)) by (unfold s5; cbn [st_facts set_store]; exact Hf3).
      left. rewrite <- Hf5.
      apply (dd_wrap rem1 rem1 now s5 s5 id true).
      * apply fsub_refl.
      * apply delete_dependencies_gen with (F0 := aremove id (st_facts s)); auto.
  - unfold store_call.
    match goal with |- context [if ?c then _ else _] => destruct c end.
    + right. split; reflexivity.
    + cbv zeta.
      match goal with |- context [delete_dependencies rem1 ?x id now] => set (s3 := x) end.
      assert (Hf3 : st_facts s3 = aremove id (st_facts s)) by reflexivity.
      match goal with |- context [Ok ?h] => generalize h; intros had end.
      left. rewrite <- Hf3.
      apply (dd_wrap rem1 rem1 now s3 s3 id had).
      * apply fsub_refl.
      * apply delete_dependencies_gen with (F0 := aremove id (st_facts s)); auto.
Qed.

Lemma st_rem_progress s id now :
  alookup id (st_facts s) <> None ->
  (length (st_facts (fst (st_rem s id now))) < length (st_facts s))%nat \/
  (st_pending (fst (st_rem s id now)) = st_pending s /\
   st_facts (fst (st_rem s id now)) = st_facts s).
Proof.
  intros Hp. unfold st_rem, cascade_fuel.
  replace (2 * length (st_facts s) + 4)%nat with (S (2 * length (st_facts s) + 3)) by lia.
  cbn [rem_fuel].
  destruct (rem_body_progress (rem_fuel (2 * length (st_facts s) + 3)) now s id) as [H|H].
  - intros s' j Hs' _. apply okcall_of_Good; [lia|].
    pose proof (fsub_length _ _ Hs') as Hl.
    pose proof (aremove_length_lt id (st_facts s) Hp) as Hlt.
    apply (T_all_holds now (length (st_facts s'))); lia.
  - right; exact Hp.
  - left. pose proof (fsub_length _ _ H) as Hl.
    pose proof (aremove_length_lt id (st_facts s) Hp) as Hlt. lia.
  - right. exact H.
Qed.

(** one round of the purge: the fact map only shrinks; if the round noted
    anything, it shrank *)
Lemma purge_ids_progress ids : forall s now,
  (length (st_facts (fst (purge_ids s ids now))) <= length (st_facts s))%nat /\
  ((length (st_facts (fst (purge_ids s ids now))) < length (st_facts s))%nat \/
   st_pending (fst (purge_ids s ids now)) = st_pending s) /\
  snd (purge_ids s ids now) <> OutOfFuel.
Proof.
  induction ids as [|id r IH]; intros s now; cbn [purge_ids].
  - cbn [fst snd]. repeat split; [lia|right; reflexivity|discriminate].
  - destruct (alookup id (st_facts s)) as [fact|] eqn:Hp; [|apply IH].
    destruct (fact_expired fact now); [|apply IH].
    assert (Hp' : alookup id (st_facts s) <> None) by congruence.
    pose proof (st_rem_progress s id now Hp') as Hpr.
    pose proof (fsub_length _ _ (st_rem_fsub s id now)) as Hle.
    pose proof (st_rem_not_oof s id now) as Hno.
    destruct (st_rem s id now) as [s1 o]. cbn [fst snd] in *.
    assert (Hgo : (length (st_facts (fst (purge_ids s1 r now))) <= length (st_facts s))%nat /\
                  ((length (st_facts (fst (purge_ids s1 r now))) < length (st_facts s))%nat \/
                   st_pending (fst (purge_ids s1 r now)) = st_pending s) /\
                  snd (purge_ids s1 r now) <> OutOfFuel).
    { destruct (IH s1 now) as (H1 & H2 & H3). repeat split; [lia| |exact H3].
      destruct Hpr as [Hpr|[Hpr1 Hpr2]]; [left; lia|].
      destruct H2 as [H2|H2]; [left; rewrite <- Hpr2; exact H2|right; congruence]. }
    destruct o as [b|e|w|]; [exact Hgo|exact Hgo| |contradiction].
    cbn [fst snd]. repeat split; [lia| |discriminate].
    destruct Hpr as [Hpr|[Hpr1 _]]; [left; exact Hpr|right; exact Hpr1].
Qed.

Lemma purge_fuel_not_oof fuel : forall s now,
  (length (st_facts s) < fuel)%nat -> snd (purge_fuel fuel s now) <> OutOfFuel.
Proof.
  induction fuel as [|f IH]; intros s now Hlen; [lia|].
  cbn [purge_fuel]. destruct (st_pending s) as [|i ids] eqn:Ep; [discriminate|].
  destruct (purge_ids_progress (i :: ids) (set_pending s []) now) as (H1 & H2 & H3).
  destruct (purge_ids (set_pending s []) (i :: ids) now) as [s1 o]. cbn [fst snd st_facts set_pending] in *.
  destruct o as [u|e|w|]; try discriminate; [|contradiction].
  destruct H2 as [H2|H2].
  - apply IH. lia.
  - (* nothing was noted during the round: the next round has nothing to do *)
    cbn [st_pending set_pending] in H2.
    destruct f as [|f']; cbn [purge_fuel]; rewrite H2; discriminate.
Qed.

Lemma purge_not_oof s now : snd (purge s now) <> OutOfFuel.
Proof. unfold purge, purge_rounds. apply purge_fuel_not_oof. lia. Qed.

(** when the purge answers, no id is left noted *)
Lemma purge_fuel_pending fuel : forall s now u,
  snd (purge_fuel fuel s now) = Ok u -> st_pending (fst (purge_fuel fuel s now)) = [].
Proof.
  induction fuel as [|f IH]; intros s now u; cbn [purge_fuel].
  - destruct (st_pending s) eqn:Ep; cbn [fst snd]; [intros _; exact Ep|discriminate].
  - destruct (st_pending s) as [|i ids] eqn:Ep; cbn [fst snd]; [intros _; exact Ep|].
    destruct (purge_ids (set_pending s []) (i :: ids) now) as [s1 [u1|e|w|]]; cbn [fst snd]; try discriminate.
    apply IH.
Qed.

Lemma purge_pending s now u : snd (purge s now) = Ok u -> st_pending (fst (purge s now)) = [].
Proof. apply purge_fuel_pending. Qed.

(** the purge never reports an error of its own *)
Lemma purge_ids_not_err ids : forall s now e, snd (purge_ids s ids now) <> Err e.
Proof.
  induction ids as [|id r IH]; intros s now e; cbn [purge_ids]; [discriminate|].
  destruct (alookup id (st_facts s)) as [fact|]; [|apply IH].
  destruct (fact_expired fact now); [|apply IH].
  destruct (st_rem s id now) as [s1 [b|e1|w|]]; cbn [snd]; try discriminate; apply IH.
Qed.

Lemma purge_fuel_not_err fuel : forall s now e, snd (purge_fuel fuel s now) <> Err e.
Proof.
  induction fuel as [|f IH]; intros s now e; cbn [purge_fuel].
  - destruct (st_pending s); discriminate.
  - destruct (st_pending s) as [|i ids]; [discriminate|].
    pose proof (purge_ids_not_err (i :: ids) (set_pending s []) now) as H.
    destruct (purge_ids (set_pending s []) (i :: ids) now) as [s1 [u1|e1|w|]]; cbn [snd] in *; try discriminate.
    + apply IH.
    + exfalso. apply (H e1). reflexivity.
Qed.

Lemma purge_not_err s now e : snd (purge s now) <> Err e.
Proof. apply purge_fuel_not_err. Qed.

(** * The removal and the purge never panic: the only pattern they match is
    [dw_pattern], on which the matcher always answers *)
Lemma ti_search_not_panic idx terms w : ti_search idx terms <> Panic w.
Proof.
  unfold ti_search. destruct terms; [discriminate|].
  destruct (ti_pick_smallest idx terms 1 (length (ti_ids idx s)) 0); discriminate.
Qed.

Lemma search_ids_dw_not_panic x now w : forall ids s acc,
  snd (search_ids s ids (dw_pattern x) now acc) <> Panic w.
Proof.
  induction ids as [|i r IH]; intros s acc; cbn [search_ids]; [discriminate|].
  destruct (alookup i (st_facts s)) as [fact|]; [|apply IH].
  destruct (expire s i fact now) as [s1 [|]]; [apply IH|].
  destruct (core_match_dw_ok x fact) as [res ->]. destruct res; apply IH.
Qed.

Lemma search_state_dw_not_panic x s now w : snd (search_state s (dw_pattern x) now) <> Panic w.
Proof.
  unfold search_state. destruct (st_kind s).
  - destruct (ti_search (st_tindex s) (extract_terms (dw_pattern x))) as [ids|e|w'|] eqn:E;
      cbn [snd]; try discriminate.
    + apply search_ids_dw_not_panic.
    + exfalso. eapply ti_search_not_panic; exact E.
  - apply search_ids_dw_not_panic.
Qed.

Section NoPanic.
  Variable rr : state -> string -> Z -> state * outcome bool.
  Hypothesis rr_np : forall s j now w, snd (rr s j now) <> Panic w.

  Lemma rem_list_not_panic skip now w : forall ids s, snd (rem_list rr s ids skip now) <> Panic w.
  Proof.
    induction ids as [|j r IH]; intros s; cbn [rem_list]; [discriminate|].
    destruct (skipped skip j); [apply IH|].
    pose proof (rr_np s j now) as H.
    destruct (rr s j now) as [s1 [b|e|w'|]]; cbn [snd] in *; try discriminate; [apply IH|].
    intros E. apply (H w'). reflexivity.
  Qed.

  Lemma delete_dependencies_not_panic s id now w : snd (delete_dependencies rr s id now) <> Panic w.
  Proof.
    unfold delete_dependencies.
    pose proof (search_state_dw_not_panic id s now) as H.
    destruct (search_state s (dw_pattern id) now) as [s1 [found|e|w'|]]; cbn [snd] in *; try discriminate.
    - apply rem_list_not_panic.
    - intros E. apply (H w'). reflexivity.
  Qed.

  Lemma rem_body_not_panic s id now w : snd (rem_body rr s id now) <> Panic w.
  Proof.
    unfold rem_body.
    assert (Hw : forall (b : bool) s0,
               snd (match delete_dependencies rr s0 id now with
                    | (s6, Ok _) => (s6, Ok b)
                    | (s6, Err e) => (s6, Err e)
                    | (s6, Panic w0) => (s6, Panic w0)
                    | (s6, OutOfFuel) => (s6, OutOfFuel)
                    end) <> Panic w).
    { intros b s0. pose proof (delete_dependencies_not_panic s0 id now) as H.
      destruct (delete_dependencies rr s0 id now) as [s6 [u|e|w'|]]; cbn [snd] in *; try discriminate.
      intros E. apply (H w'). reflexivity. }
    destruct (st_kind s).
    - destruct (alookup id (st_facts s)) as [fact|]; [|apply Hw].
      cbv zeta. match goal with |- context [store_call ?x] => destruct (store_call x) as [s4 [|]] end;
        [discriminate|apply Hw].
    - destruct (store_call s) as [s1 [|]]; [discriminate|]. cbv zeta. apply Hw.
  Qed.
End NoPanic.

Lemma rem_fuel_not_panic fuel : forall s id now w, snd (rem_fuel fuel s id now) <> Panic w.
Proof.
  induction fuel as [|f IH]; intros s id now w; cbn [rem_fuel]; [discriminate|].
  apply rem_body_not_panic. exact IH.
Qed.

Lemma st_rem_not_panic s id now w : snd (st_rem s id now) <> Panic w.
Proof. apply rem_fuel_not_panic. Qed.

Lemma purge_ids_not_panic ids : forall s now w, snd (purge_ids s ids now) <> Panic w.
Proof.
  induction ids as [|id r IH]; intros s now w; cbn [purge_ids]; [discriminate|].
  destruct (alookup id (st_facts s)) as [fact|]; [|apply IH].
  destruct (fact_expired fact now); [|apply IH].
  pose proof (st_rem_not_panic s id now) as H.
  destruct (st_rem s id now) as [s1 [b|e|w'|]]; cbn [snd] in *; try discriminate; try apply IH.
  intros E. apply (H w'). reflexivity.
Qed.

Lemma purge_fuel_not_panic fuel : forall s now w, snd (purge_fuel fuel s now) <> Panic w.
Proof.
  induction fuel as [|f IH]; intros s now w; cbn [purge_fuel].
  - destruct (st_pending s); discriminate.
  - destruct (st_pending s) as [|i ids]; [discriminate|].
    pose proof (purge_ids_not_panic (i :: ids) (set_pending s []) now) as H.
    destruct (purge_ids (set_pending s []) (i :: ids) now) as [s1 [u|e|w'|]]; cbn [snd] in *;
      try discriminate; [apply IH|].
    intros E. apply (H w'). reflexivity.
Qed.

Lemma purge_not_panic s now w : snd (purge s now) <> Panic w.
Proof. apply purge_fuel_not_panic. Qed.

(** so the purge always answers Ok, and a public entry point answers what its
    operation proper answered *)
Lemma purge_ok s now : snd (purge s now) = Ok tt.
Proof.
  pose proof (purge_not_oof s now) as H1. pose proof (purge_not_panic s now) as H2.
  pose proof (purge_not_err s now) as H3.
  destruct (snd (purge s now)) as [[]|e|w|]; [reflexivity| | |].
  - exfalso. apply (H3 e). reflexivity.
  - exfalso. apply (H2 w). reflexivity.
  - exfalso. apply H1. reflexivity.
Qed.

Lemma purge_clears s now : st_pending (fst (purge s now)) = [].
Proof. apply (purge_pending s now tt). apply purge_ok. Qed.

Lemma with_purge_eq {A} (r : state * outcome A) now :
  with_purge r now = (fst (purge (fst r) now), snd r).
Proof.
  unfold with_purge. rewrite purge_ok. destruct (snd r); reflexivity.
Qed.

Lemma snd_with_purge {A} (r : state * outcome A) now : snd (with_purge r now) = snd r.
Proof. rewrite with_purge_eq. reflexivity. Qed.

Lemma with_purge_pending {A} (r : state * outcome A) now : st_pending (fst (with_purge r now)) = [].
Proof. rewrite with_purge_eq. cbn [fst]. apply purge_clears. Qed.
