(** C08 support, part 2: termination of the cascade and fuel irrelevance. *)
From Coq Require Import Lia.
From Verif Require Import Json Outcome Match PatIndex State MatchLemmas1 CascadeSpec CascadeLemmas1.

Lemma ti_search_not_oof idx terms : ti_search idx terms <> OutOfFuel.
Proof.
  unfold ti_search. destruct terms; [discriminate|].
  destruct (ti_pick_smallest idx terms 1 (length (ti_ids idx s)) 0); discriminate.
Qed.

Lemma core_match_dw_not_oof x fact : core_match (dw_pattern x) fact [] <> OutOfFuel.
Proof. destruct (core_match_dw_ok x fact) as [r ->]. discriminate. Qed.

Section Gen.
  Variables rem1 rem2 : state -> string -> Z -> state * outcome bool.
  Variable now : Z.
  Variable F0 : list (string * json).

  Definition okcall (s : state) (j : string) : Prop :=
    rem1 s j now = rem2 s j now /\
    snd (rem1 s j now) <> OutOfFuel /\
    fsub (st_facts (fst (rem1 s j now))) (st_facts s).

  Hypothesis Hrec : forall s j, fsub (st_facts s) F0 ->
    (alookup j (st_facts s) <> None \/ (length (st_facts s) < length F0)%nat) -> okcall s j.

  Lemma expire_gen s id fact :
    fsub (st_facts s) F0 -> alookup id (st_facts s) = Some fact ->
    expire rem1 s id fact now = expire rem2 s id fact now /\
    fsub (st_facts (fst (fst (expire rem1 s id fact now)))) (st_facts s).
  Proof.
    intros Hs Hp. unfold expire. destruct (fact_expired fact now).
    - destruct (Hrec s id Hs) as (He & _ & Hf); [left; congruence|].
      rewrite <- He. split; [reflexivity|].
      destruct (rem1 s id now) as [s' o]. cbn [fst] in *.
      destruct (S (count_facts s') <? count_facts s)%nat; exact Hf.
    - split; [reflexivity|]. apply fsub_refl.
  Qed.

  Definition search_post (s : state) (acc : list (string * list bindings))
             (r1 r2 : state * outcome (list (string * list bindings))) : Prop :=
    r1 = r2 /\ snd r1 <> OutOfFuel /\ fsub (st_facts (fst r1)) (st_facts s) /\
    forall found, snd r1 = Ok found ->
      forall j, In j (map fst found) -> In j (map fst acc) \/ alookup j F0 <> None.

  Lemma search_ids_gen pattern :
    (forall fact, core_match pattern fact [] <> OutOfFuel) ->
    forall ids s acc, fsub (st_facts s) F0 ->
      search_post s acc (search_ids rem1 s ids pattern now acc) (search_ids rem2 s ids pattern now acc).
  Proof.
    intros Hm. induction ids as [|id ids IH]; intros s acc Hs; cbn [search_ids].
    - repeat split; cbn [fst snd]; [discriminate|apply fsub_refl|].
      intros found Hf j Hj. inversion Hf; subst found. left.
      rewrite map_rev in Hj. apply in_rev in Hj. exact Hj.
    - destruct (alookup id (st_facts s)) as [fact|] eqn:Hp; [|apply IH; exact Hs].
      destruct (expire_gen s id fact Hs Hp) as [He Hf]. rewrite <- He.
      destruct (expire rem1 s id fact now) as [[s1 ex] err]. cbn [fst] in Hf.
      assert (Hs1 : fsub (st_facts s1) F0) by (eapply fsub_trans; eauto).
      destruct (expire_stops (st_kind s) err) as [e0|];
        [repeat split; cbn [fst snd]; auto; discriminate|].
      assert (Hwrap : forall acc', (forall j, In j (map fst acc') -> In j (map fst acc) \/ alookup j F0 <> None) ->
                search_post s acc (search_ids rem1 s1 ids pattern now acc') (search_ids rem2 s1 ids pattern now acc')).
      { intros acc' Hacc. destruct (IH s1 acc' Hs1) as (H1 & H2 & H3 & H4).
        repeat split; auto.
        - eapply fsub_trans; eauto.
        - intros found Hfo j Hj. destruct (H4 found Hfo j Hj) as [H|H]; auto. }
      destruct ex; [apply Hwrap; auto|].
      destruct (core_match pattern fact []) as [bss| | |] eqn:Em.
      + destruct bss as [|b bss]; [apply Hwrap; auto|].
        apply Hwrap. intros j Hj. cbn [map fst In] in Hj. destruct Hj as [Hj|Hj]; auto.
        subst j. right. rewrite (fsub_lookup _ _ _ _ Hs Hp). discriminate.
      + repeat split; cbn [fst snd]; auto; discriminate.
      + repeat split; cbn [fst snd]; auto; discriminate.
      + exfalso. eapply Hm; eauto.
  Qed.

  Lemma search_state_gen pattern s :
    (forall fact, core_match pattern fact [] <> OutOfFuel) ->
    fsub (st_facts s) F0 ->
    search_post s [] (search_state rem1 s pattern now) (search_state rem2 s pattern now).
  Proof.
    intros Hm Hs. unfold search_state. destruct (st_kind s).
    - destruct (ti_search (st_tindex s) (extract_terms pattern)) as [ids| | |] eqn:E.
      + apply search_ids_gen; auto.
      + repeat split; cbn [fst snd]; try discriminate. apply fsub_refl.
      + repeat split; cbn [fst snd]; try discriminate. apply fsub_refl.
      + exfalso. eapply ti_search_not_oof; eauto.
    - apply search_ids_gen; auto.
  Qed.

  Lemma rem_list_gen skip :
    forall ids s, fsub (st_facts s) F0 ->
      (forall j, In j ids -> alookup j F0 <> None) ->
      rem_list rem1 s ids skip now = rem_list rem2 s ids skip now /\
      snd (rem_list rem1 s ids skip now) <> OutOfFuel /\
      fsub (st_facts (fst (rem_list rem1 s ids skip now))) (st_facts s).
  Proof.
    induction ids as [|j ids IH]; intros s Hs Hids; cbn [rem_list].
    - repeat split; cbn [fst snd]; [discriminate|apply fsub_refl].
    - assert (Hids' : forall j0, In j0 ids -> alookup j0 F0 <> None) by (intros; apply Hids; right; auto).
      destruct (String.eqb j skip); [apply IH; auto|].
      assert (Hok : okcall s j).
      { apply Hrec; auto. destruct (alookup j (st_facts s)) eqn:E; [left; discriminate|right].
        eapply fsub_shrink; eauto. apply Hids. left; auto. }
      destruct Hok as (He & Hn & Hf). rewrite <- He.
      destruct (rem1 s j now) as [s1 o]. cbn [fst snd] in *.
      destruct o as [b| | |].
      + destruct (IH s1) as (H1 & H2 & H3); auto.
        * eapply fsub_trans; eauto.
        * repeat split; auto. eapply fsub_trans; eauto.
      + repeat split; cbn [fst snd]; auto; discriminate.
      + repeat split; cbn [fst snd]; auto; discriminate.
      + contradiction.
  Qed.

  Lemma delete_dependencies_gen s id :
    st_facts s = F0 ->
    delete_dependencies rem1 s id now = delete_dependencies rem2 s id now /\
    snd (delete_dependencies rem1 s id now) <> OutOfFuel /\
    fsub (st_facts (fst (delete_dependencies rem1 s id now))) (st_facts s).
  Proof.
    intros HF. unfold delete_dependencies.
    assert (Hs : fsub (st_facts s) F0) by (rewrite HF; apply fsub_refl).
    destruct (search_state_gen (dw_pattern id) s (core_match_dw_not_oof id) Hs) as (H1 & H2 & H3 & H4).
    rewrite <- H1. destruct (search_state rem1 s (dw_pattern id) now) as [s1 o]. cbn [fst snd] in *.
    destruct o as [found| | |].
    - match goal with |- context [rem_list rem1 s1 ?ids ?skip now] =>
        destruct (rem_list_gen skip ids s1) as (G1 & G2 & G3) end.
      + eapply fsub_trans; eauto.
      + intros j Hj. destruct (H4 found eq_refl j Hj) as [H|H]; [contradiction|exact H].
      + repeat split; auto. eapply fsub_trans; eauto.
    - repeat split; cbn [fst snd]; auto; discriminate.
    - repeat split; cbn [fst snd]; auto; discriminate.
    - exfalso. apply H2. reflexivity.
  Qed.
End Gen.

Definition body_post (rem1 rem2 : state -> string -> Z -> state * outcome bool) now s id : Prop :=
  rem_body rem1 s id now = rem_body rem2 s id now /\
  snd (rem_body rem1 s id now) <> OutOfFuel /\
  fsub (st_facts (fst (rem_body rem1 s id now))) (st_facts s).

Lemma dd_wrap {B} rem1 rem2 now s0 s id (b : B) :
  fsub (st_facts s) (st_facts s0) ->
  delete_dependencies rem1 s id now = delete_dependencies rem2 s id now /\
  snd (delete_dependencies rem1 s id now) <> OutOfFuel /\
  fsub (st_facts (fst (delete_dependencies rem1 s id now))) (st_facts s) ->
  let wrap r := match r with
                | (s6, Ok _) => (s6, Ok b)
                | (s6, Err e) => (s6, Err e)
                | (s6, Panic w) => (s6, Panic w)
                | (s6, OutOfFuel) => (s6, OutOfFuel)
                end in
  wrap (delete_dependencies rem1 s id now) = wrap (delete_dependencies rem2 s id now) /\
  snd (wrap (delete_dependencies rem1 s id now)) <> OutOfFuel /\
  fsub (st_facts (fst (wrap (delete_dependencies rem1 s id now)))) (st_facts s0).
Proof.
  intros Hs (H1 & H2 & H3) wrap. rewrite <- H1.
  destruct (delete_dependencies rem1 s id now) as [s6 o]. cbn [fst snd] in *.
  assert (fsub (st_facts s6) (st_facts s0)) by (eapply fsub_trans; eauto).
  destruct o; cbn [wrap fst snd]; repeat split; auto; discriminate.
Qed.

(** A removal that deletes the id from memory first (present id, or linear state). *)
Lemma rem_body_gen_rm rem1 rem2 now s id :
  (forall s' j, fsub (st_facts s') (aremove id (st_facts s)) ->
     (alookup j (st_facts s') <> None \/ (length (st_facts s') < length (aremove id (st_facts s)))%nat) ->
     okcall rem1 rem2 now s' j) ->
  (st_kind s = Linear \/ alookup id (st_facts s) <> None) ->
  body_post rem1 rem2 now s id.
Proof.
  intros Hrec Hc. unfold body_post, rem_body.
  destruct (st_kind s) eqn:Hk.
  - destruct Hc as [Hc|Hc]; [discriminate|].
    destruct (alookup id (st_facts s)) as [fact|] eqn:Hp; [|congruence].
    set (s1 := match extract_rule fact false with Ok (Some rule) => unindex_rule s id rule | _ => s end).
    assert (Hf1 : st_facts s1 = st_facts s).
    { unfold s1. destruct (extract_rule fact false) as [[r|]| | |]; auto. apply facts_unindex_rule. }
    cbv zeta.
    match goal with |- context [store_call ?x] => set (s3 := x) end.
    assert (Hf3 : st_facts s3 = aremove id (st_facts s)).
    { unfold s3. cbn [st_facts set_tindex set_facts]. rewrite Hf1. reflexivity. }
    unfold store_call.
    match goal with |- context [if ?c then _ else _] => destruct c end.
    + repeat split; cbn [fst snd st_facts]; try discriminate.
      rewrite Hf3. apply fsub_aremove.
    + match goal with |- context [delete_dependencies rem1 ?x id now] => set (s5 := x) end.
      assert (Hf5 : st_facts s5 = aremove id (st_facts s)) by (unfold s5; cbn [st_facts set_store]; exact Hf3).
      apply (dd_wrap rem1 rem2 now s s5 id true).
      * rewrite Hf5. apply fsub_aremove.
      * apply delete_dependencies_gen with (F0 := aremove id (st_facts s)); auto.
  - unfold store_call.
    match goal with |- context [if ?c then _ else _] => destruct c end.
    + repeat split; cbn [fst snd st_facts]; try discriminate. apply fsub_refl.
    + cbv zeta.
      match goal with |- context [delete_dependencies rem1 ?x id now] => set (s3 := x) end.
      assert (Hf3 : st_facts s3 = aremove id (st_facts s)) by reflexivity.
      match goal with |- context [Ok ?h] => generalize h; intros had end.
      apply (dd_wrap rem1 rem2 now s s3 id had).
      * rewrite Hf3. apply fsub_aremove.
      * apply delete_dependencies_gen with (F0 := aremove id (st_facts s)); auto.
Qed.

(** A removal of an absent id by the indexed state: only the dependents. *)
Lemma rem_body_gen_keep rem1 rem2 now s id :
  (forall s' j, fsub (st_facts s') (st_facts s) ->
     (alookup j (st_facts s') <> None \/ (length (st_facts s') < length (st_facts s))%nat) ->
     okcall rem1 rem2 now s' j) ->
  st_kind s = Indexed -> alookup id (st_facts s) = None ->
  body_post rem1 rem2 now s id.
Proof.
  intros Hrec Hk Hp. unfold body_post, rem_body. rewrite Hk, Hp.
  apply (dd_wrap rem1 rem2 now s s id false).
  - apply fsub_refl.
  - apply delete_dependencies_gen with (F0 := st_facts s); auto.
Qed.

(** * The induction *)

Definition Good (now : Z) (fuel : nat) (s : state) (id : string) : Prop :=
  snd (rem_fuel fuel s id now) <> OutOfFuel /\
  fsub (st_facts (fst (rem_fuel fuel s id now))) (st_facts s) /\
  forall fuel', (fuel <= fuel')%nat -> rem_fuel fuel s id now = rem_fuel fuel' s id now.

Definition T_all now n := forall s id fuel,
  (length (st_facts s) <= n)%nat -> (2 * n + 2 <= fuel)%nat -> Good now fuel s id.
Definition T_present now n := forall s id fuel,
  (length (st_facts s) <= n)%nat -> alookup id (st_facts s) <> None ->
  (2 * n + 1 <= fuel)%nat -> Good now fuel s id.

Lemma Good_of_body now f s id :
  (forall f', (f <= f')%nat -> body_post (rem_fuel f) (rem_fuel f') now s id) ->
  Good now (S f) s id.
Proof.
  intros H. unfold Good. cbn [rem_fuel].
  destruct (H f (le_n _)) as (_ & H2 & H3). repeat split; auto.
  intros fuel' Hle. destruct fuel' as [|f']; [lia|]. cbn [rem_fuel].
  apply (H f'). lia.
Qed.

Lemma okcall_of_Good now f f' s j : (f <= f')%nat -> Good now f s j -> okcall (rem_fuel f) (rem_fuel f') now s j.
Proof. intros Hle (H1 & H2 & H3). repeat split; auto. Qed.

Lemma T_present_step now n : (forall m, (m < n)%nat -> T_all now m) -> T_present now n.
Proof.
  intros IH s id fuel Hlen Hp Hfuel.
  destruct fuel as [|f]; [lia|]. apply Good_of_body. intros f' Hle.
  apply rem_body_gen_rm; [|right; exact Hp].
  intros s' j Hs' _. apply okcall_of_Good; auto.
  pose proof (aremove_length_lt id (st_facts s) Hp) as Hlt.
  pose proof (fsub_length _ _ Hs') as Hl.
  destruct n as [|n]; [lia|].
  apply (IH n); lia.
Qed.

Lemma T_all_step now n : (forall m, (m < n)%nat -> T_all now m) -> T_all now n.
Proof.
  intros IH s id fuel Hlen Hfuel.
  pose proof (T_present_step now n IH) as HP.
  destruct fuel as [|f]; [lia|]. apply Good_of_body. intros f' Hle.
  assert (Hcall : forall F0 s' j, (length F0 <= n)%nat -> fsub (st_facts s') F0 ->
            (alookup j (st_facts s') <> None \/ (length (st_facts s') < length F0)%nat) ->
            okcall (rem_fuel f) (rem_fuel f') now s' j).
  { intros F0 s' j HF0 Hs' Hc. apply okcall_of_Good; auto.
    pose proof (fsub_length _ _ Hs') as Hl.
    destruct Hc as [Hc|Hc].
    - apply (HP s' j f); auto; lia.
    - destruct n as [|n]; [lia|]. apply (IH n); lia. }
  destruct (st_kind s) eqn:Hk.
  - destruct (alookup id (st_facts s)) as [fct|] eqn:Hp.
    + apply rem_body_gen_rm; [|right; congruence].
      intros s' j. apply Hcall.
      pose proof (fsub_length _ _ (fsub_aremove id (st_facts s))). lia.
    + apply rem_body_gen_keep; auto. intros s' j. apply Hcall. exact Hlen.
  - apply rem_body_gen_rm; [|left; exact Hk].
    intros s' j. apply Hcall.
    pose proof (fsub_length _ _ (fsub_aremove id (st_facts s))). lia.
Qed.

Lemma T_all_holds now n : T_all now n.
Proof.
  induction n as [n IH] using (well_founded_induction Wf_nat.lt_wf).
  apply T_all_step. exact IH.
Qed.

Lemma st_rem_Good now s id : Good now (2 * length (st_facts s) + 2) s id.
Proof. apply (T_all_holds now (length (st_facts s))); lia. Qed.

Lemma rem_fuel_stable now s id fuel :
  (2 * length (st_facts s) + 2 <= fuel)%nat ->
  rem_fuel fuel s id now = rem_fuel (2 * length (st_facts s) + 2) s id now.
Proof.
  intros H. destruct (st_rem_Good now s id) as (_ & _ & H3). symmetry. apply H3. exact H.
Qed.

Lemma st_rem_not_oof s id now : snd (st_rem s id now) <> OutOfFuel.
Proof.
  unfold st_rem, cascade_fuel. rewrite rem_fuel_stable by lia.
  apply (st_rem_Good now s id).
Qed.

Lemma st_rem_fsub s id now : fsub (st_facts (fst (st_rem s id now))) (st_facts s).
Proof.
  unfold st_rem, cascade_fuel. rewrite rem_fuel_stable by lia.
  apply (st_rem_Good now s id).
Qed.

Lemma rem_fuel_irrelevant s id now fuel :
  (cascade_fuel s <= fuel)%nat -> rem_fuel fuel s id now = st_rem s id now.
Proof.
  intros H. unfold st_rem. unfold cascade_fuel in *.
  rewrite (rem_fuel_stable now s id fuel) by lia.
  rewrite (rem_fuel_stable now s id (2 * length (st_facts s) + 4)) by lia.
  reflexivity.
Qed.
