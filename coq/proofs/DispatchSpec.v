(** C01: event dispatch is exact behind the rule index.
    Definitions and statements; proofs are in DispatchProofs.v.

    The chain:  st_pindex  --pi_search-->  candidate ids  --find_ids_idx-->
    candidate bodies  --check_rules-->  --find_children (rule_enabled,
    when_pattern, core_match)-->  children. *)
From Verif Require Import Json Outcome Match PatIndex State Location
     StateSpec PatIndexSpec MatchSpec GateProofs.

(** * 1. The index invariant *)

(** [id] is stored with a non-scheduled rule whose index pattern follows path π. *)
Definition indexed_rule (s : state) (id : string) (π : list step) : Prop :=
  exists fact rule p,
    alookup id (st_facts s) = Some fact /\ extract_rule fact false = Ok (Some rule) /\
    is_scheduled rule = false /\ rule_patterns rule = Some p /\ pattern_path p = Some π.

(** The trie holds exactly the stored, non-scheduled rules, each under the
    path of its CURRENT pattern: nothing stale, nothing missing. *)
Definition Pidx_exact (s : state) : Prop :=
  forall π id, tr_has (st_pindex s) π id <-> indexed_rule s id π.

(** Every stored non-scheduled rule has an indexable pattern (so, with
    [Pidx_exact], every such rule IS in the trie). *)
Definition rules_indexable (s : state) : Prop :=
  forall id fact rule,
    alookup id (st_facts s) = Some fact -> extract_rule fact false = Ok (Some rule) ->
    is_scheduled rule = false ->
    exists p π, rule_patterns rule = Some p /\ pattern_path p = Some π.

Definition Pidx (s : state) : Prop :=
  st_kind s = Indexed /\ Pidx_exact s /\ rules_indexable s.

Definition pidx_exact_reachable_statement : Prop :=
  forall hooks fail ops, Pidx_exact (reachable Indexed hooks fail ops).

Definition rules_indexable_reachable_statement : Prop :=
  forall hooks fail ops, rules_indexable (reachable Indexed hooks fail ops).

(** Consequence: every stored non-scheduled rule is in the trie under the path
    of its pattern. *)
Definition stored_rule_indexed_statement : Prop :=
  forall hooks fail ops id fact rule,
    let s := reachable Indexed hooks fail ops in
    alookup id (st_facts s) = Some fact -> extract_rule fact false = Ok (Some rule) ->
    is_scheduled rule = false ->
    exists p π, rule_patterns rule = Some p /\ pattern_path p = Some π /\ tr_has (st_pindex s) π id.

(** * 2. Candidates never hit a stale id *)

Definition stale_never_blocks_statement : Prop :=
  forall s ev ids now,
    Pidx_exact s -> no_expired s now ->
    pi_search (st_pindex s) ev = Ok ids ->
    exists l, find_ids_idx s ids now [] = (s, Ok l) /\
      forall id body, In (id, body) l <->
        In id ids /\ exists fact, alookup id (st_facts s) = Some fact /\
                                  extract_rule fact true = Ok (Some body).

(** * 3. No matching rule is missed by the index *)

Definition candidates_complete_statement : Prop :=
  forall s ev ids id fact rule p b,
    Pidx_exact s -> rules_indexable s ->
    pi_search (st_pindex s) ev = Ok ids ->
    alookup id (st_facts s) = Some fact -> extract_rule fact true = Ok (Some rule) ->
    is_scheduled rule = false -> rule_patterns rule = Some p ->
    wf_json p = true -> wf_json ev = true -> no_propvar_keys p = true -> arrays_ok p = true ->
    lay (lay_fuel p) b p ev = true ->
    In id ids.

(** * 4. Dispatch *)

(** The rule's `when` is a map with a map-valued "pattern" member: then the
    pattern the rule is indexed under is the pattern dispatch re-matches. *)
Definition canonical_when (rule : json) : Prop :=
  exists w p, jget "when" rule = Some (JObj w) /\ alookup "pattern" w = Some (JObj p).

(** What dispatch must compute: the stored, non-scheduled, enabled rules whose
    `when` pattern matches the event, each with the matcher's bindings.  Only
    the CURRENT fact map is mentioned. *)
Definition dispatch_spec (l : loc) (s : state) (ev : json) (now : Z) (id : string) (bss : list bindings) : Prop :=
  exists fact rule p,
    alookup id (st_facts s) = Some fact /\ extract_rule fact true = Ok (Some rule) /\
    is_scheduled rule = false /\ when_pattern rule = Some p /\
    snd (rule_enabled l id now) = true /\ core_match p ev [] = Ok bss /\ bss <> [].

(** Hypotheses on the stored rules (all about the current fact map and the event). *)

(** every stored non-scheduled rule is canonical and (pattern, event) is in
    the matcher's fragment *)
Definition rules_in_fragment (s : state) (ev : json) : Prop :=
  forall id fact rule,
    alookup id (st_facts s) = Some fact -> extract_rule fact true = Ok (Some rule) ->
    is_scheduled rule = false ->
    exists w p, jget "when" rule = Some (JObj w) /\ alookup "pattern" w = Some (JObj p) /\
                fragment (JObj p) ev [] = true.

(** ... and is in the index's complete fragment *)
Definition rules_index_ok (s : state) : Prop :=
  forall id fact rule w p,
    alookup id (st_facts s) = Some fact -> extract_rule fact true = Ok (Some rule) ->
    is_scheduled rule = false ->
    jget "when" rule = Some (JObj w) -> alookup "pattern" w = Some (JObj p) ->
    no_propvar_keys (JObj p) = true /\ arrays_ok (JObj p) = true.

(** the bodies handed to RuleFromMap are accepted (indexed state: the bodies
    are [extract_rule fact true]) *)
Definition bodies_checked (s : state) : Prop :=
  forall id fact rule,
    alookup id (st_facts s) = Some fact -> extract_rule fact true = Ok (Some rule) ->
    is_scheduled rule = false ->
    exists r, rule_from_map rule = Ok r.

Definition dispatch_exact_indexed_statement : Prop :=
  forall hooks fail ops l ev now ids,
    let s := reachable Indexed hooks fail ops in
    l_state l = s -> nothing_expired l now ->
    pi_search (st_pindex s) ev = Ok ids ->
    rules_in_fragment s ev -> rules_index_ok s -> bodies_checked s ->
    exists cands ch,
      st_find_rules s ev now = (s, Ok cands) /\
      find_children l cands ev now [] = (l, Ok ch) /\
      forall id bss, In (id, bss) ch <-> dispatch_spec l s ev now id bss.

(** * 5. The linear state *)

(** The linear state hands the raw "rule" member to RuleFromMap. *)
Definition raw_bodies_checked (s : state) : Prop :=
  forall id fact rm,
    alookup id (st_facts s) = Some fact -> jget "rule" fact = Some (JObj rm) ->
    is_scheduled (JObj rm) = false ->
    exists r, rule_from_map (JObj rm) = Ok r.

(** The linear state does not look at "schedule": a stored rule with a
    schedule ([is_scheduled]: a "schedule" member that is neither null nor the
    empty string) must not also have a `when` map.  (Such a rule - AddFact
    accepts it, AddRule does not - is a candidate of the linear state that
    RuleFromMap then refuses, so neither kind dispatches it; nothing is assumed
    about its pattern here, hence the exclusion.  A null or empty schedule is no
    schedule: [empty_schedule_dispatched_by_both_example].) *)
Definition scheduled_have_no_when (s : state) : Prop :=
  forall id fact rm,
    alookup id (st_facts s) = Some fact -> jget "rule" fact = Some (JObj rm) ->
    is_scheduled (JObj rm) = true ->
    forall w, alookup "when" rm <> Some (JObj w).

Definition dispatch_exact_linear_statement : Prop :=
  forall s l ev now,
    st_kind s = Linear -> l_state l = s -> nothing_expired l now ->
    rules_in_fragment s ev -> raw_bodies_checked s -> scheduled_have_no_when s ->
    exists cands ch,
      st_find_rules s ev now = (s, Ok cands) /\
      find_children l cands ev now [] = (l, Ok ch) /\
      forall id bss, In (id, bss) ch <-> dispatch_spec l s ev now id bss.

Definition with_state (l : loc) (s : state) : loc := mkLoc s (l_readonly l) (l_max l).

Definition idx_lin_dispatch_agree_statement : Prop :=
  forall hooks fail ops l ev now ids,
    let s := reachable Indexed hooks fail ops in
    l_state l = s -> nothing_expired l now ->
    pi_search (st_pindex s) ev = Ok ids ->
    rules_in_fragment s ev -> rules_index_ok s -> bodies_checked s ->
    raw_bodies_checked s -> scheduled_have_no_when s ->
    exists c1 ch1 c2 ch2,
      st_find_rules s ev now = (s, Ok c1) /\
      find_children l c1 ev now [] = (l, Ok ch1) /\
      st_find_rules (as_linear s) ev now = (as_linear s, Ok c2) /\
      find_children (with_state l (as_linear s)) c2 ev now [] = (with_state l (as_linear s), Ok ch2) /\
      forall x, In x ch1 <-> In x ch2.

(** * 6. A rule without a schedule is in the index from the moment it is added

    (the repair of D59/D66).  "No schedule" is what RuleFromMap calls so: the
    member is missing, null or the empty string. *)
Definition no_schedule (rule : json) : Prop :=
  jget "schedule" rule = None \/ jget "schedule" rule = Some JNull \/
  jget "schedule" rule = Some (JStr "").

(** After ANY history, a successful add of a rule without a schedule (whatever
    was stored under the id before):
    (a) the rule index holds the id under the path of the rule's pattern;
    (b) the index search returns the id for every event the pattern lays over;
    (c) the indexed state and the linear state over the same facts dispatch the
        same rules, and this rule exactly when its `when` pattern matches. *)
Definition unscheduled_rule_indexed_on_add_statement : Prop :=
  forall hooks fail ops given x now fresh aux s' id,
    let s := reachable Indexed hooks fail ops in
    st_add s given x now fresh aux = (s', Ok id) ->
    exists fact,
      prepare_fact given x now fresh aux = Ok (id, fact) /\
      alookup id (st_facts s') = Some fact /\
      forall rule, extract_rule fact true = Ok (Some rule) -> no_schedule rule ->
        (exists p π, rule_patterns rule = Some p /\ pattern_path p = Some π /\
                     tr_has (st_pindex s') π id) /\
        (forall p ev ids b,
           rule_patterns rule = Some p -> pi_search (st_pindex s') ev = Ok ids ->
           wf_json p = true -> wf_json ev = true -> no_propvar_keys p = true -> arrays_ok p = true ->
           lay (lay_fuel p) b p ev = true -> In id ids) /\
        (forall l' ev now' ids,
           l_state l' = s' -> nothing_expired l' now' ->
           pi_search (st_pindex s') ev = Ok ids ->
           rules_in_fragment s' ev -> rules_index_ok s' -> bodies_checked s' ->
           raw_bodies_checked s' -> scheduled_have_no_when s' ->
           exists c1 ch1 c2 ch2,
             st_find_rules s' ev now' = (s', Ok c1) /\
             find_children l' c1 ev now' [] = (l', Ok ch1) /\
             st_find_rules (as_linear s') ev now' = (as_linear s', Ok c2) /\
             find_children (with_state l' (as_linear s')) c2 ev now' [] = (with_state l' (as_linear s'), Ok ch2) /\
             (forall y, In y ch1 <-> In y ch2) /\
             forall bss, In (id, bss) ch1 <->
               exists p, when_pattern rule = Some p /\ snd (rule_enabled l' id now') = true /\
                         core_match p ev [] = Ok bss /\ bss <> []).
