(** History-level theorems for C20, C19, C02, C08 (statements in HistSpec.v),
    their counterexample lemmas (where the natural statement is false of the
    faithful model) and one satisfiability Example per theorem. *)
From Coq Require Import Lia Permutation.
From Verif Require Import Json Outcome Match PatIndex State Location SysOps CorrLoc.
From Verif Require Import MatchSpec StateSpec AssocLemmas CascadeSpec DurableSpec DurableReload GateProofs CapacityProofs LocSpec.
From Verif Require Import HistSpec HistLoc HistGate HistClosure HistCascade HistState HistReload.

(** * Reflection helpers for the Examples *)

Definition nothing_expired_b (l : loc) (now : Z) : bool :=
  forallb (fun kv => negb (fact_expired (snd kv) now)) (st_facts (l_state l)) &&
  match st_pending (l_state l) with [] => true | _ => false end.

Lemma nothing_expired_b_ok l now : nothing_expired_b l now = true -> nothing_expired l now.
Proof.
  unfold nothing_expired_b. intros H. apply andb_true_iff in H. destruct H as [H1 H2]. split.
  - intros id fact Hl. apply alookup_In in Hl. rewrite forallb_forall in H1. specialize (H1 _ Hl).
    apply Bool.negb_true_iff in H1. exact H1.
  - destruct (st_pending (l_state l)); [reflexivity|discriminate].
Qed.

Lemma forall_In_b {A} (p : A -> bool) (Q : A -> Prop) (l : list A) :
  (forall x, p x = true -> Q x) -> forallb p l = true -> forall x, In x l -> Q x.
Proof. intros H Hb x Hin. apply H. rewrite forallb_forall in Hb. apply Hb. exact Hin. Qed.

Definition no_expired_b (s : state) (now : Z) : bool :=
  forallb (fun kv => negb (fact_expired (snd kv) now)) (st_facts s).
Lemma no_expired_b_ok s now : no_expired_b s now = true -> StateSpec.no_expired s now.
Proof.
  intros H id fact Hl. apply alookup_In in Hl. unfold no_expired_b in H. rewrite forallb_forall in H.
  specialize (H _ Hl). apply Bool.negb_true_iff in H. exact H.
Qed.

(** concrete data *)
Definition c_none : ctx := mkCtx "" "".
Definition c_bad : ctx := mkCtx "bad" "bad".
Definition c_key : ctx := mkCtx "rk" "wk".
Definition env_at (now : Z) : env := mkEnv now "fresh1" None.
Definition fact_n (n : Z) : json := JObj [("x", JNum n)].
Definition rule0 : json :=
  JObj [("action", JObj [("code", JStr "1")]); ("when", JObj [("pattern", JObj [("e", JStr "?x")])])].
Definition loc0 (k : skind) (hooks : bool) (fail : option nat) (max : Z) : loc :=
  mkLoc (set_fail (empty_state k hooks) fail) false max.
Definition rq (c : ctx) (now : Z) (op : lop) : request := mkReq "L" c (env_at now) op.
Definition count_L (sy : system) : Z := match sys_get sy "L" with Some l => lcount l | None => -1 end.

(** * A. C20 *)

Theorem capacity_invariant_adds_only : capacity_invariant_adds_only_statement.
Proof. exact capacity_invariant_adds_only_main. Qed.
Print Assumptions capacity_invariant_adds_only.

Theorem capacity_invariant_with_reload : capacity_invariant_with_reload_statement.
Proof. exact capacity_invariant_with_reload_main. Qed.
Print Assumptions capacity_invariant_with_reload.

Theorem refused_for_capacity_no_effect_history : refused_for_capacity_no_effect_history_statement.
Proof. exact refused_for_capacity_no_effect_history_main. Qed.
Print Assumptions refused_for_capacity_no_effect_history.

(** a history around the boundary of a location that holds at most 2 items *)
Definition cap_sys (k : skind) : system := [("L", loc0 k false None 2); ("P", loc0 k false None 1)].
Definition cap_hist : list request :=
  [rq c_none 10 (LAddFact "a" (fact_n 1)); rq c_none 10 (LAddRule "r" rule0);
   rq c_none 11 (LAddFact "b" (fact_n 2));                       (* refused: capacity *)
   rq c_none 11 (LAddFact "a" (fact_n 3));                       (* refused too, although it would replace *)
   rq c_none 12 (LRemFact "a"); rq c_none 12 (LAddFact "b" (JObj [("ttl", JNum 5); ("x", JNum 2)]));
   rq c_none 13 (LSearch (JObj [("x", JStr "?v")]) true); rq c_none 14 (LEvent (JObj [("e", JStr "1")]));
   rq c_none 20 (LGetFact "b");                                  (* expired by now: purged *)
   rq c_none 21 LSize; rq c_none 21 (LEnableRule "r" true); rq c_none 22 LClear;
   rq c_none 23 (LAddFact "" (fact_n 4));
   mkReq "P" c_none (env_at 24) (LSetParents ["L"])].            (* elsewhere: arbitrary *)

Example capacity_invariant_adds_only_example :
  forall k,
    (exists l, sys_get (cap_sys k) "L" = Some l /\ lcount l <= l_max l) /\
    (forall q, In q cap_hist -> r_loc q = "L" -> cap_safe_op (r_op q) = true) /\
    map (fun qr => lres_err (snd qr)) (sys_trace (cap_sys k) cap_hist) =
      [None; None; Some E_capacity; Some E_capacity; None; None; None; None; Some E_notfound;
       None; None; None; None; None] /\
    count_L (sys_run (cap_sys k) cap_hist) = 1.
Proof.
  intros k. split; [eexists; split; [reflexivity|destruct k; vm_compute; discriminate]|]. split.
  - apply (forall_In_b (fun q => negb (String.eqb (r_loc q) "L") || cap_safe_op (r_op q))
                        (fun q => r_loc q = "L" -> cap_safe_op (r_op q) = true)).
    + intros q H Hn. rewrite Hn in H. exact H.
    + vm_compute. reflexivity.
  - destruct k; vm_compute; split; reflexivity.
Qed.

(** A2: a linear location with Reload, hooks installed, one add rejected by the hook *)
Definition cap_sys_lin : system := [("L", loc0 Linear true None 2)].
Definition cap_hist_reload : list request :=
  [rq c_none 10 (LAddFact "a" (fact_n 1)); rq c_none 10 (LAddFact "v" (JObj [("veto", JBool true)]));
   rq c_none 10 LReload; rq c_none 10 (LAddRule "r" rule0);
   rq c_none 11 LReload; rq c_none 11 (LAddFact "b" (fact_n 2)); rq c_none 12 (LRemRule "r"); rq c_none 12 LReload].

Example capacity_invariant_with_reload_example :
  (exists l, sys_get cap_sys_lin "L" = Some l /\ lcount l <= l_max l /\ mirror_loc l) /\
  (forall q, In q cap_hist_reload -> r_loc q = "L" -> cap_safe_op (r_op q) = true \/ r_op q = LReload) /\
  map (fun qr => lres_err (snd qr)) (sys_trace cap_sys_lin cap_hist_reload) =
    [None; Some "vetoed"; None; None; None; Some E_capacity; None; None] /\
  count_L (sys_run cap_sys_lin cap_hist_reload) = 1.
Proof.
  split; [eexists; split; [reflexivity|split; [vm_compute; discriminate|repeat split]]|]. split.
  - apply (forall_In_b (fun q => cap_safe_op (r_op q) || match r_op q with LReload => true | _ => false end)
                        (fun q => r_loc q = "L" -> cap_safe_op (r_op q) = true \/ r_op q = LReload)).
    + intros q H _. destruct (cap_safe_op (r_op q)); [left; reflexivity|]. right.
      destruct (r_op q); try discriminate. reflexivity.
    + vm_compute. reflexivity.
  - vm_compute. split; reflexivity.
Qed.

Theorem capacity_invariant_with_reload_indexed : capacity_invariant_with_reload_indexed_statement.
Proof. exact capacity_invariant_with_reload_indexed_main. Qed.
Print Assumptions capacity_invariant_with_reload_indexed.

(** A2': an indexed location with the cron hooks; the fact b expires before the second Reload *)
Definition cap_sys_idx : system := [("L", loc0 Indexed true None 2)].
Definition cap_hist_reload_idx : list request :=
  [rq c_none 10 (LAddFact "a" (fact_n 1)); rq c_none 10 LReload;
   rq c_none 10 (LAddFact "b" (JObj [("ttl", JNum 5); ("x", JNum 2)]));
   rq c_none 11 (LAddRule "r" rule0);                              (* refused: capacity *)
   rq c_none 11 LReload; rq c_none 20 LReload;                     (* the second one drops b *)
   rq c_none 20 LSize; rq c_none 21 (LAddRule "r" rule0); rq c_none 21 LReload].

Example capacity_invariant_with_reload_indexed_example :
  (exists l, sys_get cap_sys_idx "L" = Some l /\ lcount l <= l_max l /\ mirror_idx_loc l) /\
  (forall q, In q cap_hist_reload_idx -> r_loc q = "L" -> cap_safe_op (r_op q) = true \/ r_op q = LReload) /\
  map snd (sys_trace cap_sys_idx cap_hist_reload_idx) =
    [RId (Ok "a"); RUnit (Ok tt); RId (Ok "b"); RId (Err E_capacity); RUnit (Ok tt); RUnit (Ok tt);
     RSize (Ok 1); RId (Ok "r"); RUnit (Ok tt)] /\
  count_L (sys_run cap_sys_idx cap_hist_reload_idx) = 2.
Proof.
  split.
  - eexists. split; [reflexivity|]. split; [vm_compute; discriminate|].
    unfold mirror_idx_loc. cbn [l_state loc0]. split; [reflexivity|]. split; [reflexivity|]. split; [reflexivity|].
    split; [repeat split; reflexivity|]. split; [intros id fact t Hl; discriminate|].
    split; [intros id fact Hl; discriminate|intros id fact Hl; discriminate].
  - split.
    + apply (forall_In_b (fun q => cap_safe_op (r_op q) || match r_op q with LReload => true | _ => false end)
                         (fun q => r_loc q = "L" -> cap_safe_op (r_op q) = true \/ r_op q = LReload)).
      * intros q H _. destruct (cap_safe_op (r_op q)); [left; reflexivity|]. right.
        destruct (r_op q); try discriminate. reflexivity.
      * vm_compute. reflexivity.
    + vm_compute. split; reflexivity.
Qed.

(** A3: the third request of [cap_hist] *)
Example refused_for_capacity_no_effect_history_example :
  forall k,
    let sy' := sys_run (cap_sys k) (firstn 2 cap_hist) in
    let q := rq c_none 11 (LAddFact "b" (fact_n 2)) in
    sys_wf (cap_sys k) /\
    exists l, sys_get sy' (r_loc q) = Some l /\ nothing_expired l (e_now (r_env q)) /\ at_capacity l = true /\
              sys_step sy' (r_loc q) (r_ctx q) (r_env q) (r_op q) = (sy', RId (Err E_capacity)).
Proof.
  intros k sy' q. split; [reflexivity|].
  destruct k; (eexists; split; [vm_compute; reflexivity|]; split; [apply nothing_expired_b_ok; vm_compute; reflexivity|];
               split; vm_compute; reflexivity).
Qed.

(** ** What breaks the unrestricted statement *)

(** EnableRule(id, false) stores the property fact "!<id>.disabled" without
    consulting AtCapacity: a location of capacity 1 holds 2 items. *)
Lemma capacity_enable_rule_counterexample :
  forall k,
    let sy := [("L", loc0 k false None 1)] in
    let h := [rq c_none 10 (LAddRule "r" rule0); rq c_none 10 (LEnableRule "r" false)] in
    count_L sy = 0 /\
    map (fun qr => lres_ok (snd qr)) (sys_trace sy h) = [true; true] /\
    count_L (sys_run sy h) = 2 /\
    (exists l, sys_get (sys_run sy h) "L" = Some l /\ l_max l = 1).
Proof. intros k. destruct k; vm_compute; repeat split; eexists; split; reflexivity. Qed.

(** SetParents stores "!.parents" without consulting AtCapacity. *)
Lemma capacity_set_parents_counterexample :
  forall k,
    let sy := [("L", loc0 k false None 1)] in
    let h := [rq c_none 10 (LAddFact "a" (fact_n 1)); rq c_none 10 (LSetParents ["p"])] in
    map (fun qr => lres_ok (snd qr)) (sys_trace sy h) = [true; true] /\
    count_L (sys_run sy h) = 2.
Proof. intros k. destruct k; vm_compute; split; reflexivity. Qed.

(** Reload takes what the storage holds.  Since the repair of D33 a rejecting
    add hook of the linear state leaves nothing in the storage, so this
    history (which exceeded the maximum before the repair) stays within it:
    an instance of [capacity_invariant_with_reload], hooks installed. *)
Lemma capacity_reload_after_hook_reject_example :
  let sy := [("L", loc0 Linear true None 1)] in
  let h := [rq c_none 10 (LAddFact "v" (JObj [("veto", JBool true)])); rq c_none 10 (LAddFact "a" (fact_n 1));
            rq c_none 10 LReload] in
  (exists l, sys_get sy "L" = Some l /\ mirror_loc l) /\
  map (fun qr => lres_err (snd qr)) (sys_trace sy h) = [Some "vetoed"; None; None] /\
  count_L (sys_run sy h) = 1.
Proof. split; [eexists; split; [reflexivity|repeat split]|]. vm_compute. split; reflexivity. Qed.

(** Indexed state, one failing storage call (the removal's): the fact has left
    the memory, not the storage; the next add fills the memory again. *)
Lemma capacity_reload_after_storage_failure_counterexample :
  let sy := [("L", loc0 Indexed false (Some 1%nat) 1)] in
  let h := [rq c_none 10 (LAddFact "a" (fact_n 1)); rq c_none 10 (LRemFact "a");
            rq c_none 10 (LAddFact "b" (fact_n 2)); rq c_none 10 LReload] in
  map (fun qr => lres_err (snd qr)) (sys_trace sy h) = [None; Some "storage"; None; None] /\
  count_L (sys_run sy h) = 2.
Proof. vm_compute. split; reflexivity. Qed.

(** Not a violation but a gap the other way: at capacity, the replacement of
    an existing id is refused although it would not grow the state. *)
Lemma replace_at_capacity_refused_example :
  forall k,
    let sy := [("L", loc0 k false None 1)] in
    let h := [rq c_none 10 (LAddFact "a" (fact_n 1)); rq c_none 10 (LAddFact "a" (fact_n 2))] in
    map (fun qr => lres_err (snd qr)) (sys_trace sy h) = [None; Some E_capacity].
Proof. intros k. destruct k; vm_compute; reflexivity. Qed.

(** * B. C19 *)

Theorem wrong_key_is_refused : wrong_key_is_refused_statement.
Proof. exact wrong_key_is_refused_main. Qed.
Print Assumptions wrong_key_is_refused.

Theorem wrong_key_history_is_noop : wrong_key_history_is_noop_statement.
Proof. exact wrong_key_history_is_noop_main. Qed.
Print Assumptions wrong_key_history_is_noop.

Theorem wrong_read_key_reveals_nothing : wrong_read_key_reveals_nothing_statement.
Proof. exact wrong_read_key_reveals_nothing_main. Qed.
Print Assumptions wrong_read_key_reveals_nothing.

(** a location with a write key "wk", a read key "rk", a fact and a rule,
    set up through the API itself *)
Definition prot_sys (k : skind) : system :=
  sys_run [("L", loc0 k false None 10); ("P", loc0 k false None 10)]
    [rq c_none 10 (LAddFact "" (JObj [("!writeKey", JStr "wk")]));
     rq c_key 10 (LAddFact "" (JObj [("!readKey", JStr "rk")]));
     rq c_key 10 (LAddFact "a" (fact_n 1)); rq c_key 10 (LAddRule "r" rule0);
     mkReq "P" c_none (env_at 10) (LSetParents ["L"])].
Definition prot_loc (k : skind) : loc :=
  match sys_get (prot_sys k) "L" with Some l => l | None => loc0 k false None 0 end.

Definition wrong_key_hist : list request :=
  [rq c_bad 11 (LAddFact "b" (fact_n 2)); rq c_none 11 (LRemFact "a"); rq c_bad 12 LClear;
   mkReq "P" c_bad (env_at 12) (LSearch (fact_n 1) true);          (* elsewhere, walking through L *)
   rq c_bad 13 (LSetParents ["p"]); rq (mkCtx "rk" "rk") 13 (LEnableRule "r" false);
   rq c_bad 14 (LAddRule "q" rule0); rq c_bad 14 (LRemRule "r");
   mkReq "P" c_none (env_at 15) (LAddFact "z" (fact_n 0))].

Definition write_refused_b (l : loc) (c : ctx) (now : Z) : bool :=
  negb (snd (check_write l c now)) || negb (snd (enabled l now)).
Lemma write_refused_b_ok l c now : write_refused_b l c now = true -> write_refused l c now.
Proof.
  unfold write_refused_b, write_refused. intros H. apply orb_true_iff in H.
  destruct H as [H|H]; apply Bool.negb_true_iff in H; auto.
Qed.
Definition read_refused_b (l : loc) (c : ctx) (now : Z) : bool :=
  negb (snd (check_read l c now)) || negb (snd (enabled l now)).
Lemma read_refused_b_ok l c now : read_refused_b l c now = true -> read_refused l c now.
Proof.
  unfold read_refused_b, read_refused. intros H. apply orb_true_iff in H.
  destruct H as [H|H]; apply Bool.negb_true_iff in H; auto.
Qed.

Example wrong_key_is_refused_example :
  forall k, snd (get_prop_string (prot_loc k) "writeKey" 11) = "wk" /\ "wk" <> "" /\ c_wk c_bad <> "wk" /\
            snd (get_prop_string (prot_loc k) "readKey" 11) = "rk" /\ c_rk c_bad <> "rk".
Proof. intros k. destruct k; vm_compute; repeat split; discriminate. Qed.

Example wrong_key_history_is_noop_example :
  forall k,
    sys_get (prot_sys k) "L" = Some (prot_loc k) /\
    (forall q, In q wrong_key_hist -> nothing_expired (prot_loc k) (e_now (r_env q))) /\
    (forall q, In q wrong_key_hist -> r_loc q = "L" ->
       is_mutating (r_op q) = true /\ write_refused (prot_loc k) (r_ctx q) (e_now (r_env q))) /\
    map (fun qr => lres_err (snd qr)) (sys_trace (prot_sys k) wrong_key_hist) =
      [Some E_denied; Some E_denied; Some E_denied; Some E_denied; Some E_denied; Some E_denied;
       Some E_denied; Some E_denied; None] /\
    sys_get (sys_run (prot_sys k) wrong_key_hist) "L" = Some (prot_loc k).
Proof.
  intros k. split; [destruct k; vm_compute; reflexivity|]. split; [|split].
  - apply (forall_In_b (fun q => nothing_expired_b (prot_loc k) (e_now (r_env q)))
                       (fun q => nothing_expired (prot_loc k) (e_now (r_env q)))).
    + intros q. apply nothing_expired_b_ok.
    + destruct k; vm_compute; reflexivity.
  - apply (forall_In_b (fun q => negb (String.eqb (r_loc q) "L") ||
                                 (is_mutating (r_op q) && write_refused_b (prot_loc k) (r_ctx q) (e_now (r_env q))))
                       (fun q => r_loc q = "L" -> is_mutating (r_op q) = true /\
                                 write_refused (prot_loc k) (r_ctx q) (e_now (r_env q)))).
    + intros q H Hn. rewrite Hn in H. change (String.eqb "L" "L") with true in H. cbn [negb orb] in H.
      apply andb_true_iff in H. destruct H as [H1 H2]. split; [exact H1|apply write_refused_b_ok; exact H2].
    + destruct k; vm_compute; reflexivity.
  - destruct k; vm_compute; split; reflexivity.
Qed.

Definition wrong_read_hist : list request :=
  [rq c_bad 11 (LGetFact "a"); rq c_none 11 (LGetRule "r"); rq (mkCtx "wk" "wk") 12 LSize;
   rq c_bad 12 (LSearch (fact_n 1) false); rq c_bad 13 (LSearch (fact_n 1) true);
   rq c_bad 13 (LEvent (JObj [("e", JStr "1")]));
   mkReq "P" c_none (env_at 14) (LAddFact "z" (fact_n 0))].

Example wrong_read_key_reveals_nothing_example :
  forall k,
    sys_get (prot_sys k) "L" = Some (prot_loc k) /\
    (forall q, In q wrong_read_hist -> nothing_expired (prot_loc k) (e_now (r_env q))) /\
    (forall q, In q wrong_read_hist -> r_loc q = "L" ->
       is_reading (r_op q) = true /\ read_refused (prot_loc k) (r_ctx q) (e_now (r_env q))) /\
    map (fun qr => lres_err (snd qr)) (sys_trace (prot_sys k) wrong_read_hist) =
      [Some E_denied; Some E_denied; Some E_denied; Some E_denied; Some E_denied; Some E_denied; None] /\
    (* with the keys the same reads answer *)
    map (fun qr => lres_ok (snd qr))
        (sys_trace (prot_sys k) (map (fun q => mkReq (r_loc q) c_key (r_env q) (r_op q)) wrong_read_hist)) =
      [true; true; true; true; true; true; true].
Proof.
  intros k. split; [destruct k; vm_compute; reflexivity|]. split; [|split].
  - apply (forall_In_b (fun q => nothing_expired_b (prot_loc k) (e_now (r_env q)))
                       (fun q => nothing_expired (prot_loc k) (e_now (r_env q)))).
    + intros q. apply nothing_expired_b_ok.
    + destruct k; vm_compute; reflexivity.
  - apply (forall_In_b (fun q => negb (String.eqb (r_loc q) "L") ||
                                 (is_reading (r_op q) && read_refused_b (prot_loc k) (r_ctx q) (e_now (r_env q))))
                       (fun q => r_loc q = "L" -> is_reading (r_op q) = true /\
                                 read_refused (prot_loc k) (r_ctx q) (e_now (r_env q)))).
    + intros q H Hn. rewrite Hn in H. change (String.eqb "L" "L") with true in H. cbn [negb orb] in H.
      apply andb_true_iff in H. destruct H as [H1 H2]. split; [exact H1|apply read_refused_b_ok; exact H2].
    + destruct k; vm_compute; reflexivity.
  - destruct k; vm_compute; split; reflexivity.
Qed.

(** The proviso "nothing expires meanwhile" is needed: the gates look their
    flags up with State.Get, which purges an expired flag.  Here the location
    is disabled by a flag that has a ttl; after the ttl a request with the
    wrong write key is still refused ("denied"), but the Enabled gate, which
    runs first, has purged the expired flag: the refused request has changed
    the state (2 items before, 1 after) and the storage. *)
Lemma refused_request_purges_expired_flag_counterexample :
  forall k,
    let sy := sys_run [("L", loc0 k false None 10)]
                [rq c_none 10 (LAddFact "" (JObj [("!writeKey", JStr "wk")]));
                 rq c_key 10 (LAddFact "" (JObj [("!enabled", JStr "no"); ("ttl", JNum 5)]))] in
    let q := rq c_bad 20 (LAddRule "q" rule0) in
    count_L sy = 2 /\
    lres_err (sys_ans sy (rq c_key 12 (LAddRule "q" rule0))) = Some E_disabled /\
    lres_err (sys_ans sy q) = Some E_denied /\
    count_L (sys_do sy q) = 1 /\
    (exists l l', sys_get sy "L" = Some l /\ sys_get (sys_do sy q) "L" = Some l' /\
                  length (st_store (l_state l)) = 2%nat /\ length (st_store (l_state l')) = 1%nat).
Proof. intros k. destruct k; vm_compute; repeat split; do 2 eexists; repeat split. Qed.

(** GetParents is behind the read gate as well (repair of D56 in /repo: it used to be
    behind the Enabled gate only and revealed the "!.parents" property fact). *)
Lemma get_parents_read_gated_example :
  forall k,
    let sy := sys_do (prot_sys k) (rq c_key 11 (LSetParents ["secret-parent"])) in
    sys_ans sy (rq c_bad 12 LGetParents) = RParents (Err E_denied) /\
    sys_ans sy (rq c_key 12 LGetParents) = RParents (Ok ["secret-parent"]) /\
    lres_err (sys_ans sy (rq c_bad 12 (LGetFact "!.parents"))) = Some E_denied.
Proof. intros k. destruct k; vm_compute; repeat split; reflexivity. Qed.

(** * D. C08 *)

Theorem clo_iter_is_closure : clo_iter_is_closure_statement.
Proof. exact clo_iter_is_closure_main. Qed.
Print Assumptions clo_iter_is_closure.

Theorem cascade_closure_history : cascade_closure_history_statement.
Proof. exact cascade_closure_history_main. Qed.
Print Assumptions cascade_closure_history.

Theorem nothing_else_deleted_history : nothing_else_deleted_history_statement.
Proof. exact nothing_else_deleted_history_main. Qed.
Print Assumptions nothing_else_deleted_history.

Theorem cascade_succeeds_history : cascade_succeeds_history_statement.
Proof. exact cascade_succeeds_history_main. Qed.
Print Assumptions cascade_succeeds_history.

Definition dwf (l : list string) (n : Z) : json := JObj [("deleteWith", JArr (map JStr l)); ("x", JNum n)].

(** a chain a <- b <- c <- d (d also names itself), an independent e, a cycle f <-> g,
    an overwrite of a, a get and a search *)
Definition casc_ops : list (sop * Z) :=
  [(SAdd "a" (fact_n 1) "f1" None, 1); (SAdd "b" (dwf ["a"] 2) "f2" None, 2); (SAdd "c" (dwf ["b"] 3) "f3" None, 3);
   (SAdd "d" (dwf ["c"; "d"] 4) "f4" None, 4); (SAdd "e" (fact_n 5) "f5" None, 5);
   (SAdd "f" (dwf ["g"] 6) "f6" None, 6); (SAdd "g" (dwf ["f"] 7) "f7" None, 7);
   (SAdd "a" (fact_n 8) "f8" None, 8); (SGet "a", 9); (SSearch (JObj [("x", JStr "?v")]), 9)].

Example cascade_closure_history_example :
  forall k hooks,
    let s := reachable k hooks None casc_ops in
    StateSpec.no_expired s 10 /\
    map fst (st_facts s) = ["a"; "b"; "c"; "d"; "e"; "f"; "g"] /\
    exists s', st_Rem s "a" 10 = (s', Ok true) /\
               map fst (st_facts s') = ["e"; "f"; "g"] /\ map fst (st_store s') = ["e"; "f"; "g"].
Proof.
  intros k hooks s.
  split; [apply no_expired_b_ok; destruct k, hooks; vm_compute; reflexivity|].
  split; [destruct k, hooks; vm_compute; reflexivity|].
  exists (fst (st_Rem s "a" 10)). split; [unfold s; destruct k, hooks; vm_compute; reflexivity|].
  unfold s; destruct k, hooks; vm_compute; split; reflexivity.
Qed.

(** the cycle: removing f takes g with it and terminates *)
Example cascade_cycle_history_example :
  forall k hooks,
    let s := reachable k hooks None casc_ops in
    map fst (st_facts (fst (st_Rem s "f" 10))) = ["a"; "b"; "c"; "d"; "e"] /\ snd (st_Rem s "f" 10) = Ok true.
Proof. intros k hooks. destruct k, hooks; vm_compute; split; reflexivity. Qed.

Example cascade_succeeds_history_example :
  forall k,
    let s := reachable k true None casc_ops in
    StateSpec.no_expired s 10 /\ alookup "a" (st_facts s) <> None /\
    (* with the hooks a missing id is an error of the hook's look-up *)
    snd (st_Rem s "zz" 10) = Err "notfound".
Proof.
  intros k s. split; [apply no_expired_b_ok; destruct k; vm_compute; reflexivity|].
  destruct k; vm_compute; split; (discriminate || reflexivity).
Qed.

(** D14 (repaired), on the history of the former counterexample: the removal
    of a missing id that looks like a variable deletes nothing, in both state
    kinds (its closure is the id alone; before the repair it deleted every
    fact that has a deleteWith). *)
Example cascade_varlike_id_history_example :
  forall k,
    let s := reachable k false None [(SAdd "keep" (dwf ["other"] 1) "f" None, 1); (SAdd "k2" (fact_n 1) "f" None, 1)] in
    (forall j, Clo s "?zzz" j -> j = "?zzz") /\
    st_fail s = None /\ StateSpec.no_expired s 10 /\
    snd (st_Rem s "?zzz" 10) = Ok false /\
    st_facts (fst (st_Rem s "?zzz" 10)) = st_facts s /\ st_store (fst (st_Rem s "?zzz" 10)) = st_store s /\
    alookup "keep" (st_facts (fst (st_Rem s "?zzz" 10))) <> None.
Proof.
  intros k s. split.
  - intros j H. induction H as [|x j fact H IH Hl Hn]; [reflexivity|]. subst x. exfalso.
    assert (Hf : st_facts s = [("k2", fact_n 1); ("keep", dwf ["other"] 1)]) by (destruct k; vm_compute; reflexivity).
    rewrite Hf in Hl. cbn [alookup] in Hl.
    destruct (String.eqb j "k2"); [injection Hl as <-; vm_compute in Hn; discriminate|].
    destruct (String.eqb j "keep"); [injection Hl as <-; vm_compute in Hn; discriminate|discriminate].
  - split; [destruct k; reflexivity|]. split; [apply no_expired_b_ok; destruct k; vm_compute; reflexivity|].
    destruct k; vm_compute; repeat split; discriminate.
Qed.

(** ... and with stored ids that look like variables: the same history, then
    a fact stored under "?zzz", "dep" that names "?zzz", "dep2" that names
    "dep", and "?w" that names "?other".  Removing "?zzz" deletes "?zzz",
    "dep" and "dep2" (the literal closure) and nothing else, in memory and
    in the storage, in both state kinds, with or without the hooks. *)
Definition varlike_ops : list (sop * Z) :=
  [(SAdd "keep" (dwf ["other"] 1) "f" None, 1); (SAdd "k2" (fact_n 1) "f" None, 1);
   (SAdd "?zzz" (fact_n 2) "f" None, 2); (SAdd "dep" (dwf ["k9"; "?zzz"] 3) "f" None, 3);
   (SAdd "dep2" (dwf ["dep"] 4) "f" None, 4); (SAdd "?w" (dwf ["?other"] 5) "f" None, 5)].

Example cascade_varlike_stored_ids_history_example :
  forall k hooks,
    let s := reachable k hooks None varlike_ops in
    forallb op_plain varlike_ops = true /\ StateSpec.no_expired s 10 /\
    map fst (st_facts s) = ["?w"; "?zzz"; "dep"; "dep2"; "k2"; "keep"] /\
    snd (st_Rem s "?zzz" 10) = Ok true /\
    map fst (st_facts (fst (st_Rem s "?zzz" 10))) = ["?w"; "k2"; "keep"] /\
    map fst (st_store (fst (st_Rem s "?zzz" 10))) = ["?w"; "k2"; "keep"] /\
    (* a missing variable-looking id with a literal dependent *)
    snd (st_Rem s "?other" 10) = (if hooks then Err "notfound" else Ok false) /\
    map fst (st_facts (fst (st_Rem s "?other" 10))) =
      (if hooks then ["?w"; "?zzz"; "dep"; "dep2"; "k2"; "keep"] else ["?zzz"; "dep"; "dep2"; "k2"; "keep"]).
Proof.
  intros k hooks s. split; [vm_compute; reflexivity|].
  split; [apply no_expired_b_ok; destruct k, hooks; vm_compute; reflexivity|].
  unfold s; destruct k, hooks; vm_compute; repeat split; reflexivity.
Qed.

(** * C. C02 *)

Theorem get_returns_last_write_history : get_returns_last_write_history_statement.
Proof. exact get_returns_last_write_history_main. Qed.
Print Assumptions get_returns_last_write_history.

Theorem spec_last_write : spec_last_write_statement.
Proof. exact spec_last_write_main. Qed.
Print Assumptions spec_last_write.

Theorem spec_not_found : spec_not_found_statement.
Proof. exact spec_not_found_main. Qed.
Print Assumptions spec_not_found.

Theorem indexed_linear_agree_history : indexed_linear_agree_history_statement.
Proof. exact indexed_linear_agree_history_main. Qed.
Print Assumptions indexed_linear_agree_history.

(** adds, an overwrite, a removal with its cascade (a, b, c, d go), an add
    with an omitted id, the removal of a missing id, a re-add, a clear *)
Definition lw_ops : list (sop * Z) :=
  (casc_ops ++ [(SRem "a", 10); (SAdd "" (fact_n 9) "h" None, 11); (SRem "zz", 12);
                (SAdd "b" (fact_n 10) "f9" None, 13); (SGet "b", 14)])%list.

Example get_returns_last_write_history_example :
  forall k,
    forallb op_plain lw_ops = true /\
    let s := reachable k false None lw_ops in
    map fst (spec_facts (strace (init_state k false) lw_ops)) = ["b"; "e"; "f"; "g"; "h"] /\
    snd (st_get s "b" 20) = Ok (fact_n 10) /\          (* the re-add, not the cascaded dependent *)
    snd (st_get s "a" 20) = Err "notfound" /\          (* removed *)
    snd (st_get s "c" 20) = Err "notfound" /\          (* removed by the cascade *)
    snd (st_get s "h" 20) = Ok (fact_n 9).              (* the generated id *)
Proof. intros k. split; [vm_compute; reflexivity|]. destruct k; vm_compute; repeat split. Qed.

(** "last write" on that history: the re-add of b is untouched by what follows;
    the first b was covered by the removal of a *)
Example spec_last_write_example :
  forall k,
    let tr := strace (init_state k false) lw_ops in
    prepare_fact "b" (fact_n 10) 13 "f9" None = Ok ("b", fact_n 10) /\
    nth_error tr 13 = Some ((SAdd "b" (fact_n 10) "f9" None, 13), true) /\
    untouched (spec_step (spec_facts (firstn 13 tr)) ((SAdd "b" (fact_n 10) "f9" None, 13), true)) (skipn 14 tr) "b" = true /\
    covers (spec_facts (firstn 10 tr)) ((SRem "a", 10), true) "b" = true /\
    untouched [] (firstn 10 tr) "zz" = true.
Proof. intros k. destruct k; vm_compute; repeat split. Qed.

(** both kinds, with the cron hooks installed, searches included *)
Example indexed_linear_agree_history_example :
  forall hooks,
    forallb op_plain lw_ops = true /\ forallb op_indexable lw_ops = true /\
    let sL := reachable Linear hooks None lw_ops in
    let p := JObj [("x", JStr "?v")] in
    extract_terms p <> [] /\ no_propvar p = true /\
    forallb (fun kv => fragment p (snd kv) []) (st_facts sL) = true /\
    map fst (match snd (st_search sL p 20) with Ok f => f | _ => [] end) = ["b"; "e"; "f"; "g"; "h"].
Proof.
  intros hooks. split; [destruct hooks; vm_compute; reflexivity|]. split; [vm_compute; reflexivity|].
  split; [vm_compute; discriminate|]. split; [reflexivity|].
  destruct hooks; vm_compute; split; reflexivity.
Qed.

(** The restriction to indexable facts cannot be dropped: AddFact accepts a
    fact with a "rule" member; the indexed state then tries to index it as a
    rule and refuses the add when the body has no usable `when`
    ("No 'when' in rule."), the linear state stores it.  Same history, the
    two kinds give different answers to the add and to the get. *)
Lemma indexed_linear_disagree_unindexable_counterexample :
  let f := JObj [("rule", JObj [("x", JNum 1)])] in
  let ops := [(SAdd "q" f "f" None, 1)] in
  forallb op_plain ops = true /\ forallb op_indexable ops = false /\
  snd (st_add (init_state Indexed false) "q" f 1 "f" None) = Err "No 'when' in rule." /\
  snd (st_add (init_state Linear false) "q" f 1 "f" None) = Ok "q" /\
  snd (st_get (reachable Indexed false None ops) "q" 2) = Err "notfound" /\
  snd (st_get (reachable Linear false None ops) "q" 2) = Ok f.
Proof. vm_compute. repeat split. Qed.

(** the same through the Location API *)
Lemma indexed_linear_disagree_location_counterexample :
  let f := JObj [("rule", JObj [("x", JNum 1)])] in
  let h := [rq c_none 1 (LAddFact "q" f); rq c_none 2 (LGetFact "q")] in
  map (fun qr => lres_err (snd qr)) (sys_trace [("L", loc0 Indexed false None 10)] h) =
    [Some "No 'when' in rule."; Some E_notfound] /\
  map (fun qr => lres_err (snd qr)) (sys_trace [("L", loc0 Linear false None 10)] h) = [None; None].
Proof. vm_compute. split; reflexivity. Qed.

(** * B3. The unprotected twin *)
From Verif Require Import HistTwin HistTwinLoc.

Theorem healthy_reachable : healthy_reachable_statement.
Proof. exact healthy_reachable_main. Qed.
Print Assumptions healthy_reachable.

Theorem right_keys_transparent_state : right_keys_transparent_state_statement.
Proof. exact right_keys_transparent_state_main. Qed.
Print Assumptions right_keys_transparent_state.

Theorem right_keys_transparent : right_keys_transparent_statement.
Proof. exact right_keys_transparent_main. Qed.
Print Assumptions right_keys_transparent.

(** the state of the protected location [prot_loc], as a state-level history,
    and the same history without the two key facts *)
Definition twin_opsU : list (sop * Z) :=
  [(SAdd "a" (fact_n 1) "fresh1" None, 10);
   (SAdd "r" (rule_wrapper (jO rule0) false 0) "fresh1" None, 10)].
Definition twin_opsL : list (sop * Z) :=
  ((SAdd "" (JObj [("!writeKey", JStr "wk")]) "fresh1" None, 10) ::
   (SAdd "" (JObj [("!readKey", JStr "rk")]) "fresh1" None, 10) :: twin_opsU)%list.
Definition twin_L (k : skind) : loc := mkLoc (reachable k false None twin_opsL) false 100.
Definition twin_U (k : skind) : loc := mkLoc (reachable k false None twin_opsU) false 100.

Definition tq (op : lop) (now : Z) : treq := mkTreq c_key c_bad (env_at now) op.
Definition twin_hist : list treq :=
  [tq (LAddFact "b" (dwf ["a"] 2)) 11; tq (LGetFact "b") 11; tq (LEnableRule "r" false) 12; tq (LGetRule "r") 12;
   tq (LSetParents ["p"]) 13; tq LGetParents 13; tq (LRemFact "a") 14; tq (LGetFact "b") 14;
   tq (LRemRule "r") 15; tq (LAddRule "q" rule0) 16; tq (LAddFact "" (fact_n 3)) 16;
   tq LClear 17; tq (LAddFact "c" (fact_n 4)) 18; tq (LSetReadOnly true) 19; tq (LAddFact "d" (fact_n 5)) 20].

Lemma twin_LU_twins k : twin_loc false (twin_L k) (twin_U k).
Proof.
  unfold twin_loc, twin_L, twin_U. cbn [l_readonly l_state].
  split; [reflexivity|]. split; [destruct k; reflexivity|].
  split; [apply healthy_reachable_main; vm_compute; reflexivity|].
  split; [apply healthy_reachable_main; vm_compute; reflexivity|].
  split; [destruct k; vm_compute; reflexivity|].
  split; [|destruct k; vm_compute; reflexivity].
  intros i fact x Hi Hl Hn.
  assert (HF : st_facts (reachable k false None twin_opsL) =
               [("!.readKey", JObj [("!readKey", JStr "rk")]); ("!.writeKey", JObj [("!writeKey", JStr "wk")]);
                ("a", fact_n 1); ("r", rule_wrapper (jO rule0) false 0)]) by (destruct k; vm_compute; reflexivity).
  rewrite HF in Hl. unfold key_idb in Hi. apply orb_true_iff in Hi.
  destruct Hi as [Hi|Hi]; apply String.eqb_eq in Hi; subst i; vm_compute in Hl; injection Hl as <-;
    vm_compute in Hn; discriminate.
Qed.

Example right_keys_transparent_example :
  forall k,
    (* the protected location is the one built through the API *)
    l_state (prot_loc k) = l_state (twin_L k) /\
    twin_loc false (twin_L k) (twin_U k) /\
    (forall q, In q twin_hist -> opens (twin_L k) (t_cL q)) /\
    forallb treq_ok twin_hist = true /\
    lcount (twin_L k) + Z.of_nat (length twin_hist) < l_max (twin_L k) /\
    lcount (twin_U k) + Z.of_nat (length twin_hist) < l_max (twin_U k) /\
    map (fun rr => lres_err (fst rr)) (ttrace "L" (twin_L k, twin_U k) twin_hist) =
      [None; None; None; None; None; None; None; Some E_notfound; None; None; None; None; None; None; Some E_denied] /\
    map fst (st_facts (l_state (fst (fold_left tstep twin_hist (twin_L k, twin_U k))))) = ["c"] /\
    (* without the keys the protected location refuses where the twin answers *)
    lres_err (loc_res "L" (twin_L k) c_bad (env_at 11) (LGetFact "a")) = Some E_denied /\
    lres_ok (loc_res "L" (twin_U k) c_bad (env_at 11) (LGetFact "a")) = true.
Proof.
  intros k. split; [destruct k; vm_compute; reflexivity|]. split; [apply twin_LU_twins|]. split.
  - apply (forall_In_b (fun q => String.eqb (c_wk (t_cL q)) "wk" && String.eqb (c_rk (t_cL q)) "rk")
                       (fun q => opens (twin_L k) (t_cL q))).
    + intros q H. apply andb_true_iff in H. destruct H as [H1 H2]. apply String.eqb_eq in H1, H2.
      unfold opens. rewrite H1, H2. split; right; destruct k; vm_compute; reflexivity.
    + vm_compute. reflexivity.
  - split; [vm_compute; reflexivity|]. split; [destruct k; vm_compute; reflexivity|].
    split; [destruct k; vm_compute; reflexivity|].
    destruct k; vm_compute; repeat split.
Qed.

Example healthy_reachable_example :
  forall k, forallb op_plain twin_opsL = true /\ st_kind (reachable k false None twin_opsL) = k /\
            length (st_facts (reachable k false None twin_opsL)) = 4%nat.
Proof. intros k. split; [vm_compute; reflexivity|]. destruct k; vm_compute; split; reflexivity. Qed.

Definition twin_state_ops : list (sop * Z) :=
  [(SAdd "b" (dwf ["a"] 2) "f" None, 11); (SGet "b", 11); (SAdd "" (fact_n 3) "g1" None, 12);
   (SRem "a", 13); (SGet "b", 13); (SRem "nope", 14); (SAdd "a" (fact_n 7) "f" None, 15)].

Example right_keys_transparent_state_example :
  forall k,
    let s := reachable k false None twin_opsL in
    let u := reachable k false None twin_opsU in
    healthy false s /\ healthy false u /\ st_kind u = st_kind s /\ st_facts u = nokey (st_facts s) /\
    keyfacts_inert s /\
    forallb op_plain twin_state_ops = true /\ forallb op_indexable twin_state_ops = true /\
    forallb op_nokey twin_state_ops = true /\
    sanswers s twin_state_ops =
      [Ok (JStr "b"); Ok (dwf ["a"] 2); Ok (JStr "g1"); Ok (JBool true); Err "notfound"; Ok (JBool false); Ok (JStr "a")] /\
    map fst (st_facts (fold_left sstep twin_state_ops s)) = ["!.readKey"; "!.writeKey"; "a"; "g1"; "r"] /\
    map fst (st_facts (fold_left sstep twin_state_ops u)) = ["a"; "g1"; "r"].
Proof.
  intros k s u. destruct (twin_LU_twins k) as (_ & Hk & Hs & Hu & HF & Hin).
  split; [exact Hs|]. split; [exact Hu|]. split; [exact Hk|]. split; [exact HF|]. split; [exact Hin|].
  split; [vm_compute; reflexivity|]. split; [vm_compute; reflexivity|]. split; [vm_compute; reflexivity|].
  unfold s, u. destruct k; vm_compute; repeat split.
Qed.

(** The twin relation is tight.  StateSize counts the key facts ... *)
Lemma twin_size_differs_example :
  forall k, loc_res "L" (twin_L k) c_key (env_at 11) LSize = RSize (Ok 4) /\
            loc_res "L" (twin_U k) c_key (env_at 11) LSize = RSize (Ok 2).
Proof. intros k. destruct k; vm_compute; split; reflexivity. Qed.

(** ... so with the same maximum the protected location reaches its capacity
    earlier: the keys are paid for out of MaxFacts ... *)
Lemma twin_capacity_differs_counterexample :
  forall k,
    let L := mkLoc (l_state (twin_L k)) false 4 in
    let U := mkLoc (l_state (twin_U k)) false 4 in
    loc_res "L" L c_key (env_at 11) (LAddFact "b" (fact_n 2)) = RId (Err E_capacity) /\
    loc_res "L" U c_key (env_at 11) (LAddFact "b" (fact_n 2)) = RId (Ok "b").
Proof. intros k. destruct k; vm_compute; split; reflexivity. Qed.

(** ... and a search whose pattern matches a key fact returns it: whoever
    holds the read key can read the write key. *)
Lemma twin_search_reveals_keys_example :
  forall k,
    let p := JObj [("!writeKey", JStr "?k")] in
    snd (loc_search_local (twin_L k) (mkCtx "rk" "") (env_at 11) p) = Ok [("!.writeKey", [[("?k", JStr "wk")]])] /\
    snd (loc_search_local (twin_U k) (mkCtx "rk" "") (env_at 11) p) = Ok [].
Proof. intros k. destruct k; vm_compute; split; reflexivity. Qed.

(** * Remaining Examples *)

Example clo_iter_is_closure_example :
  forall k,
    let s := reachable k false None casc_ops in
    sorted_keys (map fst (st_facts s)) = true /\
    clo_iter (S (length (st_facts s))) (st_facts s) ["a"] = ["a"; "b"; "c"; "d"] /\
    clo_iter (S (length (st_facts s))) (st_facts s) ["f"] = ["f"; "g"].
Proof. intros k. destruct k; vm_compute; repeat split. Qed.

Example nothing_else_deleted_history_example :
  forall k hooks,
    let s := reachable k hooks None casc_ops in
    let s' := fst (st_Rem s "a" 10) in
    st_Rem s "a" 10 = (s', Ok true) /\
    alookup "e" (st_facts s') = alookup "e" (st_facts s) /\ alookup "f" (st_store s') = alookup "f" (st_store s) /\
    alookup "e" (st_facts s') <> None.
Proof. intros k hooks. destruct k, hooks; vm_compute; repeat split; discriminate. Qed.

Example spec_not_found_example :
  forall k,
    let tr := strace (init_state k false) lw_ops in
    untouched [] tr "never-added" = true /\
    covers (spec_facts (firstn 10 tr)) ((SRem "a", 10), true) "c" = true /\
    untouched (spec_step (spec_facts (firstn 10 tr)) ((SRem "a", 10), true)) (skipn 11 tr) "c" = true /\
    alookup "c" (spec_facts tr) = None.
Proof. intros k. destruct k; vm_compute; repeat split. Qed.


(** * Additions after the repair of D33 *)

(** an add that a hook rejects is allowed in the histories of C1 / C2: it
    answers the hook's error in both kinds and changes nothing *)
Definition veto_ops : list (sop * Z) :=
  [(SAdd "a" (fact_n 1) "f1" None, 1); (SAdd "v" (JObj [("veto", JBool true)]) "f2" None, 2);
   (SAdd "b" (dwf ["a"] 2) "f3" None, 3); (SGet "v", 4)].

Example hook_rejected_add_history_example :
  forallb op_plain veto_ops = true /\ forallb op_indexable veto_ops = true /\
  (forall k, map snd (strace (init_state k true) veto_ops) = [true; false; true; true] /\
             map fst (spec_facts (strace (init_state k true) veto_ops)) = ["a"; "b"] /\
             st_store (reachable k true None veto_ops) = st_facts (reachable k true None veto_ops) /\
             sanswers (init_state k true) veto_ops =
               [Ok (JStr "a"); Err "vetoed"; Ok (JStr "b"); Err "notfound"]).
Proof.
  split; [vm_compute; reflexivity|]. split; [vm_compute; reflexivity|].
  intros k. destruct k; vm_compute; repeat split.
Qed.

(** The key-reading finding: the holder of the READ key alone (no write key in
    the context) searches the pattern {"!writeKey": "?k"} in the protected
    location built through the API ([prot_sys]: write key "wk", read key "rk")
    and is answered the write-key property fact with its value; its own write
    is denied before, and accepted once it presents what it has read. *)
Lemma read_key_holder_learns_write_key_example :
  forall k,
    let reader := mkCtx "rk" "" in
    let q := rq reader 11 (LSearch (JObj [("!writeKey", JStr "?k")]) false) in
    lres_err (sys_ans (prot_sys k) (rq reader 11 (LAddFact "x" (fact_n 9)))) = Some E_denied /\
    sys_ans (prot_sys k) q = RFound (Ok [("L", [("!.writeKey", [[("?k", JStr "wk")]])])]) /\
    sys_ans (prot_sys k) (rq reader 11 (LGetFact "!.writeKey")) = RJson (Ok (JObj [("!writeKey", JStr "wk")])) /\
    sys_ans (sys_do (prot_sys k) q) (rq (mkCtx "rk" "wk") 12 (LAddFact "x" (fact_n 9))) = RId (Ok "x").
Proof. intros k. destruct k; vm_compute; repeat split. Qed.
